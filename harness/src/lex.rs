//! Independent lexers for the three dialects, written from the engines' manuals
//! (MySQL 8 default sql_mode; PostgreSQL >= 15 with standard_conforming_strings = on; SQLite 3.40).
//! They share no code with sea-query's `token.rs`. Each returns tokens with byte spans and
//! *decoded* payloads, or a lexical error where the engine would raise one.

use crate::util::Dialect;

#[derive(Clone, Debug, PartialEq, Eq, Hash)]
pub enum Tok {
    /// quoted identifier, decoded
    Ident(String),
    /// bare word (keyword or unquoted identifier), as written
    Word(String),
    /// text literal, decoded (`estring` = written as Postgres E'..')
    Str(String),
    /// binary literal x'..', decoded
    Bytes(Vec<u8>),
    Num(String),
    /// `?` (None) or `$n` / `?n` (Some(n))
    Param(Option<u32>),
    Op(String),
    LParen,
    RParen,
    LBracket,
    RBracket,
    Comma,
    Dot,
    Semi,
    Comment(String),
}

#[derive(Clone, Debug, PartialEq, Eq)]
pub struct Token {
    pub tok: Tok,
    pub start: usize,
    pub end: usize,
}

#[derive(Clone, Debug, PartialEq, Eq)]
pub struct LexError {
    pub pos: usize,
    pub msg: String,
}

impl Tok {
    pub fn is_word(&self, w: &str) -> bool {
        matches!(self, Tok::Word(x) if x.eq_ignore_ascii_case(w))
    }
    pub fn is_op(&self, o: &str) -> bool {
        matches!(self, Tok::Op(x) if x == o)
    }
    /// short human-readable form
    pub fn show(&self) -> String {
        match self {
            Tok::Ident(s) => format!("id<{s}>"),
            Tok::Word(s) => s.clone(),
            Tok::Str(s) => format!("str<{s}>"),
            Tok::Bytes(b) => format!("bytes<{}>", b.iter().map(|x| format!("{x:02x}")).collect::<String>()),
            Tok::Num(s) => format!("num<{s}>"),
            Tok::Param(None) => "?".into(),
            Tok::Param(Some(n)) => format!("${n}"),
            Tok::Op(s) => s.clone(),
            Tok::LParen => "(".into(),
            Tok::RParen => ")".into(),
            Tok::LBracket => "[".into(),
            Tok::RBracket => "]".into(),
            Tok::Comma => ",".into(),
            Tok::Dot => ".".into(),
            Tok::Semi => ";".into(),
            Tok::Comment(c) => format!("comment<{c}>"),
        }
    }
}

pub fn show(toks: &[Token]) -> String {
    toks.iter().map(|t| t.tok.show()).collect::<Vec<_>>().join(" ")
}

pub fn lex(d: Dialect, sql: &str) -> Result<Vec<Token>, LexError> {
    match d {
        Dialect::Mysql => lex_mysql(sql),
        Dialect::Postgres => lex_pg(sql),
        Dialect::Sqlite => lex_sqlite(sql),
    }
}

struct Cur<'a> {
    s: &'a str,
    b: &'a [u8],
    i: usize,
}

impl<'a> Cur<'a> {
    fn new(s: &'a str) -> Self {
        Cur { s, b: s.as_bytes(), i: 0 }
    }
    fn eof(&self) -> bool {
        self.i >= self.b.len()
    }
    fn peek(&self) -> Option<char> {
        self.s[self.i..].chars().next()
    }
    fn peek_at(&self, off: usize) -> Option<u8> {
        self.b.get(self.i + off).copied()
    }
    fn bump(&mut self) -> Option<char> {
        let c = self.peek()?;
        self.i += c.len_utf8();
        Some(c)
    }
    fn starts(&self, p: &str) -> bool {
        self.s[self.i..].starts_with(p)
    }
    fn err<T>(&self, pos: usize, msg: impl Into<String>) -> Result<T, LexError> {
        Err(LexError { pos, msg: msg.into() })
    }
}

fn is_word_start(c: char) -> bool {
    c.is_ascii_alphabetic() || c == '_' || (c as u32) >= 0x80
}
fn is_word_char(c: char) -> bool {
    c.is_ascii_alphanumeric() || c == '_' || c == '$' || (c as u32) >= 0x80
}

/// quoted run with doubling of the closing character (identifiers; plain strings)
fn read_doubled(c: &mut Cur, close: char) -> Result<String, LexError> {
    let start = c.i;
    c.bump(); // opening
    let mut out = String::new();
    loop {
        match c.bump() {
            None => return c.err(start, format!("unterminated quoted text opened with {close}")),
            Some(ch) if ch == close => {
                if c.peek() == Some(close) {
                    c.bump();
                    out.push(close);
                } else {
                    return Ok(out);
                }
            }
            Some(ch) => out.push(ch),
        }
    }
}

fn hex_val(b: u8) -> Option<u8> {
    match b {
        b'0'..=b'9' => Some(b - b'0'),
        b'a'..=b'f' => Some(b - b'a' + 10),
        b'A'..=b'F' => Some(b - b'A' + 10),
        _ => None,
    }
}

/// x'HEX' with the cursor on the x
fn read_hex_literal(c: &mut Cur) -> Result<Vec<u8>, LexError> {
    let start = c.i;
    c.bump();
    c.bump(); // x and '
    let mut digits = vec![];
    loop {
        match c.bump() {
            None => return c.err(start, "unterminated hex literal"),
            Some('\'') => break,
            Some(ch) => match (ch as u32 <= 0x7f).then(|| hex_val(ch as u8)).flatten() {
                Some(v) => digits.push(v),
                None => return c.err(start, format!("bad character {ch:?} in hex literal")),
            },
        }
    }
    if digits.len() % 2 != 0 {
        return c.err(start, "odd number of digits in hex literal");
    }
    Ok(digits.chunks(2).map(|p| p[0] * 16 + p[1]).collect())
}

/// number; `junk_is_error`: identifier characters directly after the number are a lexical error
/// (Postgres >= 15 "trailing junk", SQLite "unrecognized token"); on MySQL such a run is an identifier.
fn read_number(c: &mut Cur) -> String {
    let start = c.i;
    while matches!(c.peek(), Some(ch) if ch.is_ascii_digit()) {
        c.bump();
    }
    if c.peek() == Some('.') {
        c.bump();
        while matches!(c.peek(), Some(ch) if ch.is_ascii_digit()) {
            c.bump();
        }
    }
    if matches!(c.peek(), Some('e') | Some('E')) {
        let save = c.i;
        c.bump();
        if matches!(c.peek(), Some('+') | Some('-')) {
            c.bump();
        }
        if matches!(c.peek(), Some(ch) if ch.is_ascii_digit()) {
            while matches!(c.peek(), Some(ch) if ch.is_ascii_digit()) {
                c.bump();
            }
        } else {
            c.i = save;
        }
    }
    c.s[start..c.i].to_string()
}

fn skip_block_comment(c: &mut Cur, nested: bool) -> Result<String, LexError> {
    let start = c.i;
    c.i += 2;
    let mut depth = 1;
    while depth > 0 {
        if c.eof() {
            return c.err(start, "unterminated comment");
        }
        if c.starts("*/") {
            c.i += 2;
            depth -= 1;
        } else if nested && c.starts("/*") {
            c.i += 2;
            depth += 1;
        } else {
            c.bump();
        }
    }
    Ok(c.s[start..c.i].to_string())
}

fn line_comment(c: &mut Cur) -> String {
    let start = c.i;
    while let Some(ch) = c.peek() {
        if ch == '\n' {
            break;
        }
        c.bump();
    }
    c.s[start..c.i].to_string()
}

fn simple_punct(ch: char) -> Option<Tok> {
    Some(match ch {
        '(' => Tok::LParen,
        ')' => Tok::RParen,
        ',' => Tok::Comma,
        ';' => Tok::Semi,
        _ => return None,
    })
}

// ------------------------------------------------------------------------------------------ MySQL

/// MySQL string body with the cursor on the opening quote (default sql_mode: backslash escapes on).
fn read_mysql_string(c: &mut Cur, q: char) -> Result<String, LexError> {
    let start = c.i;
    c.bump();
    let mut out = String::new();
    loop {
        match c.bump() {
            None => return c.err(start, "unterminated string"),
            Some('\\') => match c.bump() {
                None => return c.err(start, "unterminated string"),
                Some('0') => out.push('\0'),
                Some('b') => out.push('\u{8}'),
                Some('n') => out.push('\n'),
                Some('r') => out.push('\r'),
                Some('t') => out.push('\t'),
                Some('Z') => out.push('\u{1a}'),
                Some('%') => out.push_str("\\%"),
                Some('_') => out.push_str("\\_"),
                Some(other) => out.push(other), // includes \\ \' \" and e.g. \z -> z
            },
            Some(ch) if ch == q => {
                if c.peek() == Some(q) {
                    c.bump();
                    out.push(q);
                } else {
                    return Ok(out);
                }
            }
            Some(ch) => out.push(ch),
        }
    }
}

pub fn lex_mysql(sql: &str) -> Result<Vec<Token>, LexError> {
    let mut c = Cur::new(sql);
    let mut out = vec![];
    while let Some(ch) = c.peek() {
        let start = c.i;
        let tok = if ch.is_whitespace() {
            c.bump();
            continue;
        } else if ch == '`' {
            let s = read_doubled(&mut c, '`')?;
            if s.is_empty() {
                return c.err(start, "empty identifier");
            }
            Tok::Ident(s)
        } else if ch == '\'' || ch == '"' {
            Tok::Str(read_mysql_string(&mut c, ch)?)
        } else if (ch == 'x' || ch == 'X') && c.peek_at(1) == Some(b'\'') {
            Tok::Bytes(read_hex_literal(&mut c)?)
        } else if ch.is_ascii_digit() || (ch == '.' && matches!(c.peek_at(1), Some(b) if b.is_ascii_digit())) {
            let n = read_number(&mut c);
            if matches!(c.peek(), Some(x) if is_word_char(x)) {
                // MySQL reads `1abc` as an identifier
                while matches!(c.peek(), Some(x) if is_word_char(x)) {
                    c.bump();
                }
                Tok::Word(c.s[start..c.i].to_string())
            } else {
                Tok::Num(n)
            }
        } else if is_word_start(ch) || ch == '$' {
            while matches!(c.peek(), Some(x) if is_word_char(x)) {
                c.bump();
            }
            Tok::Word(c.s[start..c.i].to_string())
        } else if ch == '?' {
            c.bump();
            Tok::Param(None)
        } else if ch == '#' {
            Tok::Comment(line_comment(&mut c))
        } else if c.starts("--") && matches!(c.peek_at(2), None | Some(b' ') | Some(b'\t') | Some(b'\n') | Some(b'\r')) {
            Tok::Comment(line_comment(&mut c))
        } else if c.starts("/*") {
            Tok::Comment(skip_block_comment(&mut c, false)?)
        } else if let Some(t) = simple_punct(ch) {
            c.bump();
            t
        } else if ch == '.' {
            c.bump();
            Tok::Dot
        } else {
            let ops = ["<=>", "->>", "<=", ">=", "<>", "!=", "<<", ">>", "||", "&&", ":=", "->"];
            if let Some(o) = ops.iter().find(|o| c.starts(o)) {
                c.i += o.len();
                Tok::Op(o.to_string())
            } else if "+-*/%=<>&|^~!@:".contains(ch) {
                c.bump();
                Tok::Op(ch.to_string())
            } else {
                return c.err(start, format!("unexpected character {ch:?}"));
            }
        };
        out.push(Token { tok, start, end: c.i });
    }
    Ok(out)
}

// --------------------------------------------------------------------------------------- Postgres

fn read_pg_estring(c: &mut Cur) -> Result<String, LexError> {
    let start = c.i;
    c.bump(); // E
    c.bump(); // '
    let mut out: Vec<u8> = vec![]; // bytes: \x and \ooo produce raw bytes
    let mut buf = [0u8; 4];
    loop {
        match c.bump() {
            None => return c.err(start, "unterminated E-string"),
            Some('\'') => {
                if c.peek() == Some('\'') {
                    c.bump();
                    out.push(b'\'');
                } else {
                    break;
                }
            }
            Some('\\') => match c.bump() {
                None => return c.err(start, "unterminated E-string"),
                Some('b') => out.push(8),
                Some('f') => out.push(12),
                Some('n') => out.push(b'\n'),
                Some('r') => out.push(b'\r'),
                Some('t') => out.push(b'\t'),
                Some(o @ '0'..='7') => {
                    let mut v = o as u32 - '0' as u32;
                    for _ in 0..2 {
                        match c.peek() {
                            Some(d @ '0'..='7') => {
                                v = v * 8 + (d as u32 - '0' as u32);
                                c.bump();
                            }
                            _ => break,
                        }
                    }
                    out.push((v & 0xff) as u8);
                }
                Some('x') => {
                    let mut v: Option<u32> = None;
                    for _ in 0..2 {
                        match c.peek().and_then(|d| (d as u32 <= 0x7f).then(|| hex_val(d as u8)).flatten()) {
                            Some(h) => {
                                v = Some(v.unwrap_or(0) * 16 + h as u32);
                                c.bump();
                            }
                            None => break,
                        }
                    }
                    match v {
                        Some(v) => out.push(v as u8),
                        None => out.push(b'x'),
                    }
                }
                Some(u @ ('u' | 'U')) => {
                    let n = if u == 'u' { 4 } else { 8 };
                    let mut v = 0u32;
                    for _ in 0..n {
                        match c.bump().and_then(|d| (d as u32 <= 0x7f).then(|| hex_val(d as u8)).flatten()) {
                            Some(h) => v = v * 16 + h as u32,
                            None => return c.err(start, "invalid Unicode escape"),
                        }
                    }
                    match char::from_u32(v) {
                        Some(ch) if v != 0 => out.extend_from_slice(ch.encode_utf8(&mut buf).as_bytes()),
                        _ => return c.err(start, "invalid Unicode escape value"),
                    }
                }
                Some(other) => out.extend_from_slice(other.encode_utf8(&mut buf).as_bytes()),
            },
            Some(ch) => out.extend_from_slice(ch.encode_utf8(&mut buf).as_bytes()),
        }
    }
    if out.contains(&0) {
        return c.err(start, "invalid byte sequence: NUL in string");
    }
    String::from_utf8(out).or_else(|_| c.err(start, "invalid byte sequence for encoding UTF8"))
}

fn is_pg_op_char(ch: char) -> bool {
    "+-*/<>=~!@#%^&|`?".contains(ch)
}

pub fn lex_pg(sql: &str) -> Result<Vec<Token>, LexError> {
    let mut c = Cur::new(sql);
    let mut out = vec![];
    while let Some(ch) = c.peek() {
        let start = c.i;
        let tok = if ch.is_whitespace() {
            c.bump();
            continue;
        } else if ch == '\0' {
            return c.err(start, "NUL character in query text");
        } else if ch == '"' {
            let s = read_doubled(&mut c, '"')?;
            if s.is_empty() {
                return c.err(start, "zero-length delimited identifier");
            }
            Tok::Ident(s)
        } else if ch == '\'' {
            let s = read_doubled(&mut c, '\'')?;
            if s.contains('\0') {
                return c.err(start, "NUL in string");
            }
            Tok::Str(s)
        } else if (ch == 'E' || ch == 'e') && c.peek_at(1) == Some(b'\'') {
            Tok::Str(read_pg_estring(&mut c)?)
        } else if (ch == 'x' || ch == 'X' || ch == 'b' || ch == 'B') && c.peek_at(1) == Some(b'\'') {
            // bit-string constants
            if ch == 'x' || ch == 'X' {
                Tok::Bytes(read_hex_literal(&mut c)?)
            } else {
                c.bump();
                let s = read_doubled(&mut c, '\'')?;
                Tok::Str(s)
            }
        } else if ch == '$' {
            if matches!(c.peek_at(1), Some(b) if b.is_ascii_digit()) {
                c.bump();
                let ds = c.i;
                while matches!(c.peek(), Some(x) if x.is_ascii_digit()) {
                    c.bump();
                }
                let n: u32 = match c.s[ds..c.i].parse() {
                    Ok(n) => n,
                    Err(_) => return c.err(start, "parameter number too large"),
                };
                if matches!(c.peek(), Some(x) if is_word_start(x)) {
                    return c.err(start, "trailing junk after parameter");
                }
                Tok::Param(Some(n))
            } else {
                // dollar-quoted string: $tag$ ... $tag$
                let mut j = c.i + 1;
                while j < c.b.len() && (c.b[j].is_ascii_alphanumeric() || c.b[j] == b'_' || c.b[j] >= 0x80) {
                    j += 1;
                }
                if j < c.b.len() && c.b[j] == b'$' {
                    let tag = &c.s[c.i..=j];
                    let body_start = j + 1;
                    match c.s[body_start..].find(tag) {
                        Some(off) => {
                            let body = c.s[body_start..body_start + off].to_string();
                            c.i = body_start + off + tag.len();
                            Tok::Str(body)
                        }
                        None => return c.err(start, "unterminated dollar-quoted string"),
                    }
                } else {
                    return c.err(start, "syntax error at or near \"$\"");
                }
            }
        } else if ch.is_ascii_digit() || (ch == '.' && matches!(c.peek_at(1), Some(b) if b.is_ascii_digit())) {
            let n = read_number(&mut c);
            if matches!(c.peek(), Some(x) if is_word_start(x)) {
                return c.err(start, "trailing junk after numeric literal");
            }
            Tok::Num(n)
        } else if is_word_start(ch) {
            while matches!(c.peek(), Some(x) if is_word_char(x)) {
                c.bump();
            }
            Tok::Word(c.s[start..c.i].to_string())
        } else if c.starts("--") {
            Tok::Comment(line_comment(&mut c))
        } else if c.starts("/*") {
            Tok::Comment(skip_block_comment(&mut c, true)?)
        } else if c.starts("::") {
            c.i += 2;
            Tok::Op("::".into())
        } else if c.starts(":=") {
            c.i += 2;
            Tok::Op(":=".into())
        } else if ch == ':' {
            c.bump();
            Tok::Op(":".into())
        } else if let Some(t) = simple_punct(ch) {
            c.bump();
            t
        } else if ch == '[' {
            c.bump();
            Tok::LBracket
        } else if ch == ']' {
            c.bump();
            Tok::RBracket
        } else if ch == '.' {
            c.bump();
            Tok::Dot
        } else if is_pg_op_char(ch) {
            // maximal run, cut at comment starts
            let mut j = c.i;
            while j < c.b.len() && is_pg_op_char(c.b[j] as char) && c.b[j] < 0x80 {
                if c.s[j..].starts_with("--") || c.s[j..].starts_with("/*") {
                    break;
                }
                j += 1;
            }
            let mut op = &c.s[c.i..j];
            // a multi-character operator cannot end in + or - unless it contains one of ~ ! @ # % ^ & | ` ?
            while op.len() > 1 && (op.ends_with('+') || op.ends_with('-')) && !op.chars().any(|x| "~!@#%^&|`?".contains(x)) {
                op = &op[..op.len() - 1];
            }
            c.i += op.len();
            Tok::Op(op.to_string())
        } else {
            return c.err(start, format!("unexpected character {ch:?}"));
        };
        out.push(Token { tok, start, end: c.i });
    }
    Ok(out)
}

// ----------------------------------------------------------------------------------------- SQLite

pub fn lex_sqlite(sql: &str) -> Result<Vec<Token>, LexError> {
    let mut c = Cur::new(sql);
    let mut out = vec![];
    while let Some(ch) = c.peek() {
        let start = c.i;
        let tok = if matches!(ch, ' ' | '\t' | '\n' | '\r' | '\u{c}') {
            c.bump();
            continue;
        } else if ch == '\0' {
            return c.err(start, "NUL character ends the statement text");
        } else if ch == '"' {
            Tok::Ident(read_doubled(&mut c, '"')?)
        } else if ch == '`' {
            Tok::Ident(read_doubled(&mut c, '`')?)
        } else if ch == '[' {
            c.bump();
            let s = c.i;
            loop {
                match c.bump() {
                    None => return c.err(start, "unterminated [identifier]"),
                    Some(']') => break,
                    Some(_) => {}
                }
            }
            Tok::Ident(c.s[s..c.i - 1].to_string())
        } else if ch == '\'' {
            Tok::Str(read_doubled(&mut c, '\'')?)
        } else if (ch == 'x' || ch == 'X') && c.peek_at(1) == Some(b'\'') {
            Tok::Bytes(read_hex_literal(&mut c)?)
        } else if ch.is_ascii_digit() || (ch == '.' && matches!(c.peek_at(1), Some(b) if b.is_ascii_digit())) {
            let n = read_number(&mut c);
            if matches!(c.peek(), Some(x) if is_word_char(x)) {
                return c.err(start, "unrecognized token (identifier characters after a number)");
            }
            Tok::Num(n)
        } else if is_word_start(ch) {
            while matches!(c.peek(), Some(x) if is_word_char(x)) {
                c.bump();
            }
            Tok::Word(c.s[start..c.i].to_string())
        } else if ch == '?' {
            c.bump();
            let ds = c.i;
            while matches!(c.peek(), Some(x) if x.is_ascii_digit()) {
                c.bump();
            }
            if c.i > ds {
                Tok::Param(c.s[ds..c.i].parse().ok())
            } else {
                Tok::Param(None)
            }
        } else if matches!(ch, ':' | '@' | '$') {
            c.bump();
            let ds = c.i;
            while matches!(c.peek(), Some(x) if is_word_char(x)) {
                c.bump();
            }
            if c.i == ds {
                return c.err(start, format!("unrecognized token {ch:?}"));
            }
            Tok::Word(c.s[start..c.i].to_string())
        } else if c.starts("--") {
            Tok::Comment(line_comment(&mut c))
        } else if c.starts("/*") {
            // SQLite tolerates an unterminated block comment at the end of input
            let save = c.i;
            match skip_block_comment(&mut c, false) {
                Ok(t) => Tok::Comment(t),
                Err(_) => {
                    c.i = c.b.len();
                    Tok::Comment(c.s[save..].to_string())
                }
            }
        } else if let Some(t) = simple_punct(ch) {
            c.bump();
            t
        } else if ch == '.' {
            c.bump();
            Tok::Dot
        } else {
            let ops = ["->>", "||", "->", "<<", ">>", "<=", ">=", "==", "!=", "<>"];
            if let Some(o) = ops.iter().find(|o| c.starts(o)) {
                c.i += o.len();
                Tok::Op(o.to_string())
            } else if "+-*/%=<>&|~".contains(ch) {
                c.bump();
                Tok::Op(ch.to_string())
            } else {
                return c.err(start, format!("unrecognized token {ch:?}"));
            }
        };
        out.push(Token { tok, start, end: c.i });
    }
    Ok(out)
}

// ------------------------------------------------------------------------- the harness's own encoders

/// Reference encoder for a text literal (used by self-tests, `refsql` and the transliterator).
pub fn enc_str(d: Dialect, s: &str) -> String {
    match d {
        Dialect::Sqlite => format!("'{}'", s.replace('\'', "''")),
        Dialect::Postgres => {
            if s.contains('\\') {
                // E-string with only the two escapes that are needed
                format!("E'{}'", s.replace('\\', "\\\\").replace('\'', "''"))
            } else {
                format!("'{}'", s.replace('\'', "''"))
            }
        }
        Dialect::Mysql => {
            let mut o = String::from("'");
            for ch in s.chars() {
                match ch {
                    '\'' => o.push_str("''"),
                    '\\' => o.push_str("\\\\"),
                    '\0' => o.push_str("\\0"),
                    c => o.push(c),
                }
            }
            o.push('\'');
            o
        }
    }
}

pub fn enc_ident(d: Dialect, s: &str) -> String {
    match d {
        Dialect::Mysql => format!("`{}`", s.replace('`', "``")),
        _ => format!("\"{}\"", s.replace('"', "\"\"")),
    }
}

pub fn enc_bytes(d: Dialect, b: &[u8]) -> String {
    let hex: String = b.iter().map(|x| format!("{x:02x}")).collect();
    match d {
        Dialect::Postgres => format!("'\\x{hex}'"),
        _ => format!("x'{hex}'"),
    }
}

/// Postgres bytea hex input format: the decoded *text* of the literal is `\x` + hex pairs.
pub fn pg_bytea_from_text(text: &str) -> Option<Vec<u8>> {
    let rest = text.strip_prefix("\\x")?;
    let digits: Vec<u8> = rest.bytes().filter(|b| !b.is_ascii_whitespace()).map(hex_val).collect::<Option<_>>()?;
    if digits.len() % 2 != 0 {
        return None;
    }
    Some(digits.chunks(2).map(|p| p[0] * 16 + p[1]).collect())
}
