//! Small shared helpers: bounded-exhaustive string enumeration, char strategies.

use proptest::prelude::*;

/// Number of strings over an alphabet of `k` symbols with length <= `max_len`.
pub fn count_strings(k: u64, max_len: u32) -> u64 {
    (0..=max_len).map(|l| k.pow(l)).sum()
}

/// i-th string (shortest first) over `alphabet`; index 0 is the empty string.
pub fn nth_string(alphabet: &[&str], mut i: u64) -> String {
    let k = alphabet.len() as u64;
    let mut len = 0u32;
    loop {
        let n = k.pow(len);
        if i < n {
            break;
        }
        i -= n;
        len += 1;
    }
    let mut digits = vec![0usize; len as usize];
    for d in digits.iter_mut().rev() {
        *d = (i % k) as usize;
        i /= k;
    }
    digits.into_iter().map(|d| alphabet[d]).collect()
}

/// Characters that matter for quoting/escaping, mixed with arbitrary Unicode.
pub fn nasty_char() -> impl Strategy<Value = char> {
    prop_oneof![
        4 => proptest::sample::select(vec![
            '\'', '"', '`', '\\', '[', ']', '?', '$', '%', '_', '\n', '\r', '\t', '\u{8}', '\u{1a}', ' ', '.',
            ';', '-', '/', '*', '(', ')', ',', 'E', 'x', 'n', 'z', 'Z', '0', '1', 'b', 't', 'r',
        ]),
        2 => proptest::char::range('a', 'z'),
        1 => proptest::char::range('\u{80}', '\u{24f}'),
        1 => proptest::char::range('\u{1}', '\u{1f}'),
        1 => proptest::char::range('\u{1f300}', '\u{1f64f}'),
        2 => any::<char>().prop_filter("no NUL", |c| *c != '\0'),
    ]
}

pub fn nasty_string(max: usize) -> impl Strategy<Value = String> {
    proptest::collection::vec(nasty_char(), 0..=max).prop_map(|v| v.into_iter().collect())
}

/// like nasty_string but NUL may appear
pub fn nasty_string_nul(max: usize) -> impl Strategy<Value = String> {
    proptest::collection::vec(prop_oneof![30 => nasty_char(), 1 => Just('\0')], 0..=max)
        .prop_map(|v| v.into_iter().collect())
}

#[derive(Clone, Copy, Debug, PartialEq, Eq, Hash, PartialOrd, Ord, serde::Serialize, serde::Deserialize)]
pub enum Dialect {
    Mysql,
    Postgres,
    Sqlite,
}

pub const DIALECTS: [Dialect; 3] = [Dialect::Mysql, Dialect::Postgres, Dialect::Sqlite];

impl Dialect {
    pub fn name(self) -> &'static str {
        match self {
            Dialect::Mysql => "mysql",
            Dialect::Postgres => "pg",
            Dialect::Sqlite => "sqlite",
        }
    }
}

/// Run `f` with the query builder of the dialect (generic over the builder type).
#[macro_export]
macro_rules! with_backend {
    ($d:expr, $b:ident => $body:expr) => {
        match $d {
            $crate::util::Dialect::Mysql => {
                let $b = sea_query::MysqlQueryBuilder;
                $body
            }
            $crate::util::Dialect::Postgres => {
                let $b = sea_query::PostgresQueryBuilder;
                $body
            }
            $crate::util::Dialect::Sqlite => {
                let $b = sea_query::SqliteQueryBuilder;
                $body
            }
        }
    };
}
