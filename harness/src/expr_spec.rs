//! Generator-side expression trees ("specs"), their interpretation through sea-query's public
//! expression API, the neutral tree each one must re-parse to, and an independent fully
//! parenthesised SQLite rendering.

use crate::lex;
use crate::parse::PT;
use crate::util::Dialect;
use proptest::prelude::*;
use sea_query::extension::postgres::{PgBinOper, PgExpr, PgFunc};
use sea_query::extension::sqlite::{SqliteBinOper, SqliteExpr};
use sea_query::*;
use serde::{Deserialize, Serialize};

#[derive(Clone, Copy, Debug, PartialEq, Eq, Hash, PartialOrd, Ord, Serialize, Deserialize)]
pub enum Op {
    And,
    Or,
    Like,
    NotLike,
    Is,
    IsNot,
    Eq,
    Ne,
    Lt,
    Gt,
    Le,
    Ge,
    Add,
    Sub,
    Mul,
    Div,
    Mod,
    LShift,
    RShift,
    BitAnd,
    BitOr,
    PgILike,
    PgNotILike,
    PgMatches,
    PgContains,
    PgContained,
    PgConcat,
    PgOverlap,
    PgSimilarity,
    PgWordSim,
    PgStrictWordSim,
    PgSimDist,
    PgWordSimDist,
    PgStrictWordSimDist,
    PgGetJson,
    PgCastJson,
    PgRegex,
    PgRegexI,
    SqGlob,
    SqMatch,
    SqGetJson,
    SqCastJson,
    /// index into CUSTOM_OPS
    Custom(u8),
}

/// custom operators with a precedence known from the engine's grammar: (text, dialect)
pub const CUSTOM_OPS: [(&str, Dialect); 9] = [
    ("<=>", Dialect::Mysql),
    ("DIV", Dialect::Mysql),
    ("XOR", Dialect::Mysql),
    ("^", Dialect::Mysql),
    ("||", Dialect::Sqlite),
    ("==", Dialect::Sqlite),
    ("||", Dialect::Postgres),
    ("~~", Dialect::Postgres),
    ("^", Dialect::Postgres),
];

pub const COMMON_OPS: [Op; 21] = [
    Op::And, Op::Or, Op::Like, Op::NotLike, Op::Is, Op::IsNot, Op::Eq, Op::Ne, Op::Lt, Op::Gt, Op::Le, Op::Ge, Op::Add, Op::Sub, Op::Mul,
    Op::Div, Op::Mod, Op::LShift, Op::RShift, Op::BitAnd, Op::BitOr,
];
pub const PG_OPS: [Op; 17] = [
    Op::PgILike, Op::PgNotILike, Op::PgMatches, Op::PgContains, Op::PgContained, Op::PgConcat, Op::PgOverlap, Op::PgSimilarity, Op::PgWordSim,
    Op::PgStrictWordSim, Op::PgSimDist, Op::PgWordSimDist, Op::PgStrictWordSimDist, Op::PgGetJson, Op::PgCastJson, Op::PgRegex, Op::PgRegexI,
];
pub const SQ_OPS: [Op; 4] = [Op::SqGlob, Op::SqMatch, Op::SqGetJson, Op::SqCastJson];

pub fn ops_for(d: Dialect) -> Vec<Op> {
    let mut v: Vec<Op> = COMMON_OPS.to_vec();
    match d {
        Dialect::Postgres => v.extend(PG_OPS),
        Dialect::Sqlite => v.extend(SQ_OPS),
        Dialect::Mysql => {}
    }
    for (i, (_, cd)) in CUSTOM_OPS.iter().enumerate() {
        if *cd == d {
            v.push(Op::Custom(i as u8));
        }
    }
    v
}

impl Op {
    pub fn to_binoper(self) -> BinOper {
        match self {
            Op::And => BinOper::And,
            Op::Or => BinOper::Or,
            Op::Like => BinOper::Like,
            Op::NotLike => BinOper::NotLike,
            Op::Is => BinOper::Is,
            Op::IsNot => BinOper::IsNot,
            Op::Eq => BinOper::Equal,
            Op::Ne => BinOper::NotEqual,
            Op::Lt => BinOper::SmallerThan,
            Op::Gt => BinOper::GreaterThan,
            Op::Le => BinOper::SmallerThanOrEqual,
            Op::Ge => BinOper::GreaterThanOrEqual,
            Op::Add => BinOper::Add,
            Op::Sub => BinOper::Sub,
            Op::Mul => BinOper::Mul,
            Op::Div => BinOper::Div,
            Op::Mod => BinOper::Mod,
            Op::LShift => BinOper::LShift,
            Op::RShift => BinOper::RShift,
            Op::BitAnd => BinOper::BitAnd,
            Op::BitOr => BinOper::BitOr,
            Op::PgILike => PgBinOper::ILike.into(),
            Op::PgNotILike => PgBinOper::NotILike.into(),
            Op::PgMatches => PgBinOper::Matches.into(),
            Op::PgContains => PgBinOper::Contains.into(),
            Op::PgContained => PgBinOper::Contained.into(),
            Op::PgConcat => PgBinOper::Concatenate.into(),
            Op::PgOverlap => PgBinOper::Overlap.into(),
            Op::PgSimilarity => PgBinOper::Similarity.into(),
            Op::PgWordSim => PgBinOper::WordSimilarity.into(),
            Op::PgStrictWordSim => PgBinOper::StrictWordSimilarity.into(),
            Op::PgSimDist => PgBinOper::SimilarityDistance.into(),
            Op::PgWordSimDist => PgBinOper::WordSimilarityDistance.into(),
            Op::PgStrictWordSimDist => PgBinOper::StrictWordSimilarityDistance.into(),
            Op::PgGetJson => PgBinOper::GetJsonField.into(),
            Op::PgCastJson => PgBinOper::CastJsonField.into(),
            Op::PgRegex => PgBinOper::Regex.into(),
            Op::PgRegexI => PgBinOper::RegexCaseInsensitive.into(),
            Op::SqGlob => SqliteBinOper::Glob.into(),
            Op::SqMatch => SqliteBinOper::Match.into(),
            Op::SqGetJson => SqliteBinOper::GetJsonField.into(),
            Op::SqCastJson => SqliteBinOper::CastJsonField.into(),
            Op::Custom(i) => BinOper::Custom(CUSTOM_OPS[i as usize].0),
        }
    }

    /// the operator's spelling in the target dialect, as documented for sea-query (upper-case words)
    pub fn text(self) -> &'static str {
        match self {
            Op::And => "AND",
            Op::Or => "OR",
            Op::Like => "LIKE",
            Op::NotLike => "NOT LIKE",
            Op::Is => "IS",
            Op::IsNot => "IS NOT",
            Op::Eq => "=",
            Op::Ne => "<>",
            Op::Lt => "<",
            Op::Gt => ">",
            Op::Le => "<=",
            Op::Ge => ">=",
            Op::Add => "+",
            Op::Sub => "-",
            Op::Mul => "*",
            Op::Div => "/",
            Op::Mod => "%",
            Op::LShift => "<<",
            Op::RShift => ">>",
            Op::BitAnd => "&",
            Op::BitOr => "|",
            Op::PgILike => "ILIKE",
            Op::PgNotILike => "NOT ILIKE",
            Op::PgMatches => "@@",
            Op::PgContains => "@>",
            Op::PgContained => "<@",
            Op::PgConcat => "||",
            Op::PgOverlap => "&&",
            Op::PgSimilarity => "%",
            Op::PgWordSim => "<%",
            Op::PgStrictWordSim => "<<%",
            Op::PgSimDist => "<->",
            Op::PgWordSimDist => "<<->",
            Op::PgStrictWordSimDist => "<<<->",
            Op::PgGetJson => "->",
            Op::PgCastJson => "->>",
            Op::PgRegex => "~",
            Op::PgRegexI => "~*",
            Op::SqGlob => "GLOB",
            Op::SqMatch => "MATCH",
            Op::SqGetJson => "->",
            Op::SqCastJson => "->>",
            Op::Custom(i) => CUSTOM_OPS[i as usize].0,
        }
    }

    pub fn is_like_family(self) -> bool {
        matches!(self, Op::Like | Op::NotLike | Op::PgILike | Op::PgNotILike | Op::SqGlob | Op::SqMatch)
    }
}

#[derive(Clone, Copy, Debug, PartialEq, Eq, Hash, Serialize, Deserialize)]
pub enum F {
    Abs,
    Coalesce,
    IfNull,
    Greatest,
    Least,
    CharLength,
    Lower,
    Upper,
    Round,
    Custom,
    Md5,
    Random,
    RoundPrec,
    BitAndAgg,
    BitOrAgg,
    // Postgres extension functions
    PgToTsquery,
    PgToTsqueryCfg,
    PgToTsvectorCfg,
    PgTsRank,
    PgStartsWith,
    PgGenRandomUuid,
    PgJsonAgg,
    PgArrayAgg,
    PgArrayAggDistinct,
    PgDateTrunc,
    PgJsonBuildObject,
    PgPlaintoTsquery,
    PgPlaintoTsqueryCfg,
    PgPhrasetoTsquery,
    PgPhrasetoTsqueryCfg,
    PgWebsearchToTsquery,
    PgWebsearchToTsqueryCfg,
    PgTsRankCd,
}

/// a value of any supported type (used by C02); floats are stored as bits of a finite number
#[derive(Clone, Debug, PartialEq, Eq, Hash, Serialize, Deserialize)]
pub enum VS {
    I8(i8),
    I16(i16),
    I32(i32),
    I64(i64),
    U8(u8),
    U16(u16),
    U32(u32),
    U64(u64),
    F32(u32),
    F64(u64),
    Str(String),
    Char(char),
    Bytes(Vec<u8>),
    Bool(bool),
    /// typed NULL: index into the list of variants
    Null(u8),
    Json(String),
    Date(i32),
    DateTime(i64),
    TimeDate(i32),
    Decimal(i64, u8),
    BigDecimal(i64, i8),
    Uuid(u64, u64),
}

impl VS {
    pub fn value(&self) -> Value {
        match self {
            VS::I8(v) => (*v).into(),
            VS::I16(v) => (*v).into(),
            VS::I32(v) => (*v).into(),
            VS::I64(v) => (*v).into(),
            VS::U8(v) => (*v).into(),
            VS::U16(v) => (*v).into(),
            VS::U32(v) => (*v).into(),
            VS::U64(v) => (*v).into(),
            VS::F32(b) => {
                let f = f32::from_bits(*b);
                (if f.is_finite() { f } else { 1.5f32 }).into()
            }
            VS::F64(b) => {
                let f = f64::from_bits(*b);
                (if f.is_finite() { f } else { 2.5f64 }).into()
            }
            VS::Str(s) => s.as_str().into(),
            VS::Char(c) => (*c).into(),
            VS::Bytes(b) => b.clone().into(),
            VS::Bool(b) => (*b).into(),
            VS::Null(k) => match k % 12 {
                0 => Value::Int(None),
                1 => Value::String(None),
                2 => Value::Bool(None),
                3 => Value::Double(None),
                4 => Value::Bytes(None),
                5 => Value::Char(None),
                6 => Value::Json(None),
                7 => Value::ChronoDate(None),
                8 => Value::Decimal(None),
                9 => Value::Uuid(None),
                10 => Value::BigUnsigned(None),
                _ => Value::TimeDate(None),
            },
            VS::Json(s) => serde_json::json!({"k": s, "n": [1, 2.5, null]}).into(),
            VS::Date(d) => chrono::NaiveDate::from_num_days_from_ce_opt(700_000 + (*d % 40_000)).unwrap_or_default().into(),
            VS::DateTime(t) => chrono::DateTime::from_timestamp(*t % 4_000_000_000, 0).unwrap_or_default().naive_utc().into(),
            VS::TimeDate(d) => time::Date::from_julian_day(2_440_000 + (*d % 30_000).abs()).unwrap_or(time::Date::MIN).into(),
            VS::Decimal(m, s) => rust_decimal::Decimal::new(*m, (*s % 20) as u32).into(),
            VS::BigDecimal(m, s) => bigdecimal::BigDecimal::new((*m).into(), (*s % 20) as i64).into(),
            VS::Uuid(a, b) => uuid::Uuid::from_u64_pair(*a, *b).into(),
        }
    }
}

pub fn vs_strategy() -> impl Strategy<Value = VS> {
    prop_oneof![
        any::<i8>().prop_map(VS::I8),
        any::<i16>().prop_map(VS::I16),
        any::<i32>().prop_map(VS::I32),
        any::<i64>().prop_map(VS::I64),
        any::<u8>().prop_map(VS::U8),
        any::<u16>().prop_map(VS::U16),
        any::<u32>().prop_map(VS::U32),
        any::<u64>().prop_map(VS::U64),
        prop_oneof![any::<u32>(), (-1000i32..1000).prop_map(|x| (x as f32).to_bits()), Just(1e20f32.to_bits()), Just(1e-20f32.to_bits())].prop_map(VS::F32),
        prop_oneof![any::<u64>(), (-1000i64..1000).prop_map(|x| (x as f64).to_bits()), Just(1e300f64.to_bits()), Just(1e-300f64.to_bits())].prop_map(VS::F64),
        crate::util::nasty_string_nul(12).prop_map(VS::Str),
        crate::util::nasty_string(5).prop_map(VS::Str),
        prop_oneof![crate::util::nasty_char(), any::<char>()].prop_map(VS::Char),
        proptest::collection::vec(any::<u8>(), 0..8).prop_map(VS::Bytes),
        any::<bool>().prop_map(VS::Bool),
        (0u8..12).prop_map(VS::Null),
        crate::util::nasty_string(6).prop_map(VS::Json),
        any::<i32>().prop_map(|d| VS::Date(d.rem_euclid(40_000))),
        any::<i64>().prop_map(|t| VS::DateTime(t.rem_euclid(4_000_000_000))),
        any::<i32>().prop_map(VS::TimeDate),
        (any::<i64>(), 0u8..20).prop_map(|(m, s)| VS::Decimal(m, s)),
        (any::<i64>(), 0i8..20).prop_map(|(m, s)| VS::BigDecimal(m, s)),
        (any::<u64>(), any::<u64>()).prop_map(|(a, b)| VS::Uuid(a, b)),
    ]
}

#[derive(Clone, Debug, PartialEq, Eq, Hash, Serialize, Deserialize)]
pub enum E {
    /// a bound value of any supported type (C02)
    V(VS),
    Col(u8),
    TCol(u8),
    /// qualified column: (qualifier index into stmt_spec::QUALS, column index into stmt_spec::QCOLS)
    QCol(u8, u8),
    /// aggregate: 0 COUNT, 1 SUM, 2 MAX, 3 MIN, 4 AVG; distinct only for COUNT
    Agg(u8, Box<E>, bool),
    CountStar,
    /// `*`
    Star,
    /// Postgres enum cast `expr.as_enum("etype")`; MySQL and SQLite render the inner expression as it is
    AsEnum(Box<E>),
    /// a condition group (any / all, negate); at the top level of WHERE / HAVING / ON it is built through `Cond`
    Cond { any: bool, negate: bool, members: Vec<E> },
    /// reference to a select-item alias (stmt_spec::ITEM_ALIASES)
    AliasRef(u8),
    Int(i64),
    Text(String),
    Bool(bool),
    /// TRUE / FALSE as a constant (inlined in both modes)
    ConstBool(bool),
    /// the NULL keyword
    Null,
    Const(i64),
    Not(Box<E>),
    Bin(Box<E>, Op, Box<E>),
    Between { not: bool, x: Box<E>, lo: Box<E>, hi: Box<E> },
    /// LIKE with a LikeExpr (string pattern, optional ESCAPE char)
    LikePat { not: bool, x: Box<E>, pat: String, esc: Option<char> },
    In { not: bool, x: Box<E>, list: Vec<E> },
    InSub { not: bool, x: Box<E> },
    Func(F, Vec<E>),
    Cast(Box<E>, String),
    Case(Vec<(E, E)>, Option<Box<E>>),
    /// tuple comparison `(a, b) op (c, d)`
    TupleCmp(Vec<E>, Op, Vec<E>),
    /// `Expr::current_date()` / `current_time()` / `current_timestamp()`
    Keyword(u8),
    /// `(c1, c2) IN ((v, v), ..)` through `in_tuples` (bound value tuples)
    InTuples(Vec<E>, Vec<(i64, i64)>),
    /// the same with tuples of 2..=5 members (as many as columns; each row is cut / padded to that arity)
    InTuplesN(Vec<E>, Vec<Vec<i64>>),
    Exists,
    ScalarSub,
    /// x op ANY/SOME/ALL (subquery); 0 = ANY, 1 = SOME, 2 = ALL
    Quantified(Box<E>, Op, u8),
    /// Expr::cust("1 + 1") — opaque text
    CustomText,
    /// Expr::cust_with_exprs("$1 + $2" / "? + ?", [a, b])
    CustomTmpl(Box<E>, Box<E>),
}

pub const COLS: [&str; 4] = ["p", "q", "r", "s"];

fn a(s: &str) -> Alias {
    Alias::new(s)
}

/// the bound value every expression-level subquery carries (`WHERE "id" < 5` keeps every fixture row)
pub const SUB_BOUND: i32 = 5;
/// the regconfig given to the Postgres text-search constructors (bound as an unsigned value)
pub const PG_REGCONFIG: u32 = 7;

pub fn subquery() -> SelectStatement {
    Query::select().column(a("p")).from(a("tt")).and_where(Expr::col(a("id")).lt(SUB_BOUND)).to_owned()
}

fn sub_text(d: Dialect, params: bool) -> String {
    let sql = format!("SELECT {} FROM {} WHERE {} < {}", lex::enc_ident(d, "p"), lex::enc_ident(d, "tt"), lex::enc_ident(d, "id"), SUB_BOUND);
    lex::lex(d, &sql)
        .unwrap()
        .iter()
        .map(|t| if params && matches!(t.tok, lex::Tok::Num(_)) { "?".to_string() } else { t.tok.show() })
        .collect::<Vec<_>>()
        .join(" ")
}

/// One binary operation through one of the equivalent public entry points (`k` selects): the generic `binary`, the named
/// method on the expression, or the named method on an `Expr` wrapper.
fn bin_entry(l: SimpleExpr, op: Op, r: &E, d: Dialect, k: u64) -> SimpleExpr {
    // `x IS NULL` / `x IS NOT NULL` shortcuts
    if matches!(r, E::Null) && k % 3 != 0 {
        match (op, k % 3) {
            (Op::Is, 1) => return l.is_null(),
            (Op::Is, _) => return Expr::expr(l).is_null(),
            (Op::IsNot, 1) => return l.is_not_null(),
            (Op::IsNot, _) => return Expr::expr(l).is_not_null(),
            _ => {}
        }
    }
    // `x = col` / `x <> col` shortcuts
    if let (Op::Eq | Op::Ne, E::Col(i), 3) = (op, r, k % 4) {
        let c = a(COLS[*i as usize % 4]);
        return if op == Op::Eq { l.equals(c) } else { l.not_equals(c) };
    }
    // Postgres `ILIKE` / `NOT ILIKE` with a text pattern: the named methods of PgExpr
    if let (Op::PgILike | Op::PgNotILike, E::Text(t)) = (op, r) {
        if k % 3 != 0 {
            return if op == Op::PgILike { PgExpr::ilike(l, t.as_str()) } else { PgExpr::not_ilike(l, t.as_str()) };
        }
    }
    let rb = r.build(d);
    macro_rules! named {
        ($m:ident) => {
            if k % 3 == 1 {
                l.$m(rb)
            } else {
                Expr::expr(l).$m(rb)
            }
        };
    }
    if k % 3 == 0 {
        return l.binary(op.to_binoper(), rb);
    }
    match op {
        Op::And => l.and(rb),
        Op::Or => l.or(rb),
        Op::Is => named!(is),
        Op::IsNot => named!(is_not),
        Op::Eq => named!(eq),
        Op::Ne => named!(ne),
        Op::Lt => named!(lt),
        Op::Gt => named!(gt),
        Op::Le => named!(lte),
        Op::Ge => named!(gte),
        Op::Add => named!(add),
        Op::Sub => named!(sub),
        Op::Mul => named!(mul),
        Op::Div => named!(div),
        Op::Mod => named!(modulo),
        Op::LShift => named!(left_shift),
        Op::RShift => named!(right_shift),
        Op::BitAnd => l.bit_and(rb),
        Op::BitOr => l.bit_or(rb),
        Op::PgMatches => PgExpr::matches(l, rb),
        Op::PgContains => PgExpr::contains(l, rb),
        Op::PgContained => PgExpr::contained(l, rb),
        Op::PgConcat => {
            if k % 2 == 0 {
                PgExpr::concatenate(l, rb)
            } else {
                PgExpr::concat(l, rb)
            }
        }
        Op::PgGetJson => PgExpr::get_json_field(l, rb),
        Op::PgCastJson => PgExpr::cast_json_field(l, rb),
        Op::SqGlob => SqliteExpr::glob(l, rb),
        Op::SqMatch => SqliteExpr::matches(l, rb),
        Op::SqGetJson => SqliteExpr::get_json_field(l, rb),
        Op::SqCastJson => SqliteExpr::cast_json_field(l, rb),
        _ => l.binary(op.to_binoper(), rb),
    }
}

/// rows of an `InTuplesN` cut / padded to the arity (2..=5) of its column tuple
pub fn rows_n(arity: usize, rows: &[Vec<i64>]) -> Vec<Vec<i64>> {
    let n = arity.clamp(2, 5);
    rows.iter().map(|r| (0..n).map(|k| r.get(k).copied().unwrap_or(k as i64)).collect()).collect()
}

impl E {
    /// selector among equivalent API entry points: a function of the node, so the case stays the spec alone
    fn entry(&self) -> u64 {
        crate::runner::fingerprint(self) >> 7
    }

    /// Build through the public expression API.
    pub fn build(&self, d: Dialect) -> SimpleExpr {
        match self {
            E::Col(i) => Expr::col(a(COLS[*i as usize % 4])).into(),
            E::TCol(i) => Expr::col((a("tt"), a(COLS[*i as usize % 4]))).into(),
            E::QCol(t, c) => Expr::col((a(crate::stmt_spec::QUALS[*t as usize % 8]), a(crate::stmt_spec::QCOLS[*c as usize % 5]))).into(),
            E::Agg(f, e, distinct) => {
                let x = e.build(d);
                let wrapper = self.entry() % 2 == 1;
                match (f % 5, distinct) {
                    (0, true) if wrapper => Expr::expr(x).count_distinct(),
                    (0, false) if wrapper => Expr::expr(x).count(),
                    (1, _) if wrapper => Expr::expr(x).sum(),
                    (2, _) if wrapper => Expr::expr(x).max(),
                    (3, _) if wrapper => Expr::expr(x).min(),
                    (0, true) => Func::count_distinct(x).into(),
                    (0, false) => Func::count(x).into(),
                    (1, _) => Func::sum(x).into(),
                    (2, _) => Func::max(x).into(),
                    (3, _) => Func::min(x).into(),
                    _ => Func::avg(x).into(),
                }
            }
            E::CountStar => Func::count(if self.entry() % 2 == 0 { Expr::col(Asterisk) } else { Expr::asterisk() }).into(),
            E::Star => Expr::asterisk().into(),
            E::AsEnum(e) => e.build(d).as_enum(a("etype")),
            E::Cond { any, negate, members } => {
                // inside an expression the same meaning is spelled with and / or / not
                let mut it = members.iter().map(|m| m.build(d));
                let folded = match it.next() {
                    None => SimpleExpr::Constant(Value::Bool(Some(!*any))),
                    Some(first) => it.fold(first, |acc, m| if *any { acc.or(m) } else { acc.and(m) }),
                };
                if *negate {
                    folded.not()
                } else {
                    folded
                }
            }
            E::AliasRef(i) => Expr::col(a(crate::stmt_spec::ITEM_ALIASES[*i as usize % 4])).into(),
            E::V(v) => SimpleExpr::Value(v.value()),
            E::Int(i) => match self.entry() % 3 {
                0 => Expr::val(*i).into(),
                1 => Expr::value(Value::BigInt(Some(*i))),
                _ => SimpleExpr::from(*i),
            },
            E::Text(s) => Expr::val(s.as_str()).into(),
            E::Bool(b) => Expr::val(*b).into(),
            E::Null => SimpleExpr::Keyword(Keyword::Null),
            E::ConstBool(b) => SimpleExpr::Constant(Value::Bool(Some(*b))),
            E::Const(i) => SimpleExpr::Constant(Value::BigInt(Some(*i))),
            E::Not(e) => match self.entry() % 3 {
                0 => e.build(d).not(),
                1 => Expr::expr(e.build(d)).not(),
                _ => e.build(d).unary(UnOper::Not),
            },
            E::Bin(l, op, r) => bin_entry(l.build(d), *op, r, d, self.entry()),
            E::Between { not, x, lo, hi } => match (self.entry() % 2, *not) {
                (0, true) => x.build(d).not_between(lo.build(d), hi.build(d)),
                (0, false) => x.build(d).between(lo.build(d), hi.build(d)),
                (_, true) => Expr::expr(x.build(d)).not_between(lo.build(d), hi.build(d)),
                (_, false) => Expr::expr(x.build(d)).between(lo.build(d), hi.build(d)),
            },
            E::LikePat { not, x, pat, esc } => {
                let mut l = LikeExpr::new(pat.clone());
                if let Some(c) = esc {
                    l = l.escape(*c);
                }
                // on the expression itself (inherent methods of SimpleExpr) or through the Expr wrapper (ExprTrait)
                match (*not, self.entry() % 2) {
                    (true, 0) => x.build(d).not_like(l),
                    (false, 0) => x.build(d).like(l),
                    (true, _) => Expr::expr(x.build(d)).not_like(l),
                    (false, _) => Expr::expr(x.build(d)).like(l),
                }
            }
            E::In { not, x, list } => {
                let items: Vec<SimpleExpr> = list.iter().map(|e| e.build(d)).collect();
                match (self.entry() % 2, *not) {
                    (0, true) => x.build(d).is_not_in(items),
                    (0, false) => x.build(d).is_in(items),
                    (_, true) => Expr::expr(x.build(d)).is_not_in(items),
                    (_, false) => Expr::expr(x.build(d)).is_in(items),
                }
            }
            E::InSub { not, x } => match (self.entry() % 2, *not) {
                (0, true) => x.build(d).not_in_subquery(subquery()),
                (0, false) => x.build(d).in_subquery(subquery()),
                (_, true) => Expr::expr(x.build(d)).not_in_subquery(subquery()),
                (_, false) => Expr::expr(x.build(d)).in_subquery(subquery()),
            },
            E::Func(f, args) => {
                let mut it = args.iter().map(|e| e.build(d));
                let fc = match f {
                    F::Abs => Func::abs(it.next().unwrap()),
                    F::Coalesce => Func::coalesce(it.collect::<Vec<_>>()),
                    F::IfNull => {
                        let x = it.next().unwrap();
                        if self.entry() % 2 == 1 {
                            return Expr::expr(x).if_null(it.next().unwrap());
                        }
                        Func::if_null(x, it.next().unwrap())
                    }
                    F::Greatest => Func::greatest(it.collect::<Vec<_>>()),
                    F::Least => Func::least(it.collect::<Vec<_>>()),
                    F::CharLength => Func::char_length(it.next().unwrap()),
                    F::Lower => Func::lower(it.next().unwrap()),
                    F::Upper => Func::upper(it.next().unwrap()),
                    F::Round => Func::round(it.next().unwrap()),
                    // the argument list in one call or argument by argument
                    F::Custom => {
                        if self.entry() % 2 == 0 {
                            Func::cust(a("MYFUNC")).args(it.collect::<Vec<_>>())
                        } else {
                            it.fold(Func::cust(a("MYFUNC")), |f, x| f.arg(x))
                        }
                    }
                    F::Md5 => Func::md5(it.next().unwrap()),
                    F::Random => Func::random(),
                    F::RoundPrec => {
                        let x = it.next().unwrap();
                        Func::round_with_precision(x, it.next().unwrap())
                    }
                    F::BitAndAgg => Func::bit_and(it.next().unwrap()),
                    F::BitOrAgg => Func::bit_or(it.next().unwrap()),
                    F::PgToTsquery => PgFunc::to_tsquery(it.next().unwrap(), None),
                    F::PgToTsqueryCfg => PgFunc::to_tsquery(it.next().unwrap(), Some(PG_REGCONFIG)),
                    F::PgToTsvectorCfg => PgFunc::to_tsvector(it.next().unwrap(), Some(PG_REGCONFIG)),
                    F::PgTsRank => {
                        let x = it.next().unwrap();
                        PgFunc::ts_rank(x, it.next().unwrap())
                    }
                    F::PgStartsWith => {
                        let x = it.next().unwrap();
                        PgFunc::starts_with(x, it.next().unwrap())
                    }
                    F::PgPlaintoTsquery => PgFunc::plainto_tsquery(it.next().unwrap(), None),
                    F::PgPlaintoTsqueryCfg => PgFunc::plainto_tsquery(it.next().unwrap(), Some(PG_REGCONFIG)),
                    F::PgPhrasetoTsquery => PgFunc::phraseto_tsquery(it.next().unwrap(), None),
                    F::PgPhrasetoTsqueryCfg => PgFunc::phraseto_tsquery(it.next().unwrap(), Some(PG_REGCONFIG)),
                    F::PgWebsearchToTsquery => PgFunc::websearch_to_tsquery(it.next().unwrap(), None),
                    F::PgWebsearchToTsqueryCfg => PgFunc::websearch_to_tsquery(it.next().unwrap(), Some(PG_REGCONFIG)),
                    F::PgTsRankCd => {
                        let x = it.next().unwrap();
                        PgFunc::ts_rank_cd(x, it.next().unwrap())
                    }
                    F::PgGenRandomUuid => PgFunc::gen_random_uuid(),
                    F::PgJsonAgg => PgFunc::json_agg(it.next().unwrap()),
                    F::PgArrayAgg => PgFunc::array_agg(it.next().unwrap()),
                    F::PgArrayAggDistinct => PgFunc::array_agg_distinct(it.next().unwrap()),
                    F::PgDateTrunc => PgFunc::date_trunc(PgDateTruncUnit::Day, it.next().unwrap()),
                    F::PgJsonBuildObject => {
                        let k = it.next().unwrap();
                        PgFunc::json_build_object(vec![(k, it.next().unwrap())])
                    }
                };
                fc.into()
            }
            E::Cast(e, ty) => match self.entry() % 3 {
                0 => e.build(d).cast_as(a(ty)),
                1 => Expr::expr(e.build(d)).cast_as(a(ty)),
                _ => Func::cast_as(e.build(d), a(ty)).into(),
            },
            E::Case(whens, els) => {
                let mut c = CaseStatement::new();
                for (i, (w, r)) in whens.iter().enumerate() {
                    c = if i == 0 && self.entry() % 2 == 1 { Expr::case(w.build(d), r.build(d)) } else { c.case(w.build(d), r.build(d)) };
                }
                if let Some(e) = els {
                    c = c.finally(e.build(d));
                }
                c.into()
            }
            E::TupleCmp(l, op, r) => {
                let lt = Expr::tuple(l.iter().map(|e| e.build(d)).collect::<Vec<_>>());
                let rt: SimpleExpr = Expr::tuple(r.iter().map(|e| e.build(d)).collect::<Vec<_>>()).into();
                lt.binary(op.to_binoper(), rt)
            }
            E::InTuples(cols, rows) => {
                let t = Expr::tuple(cols.iter().map(|e| e.build(d)).collect::<Vec<_>>());
                match self.entry() % 3 {
                    0 => t.in_tuples(rows.clone()),
                    1 => SimpleExpr::from(t).in_tuples(rows.clone()),
                    // the general IN with row constructors as list elements (one element included)
                    _ => t.is_in(rows.iter().map(|(x, y)| SimpleExpr::from(Expr::tuple([Expr::val(*x).into(), Expr::val(*y).into()])))),
                }
            }
            E::InTuplesN(cols, rows) => {
                let t = Expr::tuple(cols.iter().map(|e| e.build(d)).collect::<Vec<_>>());
                let rows = rows_n(cols.len(), rows);
                let entry = self.entry();
                fn call<V: IntoValueTuple>(t: Expr, simple: bool, rows: Vec<V>) -> SimpleExpr {
                    if simple {
                        SimpleExpr::from(t).in_tuples(rows)
                    } else {
                        t.in_tuples(rows)
                    }
                }
                let simple = entry % 2 == 1;
                match (entry / 2) % 3 {
                    // Rust tuples of the arity
                    0 => match cols.len() {
                        2 => call(t, simple, rows.iter().map(|r| (r[0], r[1])).collect()),
                        3 => call(t, simple, rows.iter().map(|r| (r[0], r[1], r[2])).collect()),
                        4 => call(t, simple, rows.iter().map(|r| (r[0], r[1], r[2], r[3])).collect()),
                        _ => call(t, simple, rows.iter().map(|r| (r[0], r[1], r[2], r[3], r[4])).collect()),
                    },
                    // ValueTuple values
                    1 => call(
                        t,
                        simple,
                        rows.iter()
                            .map(|r| {
                                let v = |k: usize| Value::from(r[k]);
                                match r.len() {
                                    2 => ValueTuple::Two(v(0), v(1)),
                                    3 => ValueTuple::Three(v(0), v(1), v(2)),
                                    _ => ValueTuple::Many(r.iter().map(|x| Value::from(*x)).collect()),
                                }
                            })
                            .collect(),
                    ),
                    // the general IN with row constructors as list elements
                    _ => t.is_in(rows.iter().map(|r| SimpleExpr::from(Expr::tuple(r.iter().map(|x| SimpleExpr::from(Expr::val(*x))).collect::<Vec<_>>())))),
                }
            }
            E::Keyword(k) => match k % 4 {
                0 => Expr::current_date().into(),
                1 => Expr::current_time().into(),
                2 => Expr::current_timestamp().into(),
                // a keyword the library has no constructor for (written without quotes)
                _ => Expr::custom_keyword(a("LOCALTIMESTAMP")).into(),
            },
            E::Exists => Expr::exists(subquery()),
            E::ScalarSub => SimpleExpr::SubQuery(None, Box::new(subquery().into_sub_query_statement())),
            E::Quantified(x, op, q) => {
                let s = match q % 3 {
                    0 => Expr::any(subquery()),
                    1 => Expr::some(subquery()),
                    _ => Expr::all(subquery()),
                };
                x.build(d).binary(op.to_binoper(), s)
            }
            E::CustomText => Expr::cust("1 + 1"),
            E::CustomTmpl(x, y) => {
                let t = if d == Dialect::Postgres { "$1 + $2" } else { "? + ?" };
                Expr::cust_with_exprs(t, [x.build(d), y.build(d)])
            }
        }
    }

    /// The neutral tree the rendering must re-parse to under the dialect's grammar.
    pub fn expect(&self, d: Dialect, params: bool) -> PT {
        let b = |e: &E| Box::new(e.expect(d, params));
        match self {
            E::Col(i) => PT::Id(vec![COLS[*i as usize % 4].into()]),
            E::TCol(i) => PT::Id(vec!["tt".into(), COLS[*i as usize % 4].into()]),
            E::QCol(t, c) => PT::Id(vec![crate::stmt_spec::QUALS[*t as usize % 8].into(), crate::stmt_spec::QCOLS[*c as usize % 5].into()]),
            E::Agg(f, e, distinct) => PT::Func(["COUNT", "SUM", "MAX", "MIN", "AVG"][(*f % 5) as usize].into(), vec![e.expect(d, params)], vec![*distinct && f % 5 == 0]),
            E::CountStar => PT::Func("COUNT".into(), vec![PT::Star(vec![])], vec![false]),
            E::Star => PT::Star(vec![]),
            E::AsEnum(e) => {
                if d == Dialect::Postgres {
                    PT::Cast(b(e), "id<etype>".into())
                } else {
                    e.expect(d, params)
                }
            }
            E::Cond { any, negate, members } => {
                let mut it = members.iter().map(|m| m.expect(d, params));
                let folded = match it.next() {
                    None => PT::Kw(if *any { "FALSE" } else { "TRUE" }.into()),
                    Some(first) => it.fold(first, |acc, m| PT::Bin(if *any { "OR" } else { "AND" }.into(), Box::new(acc), Box::new(m))),
                };
                if *negate {
                    PT::Un("NOT".into(), Box::new(folded))
                } else {
                    folded
                }
            }
            E::AliasRef(i) => PT::Id(vec![crate::stmt_spec::ITEM_ALIASES[*i as usize % 4].into()]),
            E::V(_) => PT::Param(None),
            E::Int(_) | E::Text(_) | E::Bool(_) if params => PT::Param(None),
            E::Int(i) | E::Const(i) => PT::Num(i.to_string()),
            E::Text(s) => PT::Str(s.clone()),
            E::Bool(x) | E::ConstBool(x) => PT::Kw(if *x { "TRUE" } else { "FALSE" }.into()),
            E::Null => PT::Kw("NULL".into()),
            E::Not(e) => PT::Un("NOT".into(), b(e)),
            E::Bin(l, op, r) => {
                if op.is_like_family() {
                    PT::Like(op.text().into(), b(l), b(r), None)
                } else {
                    let t = match (op, d) {
                        // the SQLite parser canonicalises == to =
                        (Op::Custom(i), Dialect::Sqlite) if CUSTOM_OPS[*i as usize].0 == "==" => "=".to_string(),
                        _ => op.text().to_string(),
                    };
                    PT::Bin(t, b(l), b(r))
                }
            }
            E::Between { not, x, lo, hi } => PT::Between(*not, b(x), b(lo), b(hi)),
            E::LikePat { not, x, pat, esc } => PT::Like(
                if *not { "NOT LIKE" } else { "LIKE" }.into(),
                b(x),
                Box::new(if params { PT::Param(None) } else { PT::Str(pat.clone()) }),
                esc.map(|c| Box::new(PT::Str(c.to_string()))),
            ),
            E::In { not, x, list } => {
                if list.is_empty() {
                    // documented rewrite: IN () -> 1 = 2, NOT IN () -> 1 = 1
                    if params {
                        PT::Bin("=".into(), Box::new(PT::Param(None)), Box::new(PT::Param(None)))
                    } else {
                        PT::Bin("=".into(), Box::new(PT::Num("1".into())), Box::new(PT::Num(if *not { "1" } else { "2" }.into())))
                    }
                } else {
                    PT::In(*not, b(x), list.iter().map(|e| e.expect(d, params)).collect())
                }
            }
            E::InSub { not, x } => PT::InSub(*not, b(x), Box::new(PT::Sub(None, sub_text(d, params)))),
            E::Func(f, args) => {
                let name = match (f, d) {
                    (F::Abs, _) => "ABS",
                    (F::Coalesce, _) => "COALESCE",
                    (F::IfNull, Dialect::Postgres) => "COALESCE",
                    (F::IfNull, _) => "IFNULL",
                    (F::Greatest, Dialect::Sqlite) => "MAX",
                    (F::Greatest, _) => "GREATEST",
                    (F::Least, Dialect::Sqlite) => "MIN",
                    (F::Least, _) => "LEAST",
                    (F::CharLength, Dialect::Sqlite) => "LENGTH",
                    (F::CharLength, _) => "CHAR_LENGTH",
                    (F::Lower, _) => "LOWER",
                    (F::Upper, _) => "UPPER",
                    (F::Round, _) => "ROUND",
                    (F::Custom, _) => "MYFUNC",
                    (F::Md5, _) => "MD5",
                    (F::Random, Dialect::Mysql) => "RAND",
                    (F::Random, _) => "RANDOM",
                    (F::RoundPrec, _) => "ROUND",
                    (F::BitAndAgg, _) => "BIT_AND",
                    (F::BitOrAgg, _) => "BIT_OR",
                    (F::PgToTsquery | F::PgToTsqueryCfg, _) => "TO_TSQUERY",
                    (F::PgToTsvectorCfg, _) => "TO_TSVECTOR",
                    (F::PgTsRank, _) => "TS_RANK",
                    (F::PgPlaintoTsquery | F::PgPlaintoTsqueryCfg, _) => "PLAINTO_TSQUERY",
                    (F::PgPhrasetoTsquery | F::PgPhrasetoTsqueryCfg, _) => "PHRASETO_TSQUERY",
                    (F::PgWebsearchToTsquery | F::PgWebsearchToTsqueryCfg, _) => "WEBSEARCH_TO_TSQUERY",
                    (F::PgTsRankCd, _) => "TS_RANK_CD",
                    (F::PgStartsWith, _) => "STARTS_WITH",
                    (F::PgGenRandomUuid, _) => "GEN_RANDOM_UUID",
                    (F::PgJsonAgg, _) => "JSON_AGG",
                    (F::PgArrayAgg | F::PgArrayAggDistinct, _) => "ARRAY_AGG",
                    (F::PgDateTrunc, _) => "DATE_TRUNC",
                    (F::PgJsonBuildObject, _) => "JSON_BUILD_OBJECT",
                };
                let mut items: Vec<PT> = args.iter().map(|e| e.expect(d, params)).collect();
                // arguments the function constructors add themselves (bound values)
                match f {
                    F::PgToTsqueryCfg | F::PgToTsvectorCfg | F::PgPlaintoTsqueryCfg | F::PgPhrasetoTsqueryCfg | F::PgWebsearchToTsqueryCfg => items.insert(0, if params { PT::Param(None) } else { PT::Num(PG_REGCONFIG.to_string()) }),
                    F::PgDateTrunc => items.insert(0, if params { PT::Param(None) } else { PT::Str("day".into()) }),
                    _ => {}
                }
                let mut distinct = vec![false; items.len()];
                if *f == F::PgArrayAggDistinct {
                    distinct[0] = true;
                }
                PT::Func(name.into(), items, distinct)
            }
            E::Cast(e, ty) => PT::Cast(b(e), ty.clone()),
            E::Case(whens, els) => PT::Case(whens.iter().map(|(w, r)| (w.expect(d, params), r.expect(d, params))).collect(), els.as_ref().map(|e| b(e))),
            E::TupleCmp(l, op, r) => PT::Bin(
                op.text().into(),
                Box::new(PT::Tuple(l.iter().map(|e| e.expect(d, params)).collect())),
                Box::new(PT::Tuple(r.iter().map(|e| e.expect(d, params)).collect())),
            ),
            E::InTuples(cols, rows) => {
                let cell = |v: i64| if params { PT::Param(None) } else { PT::Num(v.to_string()) };
                PT::In(false, Box::new(PT::Tuple(cols.iter().map(|e| e.expect(d, params)).collect())), rows.iter().map(|(x, y)| PT::Tuple(vec![cell(*x), cell(*y)])).collect())
            }
            E::InTuplesN(cols, rows) => {
                let cell = |v: i64| if params { PT::Param(None) } else { PT::Num(v.to_string()) };
                PT::In(
                    false,
                    Box::new(PT::Tuple(cols.iter().map(|e| e.expect(d, params)).collect())),
                    rows_n(cols.len(), rows).iter().map(|r| PT::Tuple(r.iter().map(|x| cell(*x)).collect())).collect(),
                )
            }
            E::Keyword(k) => PT::Kw(["CURRENT_DATE", "CURRENT_TIME", "CURRENT_TIMESTAMP", "LOCALTIMESTAMP"][(*k % 4) as usize].into()),
            E::Exists => PT::Sub(Some("EXISTS".into()), sub_text(d, params)),
            E::ScalarSub => PT::Sub(None, sub_text(d, params)),
            E::Quantified(x, op, q) => {
                PT::Bin(op.text().into(), b(x), Box::new(PT::Sub(Some(["ANY", "SOME", "ALL"][(*q % 3) as usize].into()), sub_text(d, params))))
            }
            E::CustomText => PT::Bin("+".into(), Box::new(PT::Num("1".into())), Box::new(PT::Num("1".into()))),
            E::CustomTmpl(x, y) => PT::Bin("+".into(), b(x), b(y)),
        }
    }

    /// Independent, fully parenthesised SQLite rendering (None if the spec uses a construct that the
    /// SQLite engine cannot evaluate in a plain SELECT).
    pub fn ref_sqlite(&self) -> Option<String> {
        let q = |s: &str| lex::enc_ident(Dialect::Sqlite, s);
        Some(match self {
            E::Col(i) => q(COLS[*i as usize % 4]),
            E::TCol(i) => format!("{}.{}", q("tt"), q(COLS[*i as usize % 4])),
            E::QCol(t, c) => format!("{}.{}", q(crate::stmt_spec::QUALS[*t as usize % 8]), q(crate::stmt_spec::QCOLS[*c as usize % 5])),
            E::Agg(f, e, distinct) => format!("{}({}{})", ["count", "sum", "max", "min", "avg"][(*f % 5) as usize], if *distinct && f % 5 == 0 { "DISTINCT " } else { "" }, e.ref_sqlite()?),
            E::CountStar => "count(*)".into(),
            E::Star => "*".into(),
            E::AsEnum(e) => e.ref_sqlite()?,
            E::Cond { any, negate, members } => {
                let parts: Option<Vec<String>> = members.iter().map(|m| m.ref_sqlite().map(|x| format!("({x})"))).collect();
                let parts = parts?;
                let body = if parts.is_empty() { if *any { "(1 = 2)".to_string() } else { "(1 = 1)".to_string() } } else { format!("({})", parts.join(if *any { " OR " } else { " AND " })) };
                if *negate {
                    format!("(NOT {body})")
                } else {
                    body
                }
            }
            E::AliasRef(i) => q(crate::stmt_spec::ITEM_ALIASES[*i as usize % 4]),
            // a float value is written as a real literal (Rust's Debug form: always with a fraction or an exponent)
            E::V(VS::F64(b)) if f64::from_bits(*b).is_finite() => format!("({:?})", f64::from_bits(*b)),
            E::V(VS::F32(b)) if f32::from_bits(*b).is_finite() => format!("({:?})", f32::from_bits(*b) as f64),
            E::V(VS::Bytes(b)) => lex::enc_bytes(Dialect::Sqlite, b),
            E::V(VS::Str(t)) => lex::enc_str(Dialect::Sqlite, t),
            E::V(_) => return None,
            E::Int(i) | E::Const(i) => format!("({i})"),
            E::Text(s) => lex::enc_str(Dialect::Sqlite, s),
            E::Bool(b) | E::ConstBool(b) => if *b { "TRUE" } else { "FALSE" }.into(),
            E::Null => "NULL".into(),
            E::Not(e) => format!("(NOT {})", e.ref_sqlite()?),
            E::Bin(l, op, r) => {
                let t = match op {
                    Op::Custom(i) if CUSTOM_OPS[*i as usize].1 == Dialect::Sqlite => CUSTOM_OPS[*i as usize].0,
                    Op::Custom(_) => return None,
                    Op::PgILike | Op::PgNotILike | Op::PgMatches | Op::PgContains | Op::PgContained | Op::PgConcat | Op::PgOverlap
                    | Op::PgSimilarity | Op::PgWordSim | Op::PgStrictWordSim | Op::PgSimDist | Op::PgWordSimDist | Op::PgStrictWordSimDist
                    | Op::PgGetJson | Op::PgCastJson | Op::PgRegex | Op::PgRegexI => return None,
                    Op::SqMatch => return None, // MATCH needs an application-defined function
                    o => o.text(),
                };
                format!("({} {t} {})", l.ref_sqlite()?, r.ref_sqlite()?)
            }
            E::Between { not, x, lo, hi } => {
                format!("({} {}BETWEEN ({}) AND ({}))", x.ref_sqlite()?, if *not { "NOT " } else { "" }, lo.ref_sqlite()?, hi.ref_sqlite()?)
            }
            E::LikePat { not, x, pat, esc } => format!(
                "({} {}LIKE {}{})",
                x.ref_sqlite()?,
                if *not { "NOT " } else { "" },
                lex::enc_str(Dialect::Sqlite, pat),
                esc.map(|c| format!(" ESCAPE {}", lex::enc_str(Dialect::Sqlite, &c.to_string()))).unwrap_or_default()
            ),
            E::In { not, x, list } => {
                if list.is_empty() {
                    if *not { "(1 = 1)" } else { "(1 = 2)" }.into()
                } else {
                    let items: Option<Vec<String>> = list.iter().map(|e| e.ref_sqlite()).collect();
                    format!("({} {}IN ({}))", x.ref_sqlite()?, if *not { "NOT " } else { "" }, items?.join(", "))
                }
            }
            E::InSub { not, x } => format!("({} {}IN (SELECT \"p\" FROM \"tt\" WHERE \"id\" < 5))", x.ref_sqlite()?, if *not { "NOT " } else { "" }),
            E::Func(f, args) => {
                let name = match f {
                    F::Abs => "abs",
                    F::Coalesce => "coalesce",
                    F::IfNull => "ifnull",
                    F::Greatest => "max",
                    F::Least => "min",
                    F::CharLength => "length",
                    F::Lower => "lower",
                    F::Upper => "upper",
                    F::Round => "round",
                    F::RoundPrec => "round",
                    _ => return None,
                };
                let items: Option<Vec<String>> = args.iter().map(|e| e.ref_sqlite()).collect();
                format!("{name}({})", items?.join(", "))
            }
            E::Cast(e, ty) => format!("CAST({} AS {ty})", e.ref_sqlite()?),
            E::Case(whens, els) => {
                let mut s = String::from("(CASE");
                for (w, r) in whens {
                    s.push_str(&format!(" WHEN ({}) THEN ({})", w.ref_sqlite()?, r.ref_sqlite()?));
                }
                if let Some(e) = els {
                    s.push_str(&format!(" ELSE ({})", e.ref_sqlite()?));
                }
                s.push_str(" END)");
                s
            }
            E::TupleCmp(l, op, r) => {
                let li: Option<Vec<String>> = l.iter().map(|e| e.ref_sqlite()).collect();
                let ri: Option<Vec<String>> = r.iter().map(|e| e.ref_sqlite()).collect();
                format!("(({}) {} ({}))", li?.join(", "), op.text(), ri?.join(", "))
            }
            E::InTuples(..) | E::InTuplesN(..) | E::Keyword(_) => return None,
            E::Exists => "(EXISTS (SELECT \"p\" FROM \"tt\" WHERE \"id\" < 5))".into(),
            E::ScalarSub => "(SELECT \"p\" FROM \"tt\" WHERE \"id\" < 5)".into(),
            E::Quantified(..) => return None,
            E::CustomText => "(1 + 1)".into(),
            E::CustomTmpl(x, y) => format!("({} + {})", x.ref_sqlite()?, y.ref_sqlite()?),
        })
    }

    /// rebuild this node with children replaced by `f(index, child)`
    pub fn map_children(&self, f: &mut dyn FnMut(usize, &E) -> E) -> E {
        let mut i = 0usize;
        let mut g = |c: &E| {
            let r = f(i, c);
            i += 1;
            r
        };
        match self {
            E::Not(e) => E::Not(Box::new(g(e))),
            E::Cast(e, t) => E::Cast(Box::new(g(e)), t.clone()),
            E::Agg(f, e, dd) => E::Agg(*f, Box::new(g(e)), *dd),
            E::AsEnum(e) => E::AsEnum(Box::new(g(e))),
            E::Cond { any, negate, members } => E::Cond { any: *any, negate: *negate, members: members.iter().map(|m| g(m)).collect() },
            E::Bin(l, op, r) => {
                let l2 = g(l);
                let r2 = g(r);
                E::Bin(Box::new(l2), *op, Box::new(r2))
            }
            E::Between { not, x, lo, hi } => {
                let (x2, lo2, hi2) = (g(x), g(lo), g(hi));
                E::Between { not: *not, x: Box::new(x2), lo: Box::new(lo2), hi: Box::new(hi2) }
            }
            E::LikePat { not, x, pat, esc } => E::LikePat { not: *not, x: Box::new(g(x)), pat: pat.clone(), esc: *esc },
            E::InSub { not, x } => E::InSub { not: *not, x: Box::new(g(x)) },
            E::In { not, x, list } => {
                let x2 = g(x);
                E::In { not: *not, x: Box::new(x2), list: list.iter().map(|e| g(e)).collect() }
            }
            E::Func(fk, a) => E::Func(*fk, a.iter().map(|e| g(e)).collect()),
            E::Case(w, e) => {
                let w2 = w.iter().map(|(a, b)| {
                    let a2 = g(a);
                    let b2 = g(b);
                    (a2, b2)
                }).collect();
                E::Case(w2, e.as_ref().map(|b| Box::new(g(b))))
            }
            E::TupleCmp(l, op, r) => {
                let l2 = l.iter().map(|e| g(e)).collect();
                let r2 = r.iter().map(|e| g(e)).collect();
                E::TupleCmp(l2, *op, r2)
            }
            E::Quantified(x, op, q) => E::Quantified(Box::new(g(x)), *op, *q),
            E::InTuples(cols, rows) => E::InTuples(cols.iter().map(|e| g(e)).collect(), rows.clone()),
            E::InTuplesN(cols, rows) => E::InTuplesN(cols.iter().map(|e| g(e)).collect(), rows.clone()),
            E::CustomTmpl(x, y) => {
                let x2 = g(x);
                let y2 = g(y);
                E::CustomTmpl(Box::new(x2), Box::new(y2))
            }
            other => other.clone(),
        }
    }

    pub fn depth(&self) -> usize {
        1 + self.children().iter().map(|c| c.depth()).max().unwrap_or(0)
    }

    pub fn children(&self) -> Vec<&E> {
        match self {
            E::Not(e) | E::Cast(e, _) | E::Agg(_, e, _) | E::AsEnum(e) => vec![e],
            E::Cond { members, .. } => members.iter().collect(),
            E::Bin(l, _, r) => vec![l, r],
            E::Between { x, lo, hi, .. } => vec![x, lo, hi],
            E::LikePat { x, .. } | E::InSub { x, .. } => vec![x],
            E::In { x, list, .. } => std::iter::once(&**x).chain(list.iter()).collect(),
            E::Func(_, a) => a.iter().collect(),
            E::Case(w, e) => w.iter().flat_map(|(a, b)| [a, b]).chain(e.iter().map(|b| &**b)).collect(),
            E::TupleCmp(l, _, r) => l.iter().chain(r.iter()).collect(),
            E::InTuples(cols, _) | E::InTuplesN(cols, _) => cols.iter().collect(),
            E::Quantified(x, _, _) => vec![x],
            E::CustomTmpl(x, y) => vec![x, y],
            _ => vec![],
        }
    }

    /// is this node an operator node (for the "operator under operator" non-triviality rule)
    pub fn is_operator(&self) -> bool {
        matches!(self, E::Not(_) | E::Bin(..) | E::Between { .. } | E::LikePat { .. } | E::In { .. } | E::InSub { .. } | E::TupleCmp(..) | E::InTuples(..) | E::InTuplesN(..) | E::Quantified(..) | E::AsEnum(_))
    }

    pub fn kind(&self) -> String {
        match self {
            E::Not(_) => "NOT".into(),
            E::Bin(_, op, _) => op.text().into(),
            E::Between { not, .. } => if *not { "NOT BETWEEN" } else { "BETWEEN" }.into(),
            E::LikePat { esc, .. } => if esc.is_some() { "LIKE-ESCAPE" } else { "LIKE-PAT" }.into(),
            E::In { not, .. } => if *not { "NOT IN" } else { "IN" }.into(),
            E::InSub { .. } => "IN-SUB".into(),
            E::Func(..) | E::Agg(..) | E::CountStar => "func".into(),
            E::Cast(..) => "CAST".into(),
            E::AsEnum(..) => "AS-ENUM".into(),
            E::Cond { .. } => "cond-group".into(),
            E::Case(..) => "CASE".into(),
            E::TupleCmp(..) => "tuple-cmp".into(),
            E::InTuples(..) => "IN-TUPLES".into(),
            E::InTuplesN(c, _) => format!("IN-TUPLES/{}", c.len().clamp(2, 5)),
            E::Quantified(..) => "quantified".into(),
            E::CustomTmpl(..) | E::CustomText => "custom".into(),
            E::Exists | E::ScalarSub => "subquery".into(),
            _ => "atom".into(),
        }
    }

    /// (outer kind, inner kind, operand position) for every operator-under-operator edge
    pub fn nesting_edges(&self, out: &mut Vec<(String, String, usize)>) {
        for (i, c) in self.children().iter().enumerate() {
            if self.is_operator() && c.is_operator() {
                out.push((self.kind(), c.kind(), i));
            }
            c.nesting_edges(out);
        }
    }
}

// --------------------------------------------------------------------------------- generators

/// Right operands that IS / IS NOT accept on MySQL and Postgres.
fn is_rhs() -> impl Strategy<Value = E> {
    prop_oneof![Just(E::Null), Just(E::ConstBool(true)), Just(E::ConstBool(false))]
}

pub fn atom() -> impl Strategy<Value = E> {
    prop_oneof![
        6 => (0u8..4).prop_map(E::Col),
        1 => (0u8..4).prop_map(E::TCol),
        5 => (-2i64..6).prop_map(E::Int),
        1 => prop_oneof![
            Just("a".to_string()),
            Just("ab".to_string()),
            Just("%a%".to_string()),
            Just("1".to_string()),
            Just("it's".to_string()),
            Just("a\\b".to_string()),
            Just("\u{1a}\n".to_string()),
            Just("é😀".to_string())
        ]
        .prop_map(E::Text),
        1 => any::<bool>().prop_map(E::Bool),
        1 => Just(E::Null),
        1 => (0i64..3).prop_map(E::Const),
    ]
}

/// Expression strategy for a dialect. `engine` restricts to constructs the SQLite engine can evaluate.
pub fn expr(d: Dialect, depth: u32, engine: bool) -> BoxedStrategy<E> {
    let ops = ops_for(d);
    let leaf = atom().boxed();
    leaf.prop_recursive(depth, 48, 4, move |inner| {
        let ops = ops.clone();
        let bin = {
            let ops = ops.clone();
            (inner.clone(), any::<u16>(), inner.clone(), is_rhs()).prop_map(move |(l, oi, r, isr)| {
                let op = ops[crate::runner::pick_idx(oi, ops.len())];
                let r = if matches!(op, Op::Is | Op::IsNot) && d != Dialect::Sqlite { isr } else { r };
                E::Bin(Box::new(l), op, Box::new(r))
            })
        };
        let mut choices: Vec<(u32, BoxedStrategy<E>)> = vec![
            (10, bin.boxed()),
            (2, inner.clone().prop_map(|e| E::Not(Box::new(e))).boxed()),
            (
                3,
                (any::<bool>(), inner.clone(), inner.clone(), inner.clone())
                    .prop_map(|(not, x, lo, hi)| E::Between { not, x: Box::new(x), lo: Box::new(lo), hi: Box::new(hi) })
                    .boxed(),
            ),
            (
                2,
                (any::<bool>(), inner.clone(), prop_oneof![Just("a%".to_string()), Just("%|_%".to_string())], proptest::option::of(proptest::sample::select(vec!['|', '\\', '!'])))
                    .prop_map(|(not, x, pat, esc)| E::LikePat { not, x: Box::new(x), pat, esc })
                    .boxed(),
            ),
            (
                2,
                (any::<bool>(), inner.clone(), proptest::collection::vec(inner.clone(), 0..3))
                    .prop_map(|(not, x, list)| E::In { not, x: Box::new(x), list })
                    .boxed(),
            ),
            (1, (any::<bool>(), inner.clone()).prop_map(|(not, x)| E::InSub { not, x: Box::new(x) }).boxed()),
            (
                2,
                (any::<u16>(), proptest::collection::vec(inner.clone(), 2..4))
                    .prop_map(move |(fi, args)| {
                        let mut fs = vec![F::Abs, F::Coalesce, F::IfNull, F::Greatest, F::Least, F::CharLength, F::Lower, F::Upper, F::Round, F::RoundPrec];
                        if !engine {
                            fs.extend([F::Md5, F::Random, F::BitAndAgg, F::BitOrAgg, F::Custom]);
                            if d == Dialect::Postgres {
                                fs.extend([
                                    F::PgToTsquery,
                                    F::PgToTsqueryCfg,
                                    F::PgToTsvectorCfg,
                                    F::PgTsRank,
                                    F::PgStartsWith,
                                    F::PgGenRandomUuid,
                                    F::PgJsonAgg,
                                    F::PgArrayAgg,
                                    F::PgArrayAggDistinct,
                                    F::PgDateTrunc,
                                    F::PgJsonBuildObject,
                                    F::PgPlaintoTsquery,
                                    F::PgPlaintoTsqueryCfg,
                                    F::PgPhrasetoTsquery,
                                    F::PgPhrasetoTsqueryCfg,
                                    F::PgWebsearchToTsquery,
                                    F::PgWebsearchToTsqueryCfg,
                                    F::PgTsRankCd,
                                ]);
                            }
                        }
                        let f = fs[crate::runner::pick_idx(fi, fs.len())];
                        let n = match f {
                            F::Random | F::PgGenRandomUuid => 0,
                            F::Abs | F::CharLength | F::Lower | F::Upper | F::Round | F::Md5 | F::BitAndAgg | F::BitOrAgg => 1,
                            F::PgToTsquery | F::PgToTsqueryCfg | F::PgToTsvectorCfg | F::PgJsonAgg | F::PgArrayAgg | F::PgArrayAggDistinct | F::PgDateTrunc => 1,
                            F::PgPlaintoTsquery | F::PgPlaintoTsqueryCfg | F::PgPhrasetoTsquery | F::PgPhrasetoTsqueryCfg | F::PgWebsearchToTsquery | F::PgWebsearchToTsqueryCfg => 1,
                            F::IfNull | F::RoundPrec | F::PgTsRank | F::PgTsRankCd | F::PgStartsWith | F::PgJsonBuildObject => 2,
                            _ => args.len(),
                        };
                        E::Func(f, args.into_iter().take(n).collect())
                    })
                    .boxed(),
            ),
            (1, (inner.clone(), prop_oneof![Just("integer".to_string()), Just("text".to_string())]).prop_map(|(e, t)| E::Cast(Box::new(e), t)).boxed()),
            (
                1,
                (proptest::collection::vec((inner.clone(), inner.clone()), 1..3), proptest::option::of(inner.clone()))
                    .prop_map(|(w, e)| E::Case(w, e.map(Box::new)))
                    .boxed(),
            ),
            (1, Just(E::Exists).boxed()),
            (1, inner.clone().prop_map(|e| E::AsEnum(Box::new(e))).boxed()),
            (1, Just(E::CustomText).boxed()),
            (1, (atom(), atom()).prop_map(|(x, y)| E::CustomTmpl(Box::new(x), Box::new(y))).boxed()),
        ];
        if !engine {
            choices.push((1, Just(E::ScalarSub).boxed()));
            choices.push((1, (0u8..4).prop_map(E::Keyword).boxed()));
            choices.push((
                1,
                (proptest::collection::vec(inner.clone(), 2..3), proptest::sample::select(vec![Op::Eq, Op::Ne, Op::Lt]), proptest::collection::vec(inner.clone(), 2..3))
                    .prop_map(|(l, op, r)| E::TupleCmp(l, op, r))
                    .boxed(),
            ));
            choices.push((
                1,
                (proptest::collection::vec(inner.clone(), 2..3), proptest::collection::vec((-2i64..6, -2i64..6), 1..4)).prop_map(|(cols, rows)| E::InTuples(cols, rows)).boxed(),
            ));
            choices.push((
                1,
                (proptest::collection::vec(inner.clone(), 3..6), proptest::collection::vec(proptest::collection::vec(-2i64..9, 5), 1..4)).prop_map(|(cols, rows)| E::InTuplesN(cols, rows)).boxed(),
            ));
            if d != Dialect::Sqlite {
                choices.push((
                    1,
                    (inner.clone(), proptest::sample::select(vec![Op::Eq, Op::Ne, Op::Lt, Op::Ge]), 0u8..3)
                        .prop_map(|(x, op, q)| E::Quantified(Box::new(x), op, q))
                        .boxed(),
                ));
            }
        }
        proptest::strategy::Union::new_weighted(choices)
    })
    .boxed()
}
