//! Statement specs: the harness's own description of what the user asks the builder for, the
//! interpreter that performs the public builder calls, and proptest generators.
//!
//! Fixed schema used by the executable properties (C07, C09):
//!   t1(id INTEGER PRIMARY KEY, p INT, q INT, r INT, s INT)
//!   t2(id INTEGER PRIMARY KEY, p INT, q INT, r INT, s INT)
//!   t3(id INTEGER PRIMARY KEY, p INT, q INT, r INT, s INT, k INT UNIQUE)
//! Scalar expressions are `expr_spec::E`; columns are `E::Col` (unqualified p,q,r,s),
//! `E::QCol(alias, col)` (qualified) — the generator only produces references that are in scope.

use crate::expr_spec::*;
use crate::util::Dialect;
use sea_query::extension::mysql::{IndexHintScope, MySqlSelectStatementExt};
use sea_query::extension::postgres::{PostgresSelectStatementExt, SampleMethod};
use sea_query::*;
use serde::{Deserialize, Serialize};

pub const TABLES: [&str; 3] = ["t1", "t2", "t3"];
/// names usable as table qualifiers: the three tables, then aliases
pub const QUALS: [&str; 8] = ["t1", "t2", "t3", "a1", "a2", "a3", "c1", "c2"];
pub const QCOLS: [&str; 5] = ["id", "p", "q", "r", "s"];
pub const ITEM_ALIASES: [&str; 4] = ["x1", "x2", "x3", "x4"];

/// the value that stands for entry `x` of an ORDER BY FIELD list: mostly the integer itself, every fourth entry (x = 3) a text with a
/// quote and a backslash (FIELD lists are inlined through the backend's literal writer)
pub fn field_value(x: i64) -> Value {
    match field_text(x) {
        Some(t) => Value::String(Some(Box::new(t))),
        None => Value::BigInt(Some(x)),
    }
}

pub fn field_text(x: i64) -> Option<String> {
    if x.rem_euclid(4) == 3 {
        Some(format!("it's \\{x}"))
    } else {
        None
    }
}

/// name of a select-item alias: x1..x4, or (from 100) the name of a fixture column — used where a derived CTE column list must
/// keep the names the outer statement refers to
pub fn item_alias(a: u8) -> &'static str {
    if a >= 100 {
        QCOLS[(a as usize - 100) % 5]
    } else {
        ITEM_ALIASES[a as usize % 4]
    }
}

pub fn al(s: &str) -> Alias {
    Alias::new(s)
}

#[derive(Clone, Debug, PartialEq, Eq, Hash, Serialize, Deserialize)]
pub enum Dist {
    None,
    All,
    Distinct,
    /// MySQL
    DistinctRow,
    /// Postgres: DISTINCT ON (columns p..s by index)
    DistinctOn(Vec<u8>),
}

#[derive(Clone, Copy, Debug, PartialEq, Eq, Hash, Serialize, Deserialize)]
pub enum FrameB {
    UnboundedPreceding,
    Preceding(u32),
    CurrentRow,
    Following(u32),
    UnboundedFollowing,
}

#[derive(Clone, Debug, PartialEq, Eq, Hash, Serialize, Deserialize)]
pub struct WinSpec {
    pub partition: Vec<E>,
    pub order: Vec<OrdSpec>,
    /// (rows?, start, end)
    pub frame: Option<(bool, FrameB, Option<FrameB>)>,
}

#[derive(Clone, Debug, PartialEq, Eq, Hash, Serialize, Deserialize)]
pub enum WinRef {
    Inline(WinSpec),
    /// OVER "w"
    Named,
}

#[derive(Clone, Debug, PartialEq, Eq, Hash, Serialize, Deserialize)]
pub struct Item {
    pub e: E,
    pub alias: Option<u8>,
    pub win: Option<WinRef>,
}

#[derive(Clone, Debug, PartialEq, Eq, Hash, Serialize, Deserialize)]
pub enum FromSpec {
    /// table index, optional alias (index into QUALS, >= 3)
    Table(u8, Option<u8>),
    Sub(Box<SelectSpec>, u8),
    /// reference to a CTE by name (QUALS index 6 or 7), optional alias
    Cte(u8, Option<u8>),
    /// VALUES list with alias; all rows have the same arity
    Values(Vec<Vec<i64>>, u8),
}

#[derive(Clone, Copy, Debug, PartialEq, Eq, Hash, Serialize, Deserialize)]
pub enum JoinKind {
    Join,
    Inner,
    Left,
    Right,
    FullOuter,
    Cross,
}

#[derive(Clone, Debug, PartialEq, Eq, Hash, Serialize, Deserialize)]
pub struct JoinSpec {
    pub kind: JoinKind,
    pub src: FromSpec,
    pub on: E,
    pub lateral: bool,
}

#[derive(Clone, Debug, PartialEq, Eq, Hash, Serialize, Deserialize)]
pub enum Dir {
    Asc,
    Desc,
    /// ORDER BY FIELD: inlined values
    Field(Vec<i64>),
}

#[derive(Clone, Debug, PartialEq, Eq, Hash, Serialize, Deserialize)]
pub struct OrdSpec {
    pub e: E,
    pub dir: Dir,
    /// Some(true) = NULLS FIRST
    pub nulls: Option<bool>,
}

#[derive(Clone, Copy, Debug, PartialEq, Eq, Hash, Serialize, Deserialize)]
pub enum Un {
    Union,
    UnionAll,
    Intersect,
    Except,
}

#[derive(Clone, Debug, PartialEq, Eq, Hash, Serialize, Deserialize)]
pub struct LockSpec {
    /// 0 update, 1 no key update, 2 share, 3 key share
    pub ty: u8,
    pub tables: Vec<u8>,
    /// 0 none, 1 nowait, 2 skip locked
    pub behavior: u8,
}

#[derive(Clone, Debug, PartialEq, Eq, Hash, Serialize, Deserialize)]
pub struct CteSpec {
    /// 0 = c1, 1 = c2
    pub name: u8,
    pub cols: Vec<u8>,
    pub materialized: Option<bool>,
    pub query: Box<SelectSpec>,
    /// build through `CommonTableExpression::from_select` (the column list is derived from the select list; `cols` is not used)
    #[serde(default)]
    pub derive: bool,
}

/// name of a CTE: `c1` / `c2`, or (names >= 200, executable DML only) `tt` — a CTE that shadows the table every expression subquery reads
pub fn cte_name(n: u8) -> &'static str {
    if n >= 200 {
        "tt"
    } else {
        QUALS[6 + n as usize % 2]
    }
}

impl CteSpec {
    /// the column list the CTE must be written with
    pub fn effective_cols(&self) -> Vec<String> {
        if !self.derive {
            return self.cols.iter().map(|x| QCOLS[*x as usize % 5].to_string()).collect();
        }
        // documented rule of from_select / try_set_cols_from_select: the alias, else the column name, else table_column;
        // any other select item leaves the CTE without a column list
        let names: Option<Vec<String>> = self
            .query
            .items
            .iter()
            .map(|it| {
                if let Some(a) = it.alias {
                    return Some(item_alias(a).to_string());
                }
                match &it.e {
                    E::Col(i) => Some(crate::expr_spec::COLS[*i as usize % 4].to_string()),
                    E::TCol(i) => Some(format!("tt_{}", crate::expr_spec::COLS[*i as usize % 4])),
                    E::QCol(t, c) => Some(format!("{}_{}", QUALS[*t as usize % 8], QCOLS[*c as usize % 5])),
                    E::AliasRef(i) => Some(ITEM_ALIASES[*i as usize % 4].to_string()),
                    _ => None,
                }
            })
            .collect();
        names.unwrap_or_default()
    }
}

#[derive(Clone, Debug, PartialEq, Eq, Hash, Serialize, Deserialize)]
pub struct WithSpec {
    pub recursive: bool,
    pub ctes: Vec<CteSpec>,
    /// Postgres SEARCH BREADTH/DEPTH FIRST BY col SET alias
    pub search: Option<(bool, u8)>,
    /// Postgres CYCLE col SET a USING b
    pub cycle: Option<u8>,
}

#[derive(Clone, Debug, PartialEq, Eq, Hash, Serialize, Deserialize, Default)]
pub struct SelectSpec {
    pub distinct: Option<Dist>,
    pub items: Vec<Item>,
    pub from: Vec<FromSpec>,
    pub joins: Vec<JoinSpec>,
    pub wheres: Vec<E>,
    pub groups: Vec<E>,
    pub havings: Vec<E>,
    pub unions: Vec<(Un, SelectSpec)>,
    pub orders: Vec<OrdSpec>,
    pub limit: Option<u64>,
    pub offset: Option<u64>,
    pub lock: Option<LockSpec>,
    pub window: Option<WinSpec>,
    pub with: Option<WithSpec>,
    /// MySQL index hints: (kind 0 use / 1 ignore / 2 force, scope 0 all / 1 join / 2 order by / 3 group by)
    pub hints: Vec<(u8, u8)>,
    /// Postgres TABLESAMPLE (bernoulli?, percentage, repeatable)
    pub sample: Option<(bool, u32, Option<u32>)>,
    /// selects among equivalent public API entry points (and_where / and_where_option / cond_where, join() / left_join() ...)
    #[serde(default)]
    pub api: u8,
}

#[derive(Clone, Debug, PartialEq, Eq, Hash, Serialize, Deserialize)]
pub enum Returning {
    All,
    Cols(Vec<u8>),
    Exprs(Vec<E>),
}

#[derive(Clone, Debug, PartialEq, Eq, Hash, Serialize, Deserialize)]
pub enum ConflictAction {
    DoNothing,
    /// MySQL form: do_nothing_on(keys)
    DoNothingOn(Vec<u8>),
    UpdateColumns(Vec<u8>),
    /// value(col, expr)
    UpdateValues(Vec<(u8, E)>),
}

#[derive(Clone, Debug, PartialEq, Eq, Hash, Serialize, Deserialize)]
pub struct ConflictSpec {
    /// target columns (index into T3COLS)
    pub targets: Vec<u8>,
    pub target_where: Option<E>,
    pub action: ConflictAction,
    pub action_where: Option<E>,
    #[serde(default)]
    pub api: u8,
}

#[derive(Clone, Debug, PartialEq, Eq, Hash, Serialize, Deserialize)]
pub enum InsertSource {
    Values(Vec<Vec<E>>),
    Select(Box<SelectSpec>),
    /// or_default_values_many(n), no columns
    Default(u32),
}

pub const T3COLS: [&str; 6] = ["id", "p", "q", "r", "s", "k"];

#[derive(Clone, Debug, PartialEq, Eq, Hash, Serialize, Deserialize)]
pub struct InsertSpec {
    pub replace: bool,
    /// target table index
    pub table: u8,
    /// column indices into T3COLS
    pub columns: Vec<u8>,
    pub source: InsertSource,
    pub on_conflict: Option<ConflictSpec>,
    pub returning: Option<Returning>,
    pub with: Option<WithSpec>,
    #[serde(default)]
    pub api: u8,
}

#[derive(Clone, Debug, PartialEq, Eq, Hash, Serialize, Deserialize)]
pub struct UpdateSpec {
    pub table: u8,
    pub sets: Vec<(u8, E)>,
    pub from: Vec<FromSpec>,
    pub wheres: Vec<E>,
    pub orders: Vec<OrdSpec>,
    pub limit: Option<u64>,
    pub returning: Option<Returning>,
    pub with: Option<WithSpec>,
    #[serde(default)]
    pub api: u8,
}

#[derive(Clone, Debug, PartialEq, Eq, Hash, Serialize, Deserialize)]
pub struct DeleteSpec {
    pub table: u8,
    pub wheres: Vec<E>,
    pub orders: Vec<OrdSpec>,
    pub limit: Option<u64>,
    pub returning: Option<Returning>,
    pub with: Option<WithSpec>,
    #[serde(default)]
    pub api: u8,
}

#[derive(Clone, Debug, PartialEq, Eq, Hash, Serialize, Deserialize)]
pub enum Stmt {
    Select(SelectSpec),
    Insert(InsertSpec),
    Update(UpdateSpec),
    Delete(DeleteSpec),
}

// ------------------------------------------------------------------------------- interpreter

fn frame_of(f: FrameB) -> Frame {
    match f {
        FrameB::UnboundedPreceding => Frame::UnboundedPreceding,
        FrameB::Preceding(n) => Frame::Preceding(n),
        FrameB::CurrentRow => Frame::CurrentRow,
        FrameB::Following(n) => Frame::Following(n),
        FrameB::UnboundedFollowing => Frame::UnboundedFollowing,
    }
}

/// a condition group built through the `Cond` API (members that are groups nest)
pub fn build_cond(e: &E, d: Dialect) -> Condition {
    match e {
        E::Cond { any, negate, members } => {
            let mut c = if *any { Cond::any() } else { Cond::all() };
            for m in members {
                c = match m {
                    E::Cond { .. } => c.add(build_cond(m, d)),
                    other => c.add(other.build(d)),
                };
            }
            if *negate {
                c = c.not();
            }
            // `.not()` toggles: two more calls change nothing
            if crate::runner::fingerprint(e) % 3 == 0 {
                c = c.not().not();
            }
            c
        }
        other => Cond::all().add(other.build(d)),
    }
}

/// add one WHERE condition through one of the equivalent entry points
fn add_where<S: ConditionalStatement>(q: &mut S, e: &E, d: Dialect, k: u8) {
    if matches!(e, E::Cond { .. }) {
        q.cond_where(build_cond(e, d));
        return;
    }
    match k % 3 {
        0 => {
            q.and_where(e.build(d));
        }
        1 => {
            q.and_where_option(Some(e.build(d)));
        }
        _ => {
            q.cond_where(e.build(d));
        }
    }
}

pub fn build_window(w: &WinSpec, d: Dialect) -> WindowStatement {
    let k = crate::runner::fingerprint(w);
    let mut parts = w.partition.iter();
    let mut ws = match (k % 2, w.partition.first()) {
        // the constructor that takes the first PARTITION BY column
        (1, Some(E::Col(i))) => {
            parts.next();
            WindowStatement::partition_by(al(crate::expr_spec::COLS[*i as usize % 4]))
        }
        _ => WindowStatement::new(),
    };
    for p in parts {
        ws.add_partition_by(p.build(d));
    }
    for o in &w.order {
        add_order_k(&mut ws, o, d, (k >> 1) % 2 == 1);
    }
    if let Some((rows, start, end)) = &w.frame {
        let ty = if *rows { FrameType::Rows } else { FrameType::Range };
        match ((k >> 2) % 2, end) {
            (1, None) => {
                ws.frame_start(ty, frame_of(*start));
            }
            (1, Some(e)) => {
                ws.frame_between(ty, frame_of(*start), frame_of(*e));
            }
            _ => {
                ws.frame(ty, frame_of(*start), end.map(frame_of));
            }
        }
    }
    ws
}

fn add_order<S: OrderedStatement>(s: &mut S, o: &OrdSpec, d: Dialect) {
    let order = match &o.dir {
        Dir::Asc => Order::Asc,
        Dir::Desc => Order::Desc,
        Dir::Field(v) => Order::Field(Values(v.iter().map(|x| field_value(*x)).collect())),
    };
    match o.nulls {
        None => {
            s.order_by_expr(o.e.build(d), order);
        }
        Some(first) => {
            s.order_by_expr_with_nulls(o.e.build(d), order, if first { NullOrdering::First } else { NullOrdering::Last });
        }
    }
}

/// ORDER BY term; with `shortcuts` a plain column goes through the column entry points
fn add_order_k<S: OrderedStatement>(s: &mut S, o: &OrdSpec, d: Dialect, shortcuts: bool) {
    if shortcuts && !matches!(o.dir, Dir::Field(_)) {
        let order = if matches!(o.dir, Dir::Asc) { Order::Asc } else { Order::Desc };
        let nulls = o.nulls.map(|first| if first { NullOrdering::First } else { NullOrdering::Last });
        match (&o.e, nulls) {
            (E::Col(i), None) => {
                s.order_by(al(crate::expr_spec::COLS[*i as usize % 4]), order);
                return;
            }
            (E::Col(i), Some(n)) => {
                s.order_by_with_nulls(al(crate::expr_spec::COLS[*i as usize % 4]), order, n);
                return;
            }
            (E::QCol(t, c), None) => {
                s.order_by_columns([((al(QUALS[*t as usize % 8]), al(QCOLS[*c as usize % 5])), order)]);
                return;
            }
            (E::QCol(t, c), Some(n)) => {
                s.order_by_columns_with_nulls([((al(QUALS[*t as usize % 8]), al(QCOLS[*c as usize % 5])), order, n)]);
                return;
            }
            _ => {}
        }
    }
    add_order(s, o, d);
}

fn table_ref(f: &FromSpec) -> Option<TableRef> {
    match f {
        FromSpec::Table(t, None) => Some(al(TABLES[*t as usize % 3]).into_table_ref()),
        FromSpec::Table(t, Some(a)) => Some(al(TABLES[*t as usize % 3]).into_table_ref().alias(al(QUALS[*a as usize % 8]))),
        FromSpec::Cte(c, None) => Some(al(QUALS[6 + *c as usize % 2]).into_table_ref()),
        FromSpec::Cte(c, Some(a)) => Some(al(QUALS[6 + *c as usize % 2]).into_table_ref().alias(al(QUALS[*a as usize % 8]))),
        _ => None,
    }
}

fn build_ctes(w: &WithSpec, d: Dialect) -> Vec<CommonTableExpression> {
    let mut out = vec![];
    for c in &w.ctes {
        let mut cte = if c.derive {
            CommonTableExpression::from_select(build_select(&c.query, d))
        } else {
            let mut cte = CommonTableExpression::new();
            let name = |col: &u8| al(QCOLS[*col as usize % 5]);
            // the column list is additive whichever way it is given: one by one, first one then the rest, or in two batches
            match (c.cols.len() as u64 + crate::runner::fingerprint(&c.query)) % 3 {
                0 => {
                    for col in &c.cols {
                        cte.column(name(col));
                    }
                }
                1 => {
                    if let Some((first, rest)) = c.cols.split_first() {
                        cte.column(name(first));
                        cte.columns(rest.iter().map(name));
                    }
                }
                _ => {
                    let (a, b) = c.cols.split_at(c.cols.len() / 2);
                    cte.columns(a.iter().map(name));
                    cte.columns(b.iter().map(name));
                }
            }
            cte.query(build_select(&c.query, d));
            cte
        };
        cte.table_name(al(cte_name(c.name)));
        if let Some(m) = c.materialized {
            cte.materialized(m);
        }
        out.push(cte);
    }
    out
}

fn build_search(w: &WithSpec) -> Option<Search> {
    let (breadth, col) = w.search?;
    let order = if breadth { SearchOrder::BREADTH } else { SearchOrder::DEPTH };
    let item = SelectExpr { expr: Expr::col(al(QCOLS[col as usize % 5])).into(), alias: Some(al("ordcol").into_iden()), window: None };
    // the constructor or the setters
    Some(if (col as usize + w.ctes.len()) % 2 == 0 { Search::new_from_order_and_expr(order, item) } else { Search::new().order(order).expr(item).to_owned() })
}

fn build_cycle(w: &WithSpec) -> Option<Cycle> {
    let col = w.cycle?;
    let e = Expr::col(al(QCOLS[col as usize % 5]));
    Some(if (col as usize + w.ctes.len()) % 2 == 0 {
        Cycle::new_from_expr_set_using(e, al("is_cycle"), al("path"))
    } else {
        Cycle::new().using(al("path")).set(al("is_cycle")).expr(e).to_owned()
    })
}

pub fn build_with(w: &WithSpec, d: Dialect) -> WithClause {
    let mut wc = WithClause::new();
    wc.recursive(w.recursive);
    for cte in build_ctes(w, d) {
        wc.cte(cte);
    }
    if let Some(s) = build_search(w) {
        wc.search(s);
    }
    if let Some(c) = build_cycle(w) {
        wc.cycle(c);
    }
    wc
}

/// A WITH query around `q` through one of the three public routes: `WithClause::query`, or a `WithQuery` assembled from its own setters
/// (either handing it the whole clause or its parts); `stmt.with(clause)` is the fourth, used by the caller.
fn with_query<Q: QueryStatementBuilder + 'static>(q: Q, w: &WithSpec, d: Dialect, k: u64) -> WithQuery {
    match k % 3 {
        0 => build_with(w, d).query(q),
        1 => WithQuery::new().with_clause(build_with(w, d)).query(q).to_owned(),
        _ => {
            let mut wq = WithQuery::new();
            wq.query(q);
            for cte in build_ctes(w, d) {
                wq.cte(cte);
            }
            if let Some(c) = build_cycle(w) {
                wq.cycle(c);
            }
            if let Some(s) = build_search(w) {
                wq.search(s);
            }
            wq.recursive(w.recursive);
            wq
        }
    }
}

pub fn build_select(s: &SelectSpec, d: Dialect) -> SelectStatement {
    let mut q = Query::select();
    let bit = |n: u8| (s.api >> n) & 1 == 1;
    // the clause-setting calls are independent of each other: natural order, reversed, or rotated (chosen by the selector)
    let n_sections = 15;
    let order: Vec<usize> = match s.api % 4 {
        2 => (0..n_sections).rev().collect(),
        1 => (0..n_sections).map(|k| (k + (s.api as usize / 4)) % n_sections).collect(),
        _ => (0..n_sections).collect(),
    };
    for section in order {
        match section {
            0 => {
                match &s.distinct {
                    None | Some(Dist::None) => {}
                    Some(Dist::All) => {
                        // there is no public setter for ALL; `distinct()` then nothing. ALL is reachable only through
                        // SelectDistinct, which has no builder method: treated as no distinct.
                    }
                    Some(Dist::Distinct) => {
                        q.distinct();
                    }
                    Some(Dist::DistinctRow) => {
                        q.distinct();
                    }
                    Some(Dist::DistinctOn(cols)) => {
                        q.distinct_on(cols.iter().map(|c| al(QCOLS[*c as usize % 5])).collect::<Vec<_>>());
                    }
                }
            }
            1 => {
                for it in &s.items {
                    // plain columns through the column shortcuts
                    if bit(1) && it.win.is_none() && it.alias.is_none() {
                        match &it.e {
                            E::Col(i) => {
                                q.column(al(crate::expr_spec::COLS[*i as usize % 4]));
                                continue;
                            }
                            E::QCol(t, c) => {
                                q.columns([(al(QUALS[*t as usize % 8]), al(QCOLS[*c as usize % 5]))]);
                                continue;
                            }
                            _ => {}
                        }
                    }
                    let e = it.e.build(d);
                    match (&it.win, it.alias) {
                        (None, None) => {
                            if bit(2) {
                                q.exprs([e]);
                            } else {
                                q.expr(e);
                            }
                        }
                        (None, Some(a)) => {
                            q.expr_as(e, al(item_alias(a)));
                        }
                        (Some(WinRef::Inline(w)), None) => {
                            q.expr_window(e, build_window(w, d));
                        }
                        (Some(WinRef::Inline(w)), Some(a)) => {
                            q.expr_window_as(e, build_window(w, d), al(item_alias(a)));
                        }
                        (Some(WinRef::Named), None) => {
                            q.expr_window_name(e, al("w"));
                        }
                        (Some(WinRef::Named), Some(a)) => {
                            q.expr_window_name_as(e, al("w"), al(item_alias(a)));
                        }
                    }
                }
            }
            2 => {
                for f in &s.from {
                    match f {
                        FromSpec::Table(t, Some(a)) if bit(2) => {
                            q.from_as(al(TABLES[*t as usize % 3]), al(QUALS[*a as usize % 8]));
                        }
                        FromSpec::Table(..) | FromSpec::Cte(..) => {
                            q.from(table_ref(f).unwrap());
                        }
                        FromSpec::Sub(sub, a) => {
                            q.from_subquery(build_select(sub, d), al(QUALS[*a as usize % 8]));
                        }
                        FromSpec::Values(rows, a) => {
                            let tuples: Vec<ValueTuple> = rows.iter().map(|r| ValueTuple::Many(r.iter().map(|v| Value::BigInt(Some(*v))).collect())).collect();
                            q.from_values(tuples, al(QUALS[*a as usize % 8]));
                        }
                    }
                }
            }
            3 => {
                for j in &s.joins {
                    let kind = match j.kind {
                        JoinKind::Join => JoinType::Join,
                        JoinKind::Inner => JoinType::InnerJoin,
                        JoinKind::Left => JoinType::LeftJoin,
                        JoinKind::Right => JoinType::RightJoin,
                        JoinKind::FullOuter => JoinType::FullOuterJoin,
                        JoinKind::Cross => JoinType::CrossJoin,
                    };
                    match &j.src {
                        FromSpec::Table(t, Some(a)) if bit(2) => {
                            q.join_as(kind, al(TABLES[*t as usize % 3]), al(QUALS[*a as usize % 8]), build_cond(&j.on, d));
                        }
                        FromSpec::Table(..) | FromSpec::Cte(..) => {
                            let t = table_ref(&j.src).unwrap();
                            let on = build_cond(&j.on, d);
                            if s.api % 2 == 0 {
                                q.join(kind, t, on);
                            } else {
                                match j.kind {
                                    JoinKind::Left => q.left_join(t, on),
                                    JoinKind::Right => q.right_join(t, on),
                                    JoinKind::Inner => q.inner_join(t, on),
                                    JoinKind::FullOuter => q.full_outer_join(t, on),
                                    JoinKind::Cross => q.cross_join(t, on),
                                    JoinKind::Join => q.join(kind, t, on),
                                };
                            }
                        }
                        FromSpec::Sub(sub, a) => {
                            if j.lateral {
                                q.join_lateral(kind, build_select(sub, d), al(QUALS[*a as usize % 8]), j.on.build(d));
                            } else {
                                q.join_subquery(kind, build_select(sub, d), al(QUALS[*a as usize % 8]), j.on.build(d));
                            }
                        }
                        FromSpec::Values(..) => {}
                    }
                }
            }
            4 => {
                for (i, w) in s.wheres.iter().enumerate() {
                    let k = s.api.wrapping_add(i as u8);
                    match (k % 7, matches!(w, E::Cond { .. })) {
                        (5, false) => {
                            let e = w.build(d);
                            q.conditions(true, |x| { x.and_where(e); }, |_| {});
                        }
                        (6, false) => {
                            q.apply_if(Some(w.build(d)), |x, e| { x.and_where(e); });
                        }
                        _ => add_where(&mut q, w, d, k),
                    }
                }
            }
            5 => {
                for g in &s.groups {
                    match g {
                        E::Col(i) if bit(3) => {
                            q.group_by_col(al(crate::expr_spec::COLS[*i as usize % 4]));
                        }
                        E::QCol(t, c) if bit(3) => {
                            q.group_by_columns([(al(QUALS[*t as usize % 8]), al(QCOLS[*c as usize % 5]))]);
                        }
                        _ => {
                            q.add_group_by([g.build(d)]);
                        }
                    }
                }
            }
            6 => {
                for (i, h) in s.havings.iter().enumerate() {
                    if matches!(h, E::Cond { .. }) {
                        q.cond_having(build_cond(h, d));
                    } else if s.api.wrapping_add(i as u8) % 2 == 0 {
                        q.and_having(h.build(d));
                    } else {
                        q.cond_having(h.build(d));
                    }
                }
            }
            7 => {
                for (u, sub) in &s.unions {
                    let ut = match u {
                        Un::Union => UnionType::Distinct,
                        Un::UnionAll => UnionType::All,
                        Un::Intersect => UnionType::Intersect,
                        Un::Except => UnionType::Except,
                    };
                    if bit(6) {
                        q.unions([(ut, build_select(sub, d))]);
                    } else {
                        q.union(ut, build_select(sub, d));
                    }
                }
            }
            8 => {
                for o in &s.orders {
                    add_order_k(&mut q, o, d, bit(4));
                }
            }
            9 => {
                if let Some(l) = s.limit {
                    if s.api % 7 == 4 {
                        q.limit(l + 17); // a setter: the later call replaces the earlier one
                    }
                    q.limit(l);
                }
                if let Some(o) = s.offset {
                    if s.api % 7 == 4 {
                        q.offset(o + 3);
                    }
                    q.offset(o);
                }
            }
            10 => {
                if let Some(l) = &s.lock {
                    let ty = [LockType::Update, LockType::NoKeyUpdate, LockType::Share, LockType::KeyShare][l.ty as usize % 4];
                    let tables: Vec<Alias> = l.tables.iter().map(|t| al(TABLES[*t as usize % 3])).collect();
                    match l.behavior % 3 {
                        0 if tables.is_empty() && bit(5) => {
                            match ty {
                                LockType::Update if bit(4) => q.lock_exclusive(),
                                LockType::Share if bit(4) => q.lock_shared(),
                                _ => q.lock(ty),
                            };
                        }
                        1 | 2 if tables.is_empty() && bit(5) => {
                            q.lock_with_behavior(ty, if l.behavior % 3 == 1 { LockBehavior::Nowait } else { LockBehavior::SkipLocked });
                        }
                        0 => {
                            q.lock_with_tables(ty, tables);
                        }
                        1 => {
                            q.lock_with_tables_behavior(ty, tables, LockBehavior::Nowait);
                        }
                        _ => {
                            q.lock_with_tables_behavior(ty, tables, LockBehavior::SkipLocked);
                        }
                    }
                }
            }
            11 => {
                if let Some(w) = &s.window {
                    q.window(al("w"), build_window(w, d));
                }
            }
            12 => {
                if let Some(w) = &s.with {
                    q.with_cte(build_with(w, d));
                }
            }
            13 => {
                for (k, sc) in &s.hints {
                    let scope = [IndexHintScope::All, IndexHintScope::Join, IndexHintScope::OrderBy, IndexHintScope::GroupBy][*sc as usize % 4];
                    match k % 3 {
                        0 => q.use_index(al("ix1"), scope),
                        1 => q.ignore_index(al("ix2"), scope),
                        _ => q.force_index(al("ix3"), scope),
                    };
                }
            }
            14 => {
                if let Some((bern, pct, rep)) = s.sample {
                    q.table_sample(if bern { SampleMethod::BERNOULLI } else { SampleMethod::SYSTEM }, pct as f64, rep.map(|r| r as f64));
                }
            }
            _ => {}
        }
    }
    // the two documented ways of finishing a builder chain
    if s.api % 5 == 3 {
        q.take()
    } else {
        q.to_owned()
    }
}

fn build_returning(r: &Returning, d: Dialect) -> ReturningClause {
    // Query::returning() builder; the statement-level shortcuts returning_all / returning_col are exercised by callers
    match r {
        Returning::All => Query::returning().all(),
        Returning::Cols(c) => Query::returning().columns(c.iter().map(|i| al(T3COLS[*i as usize % 6])).collect::<Vec<_>>()),
        Returning::Exprs(e) => Query::returning().exprs(e.iter().map(|x| x.build(d)).collect::<Vec<_>>()),
    }
}

pub fn build_conflict(c: &ConflictSpec, d: Dialect) -> OnConflict {
    let mut oc = if c.targets.is_empty() { OnConflict::new() } else { OnConflict::columns(c.targets.iter().map(|t| al(T3COLS[*t as usize % 6])).collect::<Vec<_>>()) };
    if let Some(w) = &c.target_where {
        match c.api % 3 {
            0 => oc.target_and_where(w.build(d)),
            1 => oc.target_and_where_option(Some(w.build(d))),
            _ => oc.target_cond_where(build_cond(w, d)),
        };
    }
    match &c.action {
        ConflictAction::DoNothing => {
            oc.do_nothing();
        }
        ConflictAction::DoNothingOn(k) => {
            oc.do_nothing_on(k.iter().map(|t| al(T3COLS[*t as usize % 6])).collect::<Vec<_>>());
        }
        ConflictAction::UpdateColumns(cols) if cols.len() == 1 && c.api >= 128 => {
            oc.update_column(al(T3COLS[cols[0] as usize % 6]));
        }
        ConflictAction::UpdateColumns(cols) => {
            oc.update_columns(cols.iter().map(|t| al(T3COLS[*t as usize % 6])).collect::<Vec<_>>());
        }
        ConflictAction::UpdateValues(vals) => {
            for (c, e) in vals {
                oc.value(al(T3COLS[*c as usize % 6]), e.build(d));
            }
        }
    }
    if let Some(w) = &c.action_where {
        match (c.api / 3) % 3 {
            0 => oc.action_and_where(w.build(d)),
            1 => oc.action_and_where_option(Some(w.build(d))),
            _ => oc.action_cond_where(build_cond(w, d)),
        };
    }
    oc
}

pub fn build_insert(s: &InsertSpec, d: Dialect) -> InsertStatement {
    let mut q = Query::insert();
    if s.replace {
        q.replace();
    }
    if s.api % 7 == 4 {
        q.into_table(al("decoy")); // replaced by the next call
    }
    q.into_table(al(TABLES[s.table as usize % 3]));
    q.columns(s.columns.iter().map(|c| al(T3COLS[*c as usize % 6])).collect::<Vec<_>>());
    match &s.source {
        InsertSource::Values(rows) => {
            match s.api % 3 {
                0 => {
                    for r in rows {
                        q.values_panic(r.iter().map(|e| e.build(d)).collect::<Vec<_>>());
                    }
                }
                1 => {
                    for r in rows {
                        q.values(r.iter().map(|e| e.build(d)).collect::<Vec<_>>()).expect("generator keeps the arity");
                    }
                }
                _ => {
                    q.values_from_panic(rows.iter().map(|r| r.iter().map(|e| e.build(d)).collect::<Vec<_>>()));
                }
            }
        }
        InsertSource::Select(sel) => {
            q.select_from(build_select(sel, d)).expect("generator keeps the arity");
        }
        InsertSource::Default(1) if s.api % 2 == 1 => {
            q.or_default_values();
        }
        InsertSource::Default(n) => {
            q.or_default_values_many(*n);
        }
    }
    if let Some(c) = &s.on_conflict {
        q.on_conflict(build_conflict(c, d));
    }
    if let Some(r) = &s.returning {
        q.returning(build_returning(r, d));
    }
    if let Some(w) = &s.with {
        q.with_cte(build_with(w, d));
    }
    q.to_owned()
}

pub fn build_update(s: &UpdateSpec, d: Dialect) -> UpdateStatement {
    let mut q = Query::update();
    if s.api % 7 == 4 {
        q.table(al("decoy"));
    }
    q.table(al(TABLES[s.table as usize % 3]));
    if s.api % 2 == 0 {
        for (c, e) in &s.sets {
            q.value(al(T3COLS[*c as usize % 6]), e.build(d));
        }
    } else {
        q.values(s.sets.iter().map(|(c, e)| (al(T3COLS[*c as usize % 6]), e.build(d))).collect::<Vec<_>>());
    }
    for f in &s.from {
        if let Some(t) = table_ref(f) {
            q.from(t);
        }
    }
    for (i, w) in s.wheres.iter().enumerate() {
        add_where(&mut q, w, d, s.api.wrapping_add(i as u8));
    }
    for o in &s.orders {
        add_order(&mut q, o, d);
    }
    if let Some(l) = s.limit {
        q.limit(l);
    }
    match (&s.returning, s.api % 2) {
        (Some(Returning::All), 1) => {
            q.returning_all();
        }
        (Some(Returning::Cols(c)), 1) if c.len() == 1 => {
            q.returning_col(al(T3COLS[c[0] as usize % 6]));
        }
        (Some(r), _) => {
            q.returning(build_returning(r, d));
        }
        (None, _) => {}
    }
    if let Some(w) = &s.with {
        q.with_cte(build_with(w, d));
    }
    q.to_owned()
}

pub fn build_delete(s: &DeleteSpec, d: Dialect) -> DeleteStatement {
    let mut q = Query::delete();
    if s.api % 7 == 4 {
        q.from_table(al("decoy"));
    }
    q.from_table(al(TABLES[s.table as usize % 3]));
    for (i, w) in s.wheres.iter().enumerate() {
        add_where(&mut q, w, d, s.api.wrapping_add(i as u8));
    }
    for o in &s.orders {
        add_order(&mut q, o, d);
    }
    if let Some(l) = s.limit {
        q.limit(l);
    }
    match (&s.returning, s.api % 2) {
        (Some(Returning::All), 1) => {
            q.returning_all();
        }
        (Some(Returning::Cols(c)), 1) if c.len() == 1 => {
            q.returning_col(al(T3COLS[c[0] as usize % 6]));
        }
        (Some(r), _) => {
            q.returning(build_returning(r, d));
        }
        (None, _) => {}
    }
    if let Some(w) = &s.with {
        q.with_cte(build_with(w, d));
    }
    q.to_owned()
}

/// A built statement of any kind with the rendering entry points used by the checks.
pub enum Built {
    Select(SelectStatement),
    Insert(InsertStatement),
    Update(UpdateStatement),
    Delete(DeleteStatement),
    /// `stmt.with(clause)`: the WithQuery wrapper
    With(WithQuery),
}

#[macro_export]
macro_rules! on_built {
    ($b:expr, $s:ident => $body:expr) => {
        match $b {
            $crate::stmt_spec::Built::Select($s) => $body,
            $crate::stmt_spec::Built::Insert($s) => $body,
            $crate::stmt_spec::Built::Update($s) => $body,
            $crate::stmt_spec::Built::Delete($s) => $body,
            $crate::stmt_spec::Built::With($s) => $body,
        }
    };
}

impl Stmt {
    pub fn build(&self, d: Dialect) -> Built {
        // a top-level WITH clause through `stmt.with(clause)` (WithQuery) instead of `stmt.with_cte(clause)`
        match self {
            Stmt::Select(s) if s.with.is_some() && s.api >= 128 => {
                let mut bare = s.clone();
                let w = bare.with.take().unwrap();
                let k = crate::runner::fingerprint(&w);
                return Built::With(if k % 4 == 0 { build_select(&bare, d).with(build_with(&w, d)) } else { with_query(build_select(&bare, d), &w, d, k / 4) });
            }
            Stmt::Insert(s) if s.with.is_some() && s.api >= 128 => {
                let mut bare = s.clone();
                let w = bare.with.take().unwrap();
                let k = crate::runner::fingerprint(&w);
                return Built::With(if k % 4 == 0 { build_insert(&bare, d).with(build_with(&w, d)) } else { with_query(build_insert(&bare, d), &w, d, k / 4) });
            }
            Stmt::Update(s) if s.with.is_some() && s.api >= 128 => {
                let mut bare = s.clone();
                let w = bare.with.take().unwrap();
                let k = crate::runner::fingerprint(&w);
                return Built::With(if k % 4 == 0 { build_update(&bare, d).with(build_with(&w, d)) } else { with_query(build_update(&bare, d), &w, d, k / 4) });
            }
            Stmt::Delete(s) if s.with.is_some() && s.api >= 128 => {
                let mut bare = s.clone();
                let w = bare.with.take().unwrap();
                let k = crate::runner::fingerprint(&w);
                return Built::With(if k % 4 == 0 { build_delete(&bare, d).with(build_with(&w, d)) } else { with_query(build_delete(&bare, d), &w, d, k / 4) });
            }
            _ => {}
        }
        match self {
            Stmt::Select(s) => Built::Select(build_select(s, d)),
            Stmt::Insert(s) => Built::Insert(build_insert(s, d)),
            Stmt::Update(s) => Built::Update(build_update(s, d)),
            Stmt::Delete(s) => Built::Delete(build_delete(s, d)),
        }
    }
    pub fn kind(&self) -> &'static str {
        match self {
            Stmt::Select(_) => "select",
            Stmt::Insert(_) => "insert",
            Stmt::Update(_) => "update",
            Stmt::Delete(_) => "delete",
        }
    }
}

impl Built {
    pub fn to_string(&self, d: Dialect) -> String {
        on_built!(self, s => crate::with_backend!(d, b => s.to_string(b)))
    }
    pub fn build(&self, d: Dialect) -> (String, Values) {
        on_built!(self, s => crate::with_backend!(d, b => s.build(b)))
    }
}
