//! C12 tuples: arity 1..12 through into_value_tuple / from_value_tuple / into_iter.

use super::gen;
use super::model::*;
use crate::runner::*;
use proptest::prelude::*;
use sea_query::{FromValueTuple, IntoValueTuple, Nullable, Value, ValueTuple, ValueType};
use serde::{Deserialize, Serialize};
use serde_json::Value as J;

#[derive(Clone, Debug, Serialize, Deserialize)]
pub struct TupleCase {
    /// 0 = all i64, 1 = all String, 2 = all Option<i32>, 3/4 = heterogeneous type lists, 5 = tuple of `Value`s
    pub pattern: u8,
    /// one entry per position; None = an absent optional (only for optional positions)
    pub items: Vec<Option<X>>,
}

pub const PATTERNS: u8 = 6;

#[derive(Clone, Copy)]
pub struct Spec {
    pub tag: Tag,
    pub array: bool,
    pub opt: bool,
}
const fn s(tag: Tag) -> Spec {
    Spec { tag, array: false, opt: false }
}
const fn o(tag: Tag) -> Spec {
    Spec { tag, array: false, opt: true }
}

/// element types per position (None for pattern 5: any value at every position)
pub fn specs(pattern: u8) -> Option<[Spec; 12]> {
    match pattern {
        0 => Some([s(Tag::I64); 12]),
        1 => Some([s(Tag::Str); 12]),
        2 => Some([o(Tag::I32); 12]),
        3 => Some([
            s(Tag::I32),
            s(Tag::Str),
            s(Tag::F64),
            s(Tag::U8),
            s(Tag::Bool),
            s(Tag::Char),
            s(Tag::I64),
            s(Tag::Bytes),
            s(Tag::U16),
            s(Tag::F32),
            s(Tag::U32),
            s(Tag::I8),
        ]),
        4 => Some([
            o(Tag::Str),
            s(Tag::Uuid),
            o(Tag::F64),
            s(Tag::CDate),
            s(Tag::Dec),
            s(Tag::Json),
            o(Tag::Bool),
            Spec { tag: Tag::I32, array: true, opt: false },
            s(Tag::U64),
            o(Tag::Bytes),
            s(Tag::TDate),
            o(Tag::I64),
        ]),
        _ => None,
    }
}

/// A tuple element: a supported type or an Option of one.
pub trait El: Sized + Clone + Into<Value> + ValueType {
    fn from_ox(x: &Option<X>) -> Option<Self>;
    fn want(&self) -> (Kind, Option<String>);
}
impl<T: Ty> El for T {
    fn from_ox(x: &Option<X>) -> Option<Self> {
        x.as_ref().and_then(T::from_x)
    }
    fn want(&self) -> (Kind, Option<String>) {
        (T::kind(), Some(self.canon()))
    }
}
impl<T: Ty + Nullable> El for Option<T> {
    fn from_ox(x: &Option<X>) -> Option<Self> {
        match x {
            None => Some(None),
            Some(x) => T::from_x(x).map(Some),
        }
    }
    fn want(&self) -> (Kind, Option<String>) {
        (T::kind(), self.as_ref().map(|v| v.canon()))
    }
}

type Want = Vec<(Kind, Option<String>)>;

fn desc_pair(v: &Value) -> (Kind, Option<String>) {
    let d = describe(v);
    (d.kind, d.canon)
}

/// the documented shapes: One / Two / Three, and Many(vec) from arity 4 on
pub fn hand_built(mut vals: Vec<Value>) -> ValueTuple {
    match vals.len() {
        1 => ValueTuple::One(vals.pop().unwrap()),
        2 => {
            let b = vals.pop().unwrap();
            let a = vals.pop().unwrap();
            ValueTuple::Two(a, b)
        }
        3 => {
            let c = vals.pop().unwrap();
            let b = vals.pop().unwrap();
            let a = vals.pop().unwrap();
            ValueTuple::Three(a, b, c)
        }
        _ => ValueTuple::Many(vals),
    }
}

/// the fields of a ValueTuple in declaration order, read by pattern matching (not by into_iter)
fn fields(vt: &ValueTuple) -> Vec<&Value> {
    match vt {
        ValueTuple::One(a) => vec![a],
        ValueTuple::Two(a, b) => vec![a, b],
        ValueTuple::Three(a, b, c) => vec![a, b, c],
        ValueTuple::Many(v) => v.iter().collect(),
    }
}

fn show(w: &Want) -> String {
    w.iter().map(|(k, c)| format!("{k:?}:{}", c.clone().unwrap_or_else(|| "NULL".into()))).collect::<Vec<_>>().join(", ")
}

/// value tuple produced by sea-query vs. the expected element list
pub fn check_value_tuple(vt: &ValueTuple, want: &Want, how: &str) -> R {
    let n = want.len();
    let shape_ok = match vt {
        ValueTuple::One(_) => n == 1,
        ValueTuple::Two(..) => n == 2,
        ValueTuple::Three(..) => n == 3,
        ValueTuple::Many(v) => n >= 4 && v.len() == n,
    };
    let f: Want = fields(vt).into_iter().map(desc_pair).collect();
    if f.len() != n {
        return fail(format!("tuple-arity/{how}/{n}"), format!("{n} elements went in, the value tuple holds {}: [{}]", f.len(), show(&f)));
    }
    if !shape_ok {
        return fail(format!("tuple-shape/{how}/{n}"), format!("arity {n} produced an unexpected ValueTuple variant: [{}]", show(&f)));
    }
    if &f != want {
        return fail(format!("tuple-order/{how}/{n}"), format!("expected [{}], value tuple holds [{}]", show(want), show(&f)));
    }
    let it: Want = guard("ValueTuple::into_iter", || vt.clone().into_iter().map(|v| desc_pair(&v)).collect())?;
    if &it != want {
        return fail(format!("tuple-iter/{n}"), format!("expected [{}], into_iter yields [{}]", show(want), show(&it)));
    }
    // IntoValueTuple for ValueTuple is the identity
    let again: Want = guard("ValueTuple::into_value_tuple", || fields(&vt.clone().into_value_tuple()).into_iter().map(desc_pair).collect())?;
    if &again != want {
        return fail(format!("tuple-identity/{n}"), format!("expected [{}], got [{}]", show(want), show(&again)));
    }
    Ok(())
}

/// `from_value_tuple` must refuse a value tuple with a different number of elements
fn must_refuse<T: FromValueTuple>(vals: Vec<Value>, n: usize) -> R {
    let m = vals.len();
    if m == 0 || m == n {
        return Ok(());
    }
    let vt = hand_built(vals);
    let r = std::panic::catch_unwind(std::panic::AssertUnwindSafe(|| {
        let _ = T::from_value_tuple(vt);
    }));
    match r {
        Err(_) => Ok(()),
        Ok(()) => fail(format!("tuple-arity/from/{n}"), format!("a value tuple of {m} elements was accepted as a tuple of arity {n}")),
    }
}

fn check_back(got: &Want, want: &Want, how: &str) -> R {
    if got != want {
        return fail(
            format!("tuple-order/{how}/{}", want.len()),
            format!("expected [{}], extracted [{}]", show(want), show(got)),
        );
    }
    Ok(())
}

fn tuple1<T0: El>(items: &[Option<X>]) -> R {
    let Some(t) = T0::from_ox(&items[0]) else { return discard("element is not a value of the position's type") };
    let want: Want = vec![t.want()];
    let vt = guard("into_value_tuple", || t.clone().into_value_tuple())?;
    check_value_tuple(&vt, &want, "into")?;
    let back: T0 = guard("from_value_tuple(tuple)", || FromValueTuple::from_value_tuple(t.clone()))?;
    check_back(&vec![back.want()], &want, "from")?;
    let hand = hand_built(vec![t.clone().into()]);
    let back: T0 = guard("from_value_tuple(ValueTuple)", || FromValueTuple::from_value_tuple(hand))?;
    check_back(&vec![back.want()], &want, "from-vt")?;
    must_refuse::<T0>(vec![t.clone().into(), t.clone().into()], 1)
}

macro_rules! tuple_arity {
    ($fname:ident, $n:expr; $($idx:tt : $T:ident),+) => {
        fn $fname<$($T: El),+>(items: &[Option<X>]) -> R {
            let t: ($($T),+) = ( $(
                match <$T as El>::from_ox(&items[$idx]) {
                    Some(v) => v,
                    None => return discard("element is not a value of the position's type"),
                }
            ),+ );
            let want: Want = vec![ $( t.$idx.want() ),+ ];
            let vt = guard("into_value_tuple", || t.clone().into_value_tuple())?;
            check_value_tuple(&vt, &want, "into")?;
            let back: ($($T),+) = guard("from_value_tuple(tuple)", || FromValueTuple::from_value_tuple(t.clone()))?;
            check_back(&vec![ $( back.$idx.want() ),+ ], &want, "from")?;
            let vals = || -> Vec<Value> { vec![ $( t.$idx.clone().into() ),+ ] };
            let hand = hand_built(vals());
            let back: ($($T),+) = guard("from_value_tuple(ValueTuple)", || FromValueTuple::from_value_tuple(hand))?;
            check_back(&vec![ $( back.$idx.want() ),+ ], &want, "from-vt")?;
            let mut less = vals();
            less.pop();
            must_refuse::<($($T),+)>(less, $n)?;
            let mut more = vals();
            more.push(more[0].clone());
            must_refuse::<($($T),+)>(more, $n)
        }
    };
}
tuple_arity!(tuple2, 2; 0:T0, 1:T1);
tuple_arity!(tuple3, 3; 0:T0, 1:T1, 2:T2);
tuple_arity!(tuple4, 4; 0:T0, 1:T1, 2:T2, 3:T3);
tuple_arity!(tuple5, 5; 0:T0, 1:T1, 2:T2, 3:T3, 4:T4);
tuple_arity!(tuple6, 6; 0:T0, 1:T1, 2:T2, 3:T3, 4:T4, 5:T5);
tuple_arity!(tuple7, 7; 0:T0, 1:T1, 2:T2, 3:T3, 4:T4, 5:T5, 6:T6);
tuple_arity!(tuple8, 8; 0:T0, 1:T1, 2:T2, 3:T3, 4:T4, 5:T5, 6:T6, 7:T7);
tuple_arity!(tuple9, 9; 0:T0, 1:T1, 2:T2, 3:T3, 4:T4, 5:T5, 6:T6, 7:T7, 8:T8);
tuple_arity!(tuple10, 10; 0:T0, 1:T1, 2:T2, 3:T3, 4:T4, 5:T5, 6:T6, 7:T7, 8:T8, 9:T9);
tuple_arity!(tuple11, 11; 0:T0, 1:T1, 2:T2, 3:T3, 4:T4, 5:T5, 6:T6, 7:T7, 8:T8, 9:T9, 10:T10);
tuple_arity!(tuple12, 12; 0:T0, 1:T1, 2:T2, 3:T3, 4:T4, 5:T5, 6:T6, 7:T7, 8:T8, 9:T9, 10:T10, 11:T11);

macro_rules! by_arity {
    ($items:expr; $A:ty, $B:ty, $C:ty, $D:ty, $E:ty, $F:ty, $G:ty, $H:ty, $I:ty, $JJ:ty, $KK:ty, $L:ty) => {
        match $items.len() {
            1 => tuple1::<$A>($items),
            2 => tuple2::<$A, $B>($items),
            3 => tuple3::<$A, $B, $C>($items),
            4 => tuple4::<$A, $B, $C, $D>($items),
            5 => tuple5::<$A, $B, $C, $D, $E>($items),
            6 => tuple6::<$A, $B, $C, $D, $E, $F>($items),
            7 => tuple7::<$A, $B, $C, $D, $E, $F, $G>($items),
            8 => tuple8::<$A, $B, $C, $D, $E, $F, $G, $H>($items),
            9 => tuple9::<$A, $B, $C, $D, $E, $F, $G, $H, $I>($items),
            10 => tuple10::<$A, $B, $C, $D, $E, $F, $G, $H, $I, $JJ>($items),
            11 => tuple11::<$A, $B, $C, $D, $E, $F, $G, $H, $I, $JJ, $KK>($items),
            12 => tuple12::<$A, $B, $C, $D, $E, $F, $G, $H, $I, $JJ, $KK, $L>($items),
            _ => discard("arity outside 1..=12"),
        }
    };
}

// ---- pattern 5: tuples whose elements are `Value`s of any variant (into_value_tuple only)

struct ToValue {
    out: Option<(Value, (Kind, Option<String>))>,
}
impl Visit for ToValue {
    fn nullable<T: Ty + Nullable>(&mut self, x: T) -> R {
        self.plain(x)
    }
    fn plain<T: Ty>(&mut self, x: T) -> R {
        let want = (T::kind(), Some(x.canon()));
        let v: Value = guard("into", || x.into())?;
        self.out = Some((v, want));
        Ok(())
    }
}

macro_rules! raw_tuple {
    ($it:expr; $($x:tt),+) => { ( $( { let _ = $x; $it.next().unwrap() } ),+ ).into_value_tuple() };
}

fn raw(items: &[Option<X>]) -> R {
    let mut vals = vec![];
    let mut want: Want = vec![];
    for i in items {
        let Some(x) = i else { return discard("pattern 5 has no optional positions") };
        let mut tv = ToValue { out: None };
        dispatch(x, &mut tv)?;
        let (v, w) = tv.out.expect("visited");
        vals.push(v);
        want.push(w);
    }
    let hand = hand_built(vals.clone());
    check_value_tuple(&hand, &want, "hand")?;
    let mut it = vals.into_iter();
    let vt = guard("into_value_tuple", || match want.len() {
        1 => it.next().unwrap().into_value_tuple(),
        2 => raw_tuple!(it; 0, 1),
        3 => raw_tuple!(it; 0, 1, 2),
        4 => raw_tuple!(it; 0, 1, 2, 3),
        5 => raw_tuple!(it; 0, 1, 2, 3, 4),
        6 => raw_tuple!(it; 0, 1, 2, 3, 4, 5),
        7 => raw_tuple!(it; 0, 1, 2, 3, 4, 5, 6),
        8 => raw_tuple!(it; 0, 1, 2, 3, 4, 5, 6, 7),
        9 => raw_tuple!(it; 0, 1, 2, 3, 4, 5, 6, 7, 8),
        10 => raw_tuple!(it; 0, 1, 2, 3, 4, 5, 6, 7, 8, 9),
        11 => raw_tuple!(it; 0, 1, 2, 3, 4, 5, 6, 7, 8, 9, 10),
        _ => raw_tuple!(it; 0, 1, 2, 3, 4, 5, 6, 7, 8, 9, 10, 11),
    })?;
    check_value_tuple(&vt, &want, "into-values")
}

pub fn check(c: &TupleCase, obs: &mut Obs) -> R {
    let n = c.items.len();
    if !(1..=12).contains(&n) {
        return discard("arity outside 1..=12");
    }
    let items = &c.items[..];
    obs.label(format!("tuple/pattern{}/arity{:02}", c.pattern, n));
    let r = match c.pattern {
        0 => by_arity!(items; i64, i64, i64, i64, i64, i64, i64, i64, i64, i64, i64, i64),
        1 => by_arity!(items; String, String, String, String, String, String, String, String, String, String, String, String),
        2 => by_arity!(items; Option<i32>, Option<i32>, Option<i32>, Option<i32>, Option<i32>, Option<i32>, Option<i32>,
                       Option<i32>, Option<i32>, Option<i32>, Option<i32>, Option<i32>),
        3 => by_arity!(items; i32, String, f64, u8, bool, char, i64, Vec<u8>, u16, f32, u32, i8),
        4 => by_arity!(items; Option<String>, uuid::Uuid, Option<f64>, chrono::NaiveDate, rust_decimal::Decimal, J, Option<bool>,
                       Vec<i32>, u64, Option<Vec<u8>>, time::Date, Option<i64>),
        5 => raw(items),
        _ => discard("unknown pattern"),
    };
    r?;
    // non-trivial: an element that is a boundary / NaN / non-BMP / empty value or an absent optional
    let nt = c.items.iter().any(|i| match i {
        None => true,
        Some(x) => gen::nt_class(x).is_some(),
    });
    if nt {
        obs.nontrivial(&("tuple", c.pattern, serde_json::to_string(&c.items).unwrap_or_default()));
    }
    Ok(())
}

fn position(spec: Spec) -> BoxedStrategy<Option<X>> {
    let base = if spec.array { gen::arr(spec.tag) } else { gen::strat(spec.tag) };
    if spec.opt {
        prop_oneof![1 => Just(None), 3 => base.prop_map(Some)].boxed()
    } else {
        base.prop_map(Some).boxed()
    }
}

pub fn strategy() -> BoxedStrategy<TupleCase> {
    (0u8..PATTERNS, 1usize..=12)
        .prop_flat_map(|(pattern, n)| {
            let per: Vec<BoxedStrategy<Option<X>>> = match specs(pattern) {
                Some(sp) => sp[..n].iter().map(|s| position(*s)).collect(),
                None => (0..n).map(|_| gen::any_x().prop_map(Some).boxed()).collect(),
            };
            per.prop_map(move |items| TupleCase { pattern, items })
        })
        .boxed()
}

/// every pattern × every arity with pairwise distinct elements (a swap of two positions cannot hide),
/// plus, for the optional patterns, every single position absent
pub fn fixed_cases() -> Vec<TupleCase> {
    let mut v = vec![];
    for pattern in 0..PATTERNS {
        for n in 1..=12usize {
            let sp = specs(pattern);
            let items: Vec<Option<X>> = (0..n)
                .map(|i| match &sp {
                    Some(sp) => Some(gen::distinct(sp[i].tag, sp[i].array, i)),
                    None => Some(gen::distinct(SCALAR_TAGS[(i * 3 + n) % SCALAR_TAGS.len()], false, i)),
                })
                .collect();
            v.push(TupleCase { pattern, items: items.clone() });
            if let Some(sp) = &sp {
                for i in 0..n {
                    if sp[i].opt {
                        let mut it = items.clone();
                        it[i] = None;
                        v.push(TupleCase { pattern, items: it });
                    }
                }
            }
        }
    }
    v
}
