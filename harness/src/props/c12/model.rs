//! C12 model: serialisable description of Rust values (`X`), the oracle's own view of a `Value`
//! (`describe`), canonical bit/text forms (`Canon`), the table of target types and the verdict rule.

use crate::runner::*;
use sea_query::{ArrayType, Nullable, Value, ValueType};
use serde::{Deserialize, Serialize};
use serde_json::Value as J;
use std::borrow::Cow;
use std::sync::OnceLock;

/// The oracle's names for the `Value` variants (one per payload type of the enum definition).
#[derive(Clone, Copy, Debug, PartialEq, Eq, Hash, PartialOrd, Ord, Serialize, Deserialize)]
pub enum K {
    Bool,
    TinyInt,
    SmallInt,
    Int,
    BigInt,
    TinyUnsigned,
    SmallUnsigned,
    Unsigned,
    BigUnsigned,
    Float,
    Double,
    String,
    Char,
    Bytes,
    Json,
    ChronoDate,
    ChronoTime,
    ChronoDateTime,
    ChronoDateTimeUtc,
    ChronoDateTimeLocal,
    ChronoDateTimeWithTimeZone,
    TimeDate,
    TimeTime,
    TimeDateTime,
    TimeDateTimeWithTimeZone,
    Uuid,
    Decimal,
    BigDecimal,
    Vector,
    IpNetwork,
    MacAddress,
}

/// scalar variant, or array of the element variant
#[derive(Clone, Copy, Debug, PartialEq, Eq, Hash, PartialOrd, Ord)]
pub enum Kind {
    S(K),
    A(K),
}

/// Source Rust types (several Rust types may share one `Value` variant).
#[derive(Clone, Copy, Debug, PartialEq, Eq, Hash, PartialOrd, Ord, Serialize, Deserialize)]
pub enum Tag {
    Bool,
    I8,
    I16,
    I32,
    I64,
    U8,
    U16,
    U32,
    U64,
    F32,
    F64,
    Char,
    Str,
    Cow,
    Bytes,
    Json,
    CDate,
    CTime,
    CDateTime,
    CUtc,
    CLocal,
    CFixed,
    TDate,
    TTime,
    TDateTime,
    TOffset,
    Dec,
    BigDec,
    Uuid,
    Braced,
    Hyph,
    Simple,
    Urn,
    Ip,
    Mac,
    Vector,
}

pub const SCALAR_TAGS: [Tag; 36] = [
    Tag::Bool,
    Tag::I8,
    Tag::I16,
    Tag::I32,
    Tag::I64,
    Tag::U8,
    Tag::U16,
    Tag::U32,
    Tag::U64,
    Tag::F32,
    Tag::F64,
    Tag::Char,
    Tag::Str,
    Tag::Cow,
    Tag::Bytes,
    Tag::Json,
    Tag::CDate,
    Tag::CTime,
    Tag::CDateTime,
    Tag::CUtc,
    Tag::CLocal,
    Tag::CFixed,
    Tag::TDate,
    Tag::TTime,
    Tag::TDateTime,
    Tag::TOffset,
    Tag::Dec,
    Tag::BigDec,
    Tag::Uuid,
    Tag::Braced,
    Tag::Hyph,
    Tag::Simple,
    Tag::Urn,
    Tag::Ip,
    Tag::Mac,
    Tag::Vector,
];

/// element types E for which sea-query implements `From<Vec<E>> for Value` (the `NotU8` list)
pub const ARRAY_TAGS: [Tag; 33] = [
    Tag::Bool,
    Tag::I8,
    Tag::I16,
    Tag::I32,
    Tag::I64,
    Tag::U16,
    Tag::U32,
    Tag::U64,
    Tag::F32,
    Tag::F64,
    Tag::Char,
    Tag::Str,
    Tag::Bytes,
    Tag::Json,
    Tag::CDate,
    Tag::CTime,
    Tag::CDateTime,
    Tag::CUtc,
    Tag::CLocal,
    Tag::CFixed,
    Tag::TDate,
    Tag::TTime,
    Tag::TDateTime,
    Tag::TOffset,
    Tag::Dec,
    Tag::BigDec,
    Tag::Uuid,
    Tag::Braced,
    Tag::Hyph,
    Tag::Simple,
    Tag::Urn,
    Tag::Ip,
    Tag::Mac,
];

/// Serialisable description of one Rust value (floats as bit patterns, 128-bit values as two halves,
/// dates as day numbers so that every representable value can be written down).
#[derive(Clone, Debug, PartialEq, Serialize, Deserialize)]
pub enum X {
    Bool(bool),
    I8(i8),
    I16(i16),
    I32(i32),
    I64(i64),
    U8(u8),
    U16(u16),
    U32(u32),
    U64(u64),
    F32(u32),
    F64(u64),
    Char(u32),
    Str(String),
    Cow(String, bool),
    Bytes(Vec<u8>),
    Json(J),
    /// days from CE
    CDate(i32),
    /// seconds from midnight, nanosecond (>= 1e9 = leap second)
    CTime(u32, u32),
    CDateTime(i32, u32, u32),
    CUtc(i32, u32, u32),
    CLocal(i32, u32, u32),
    /// naive UTC date-time + offset seconds east
    CFixed(i32, u32, u32, i32),
    /// julian day
    TDate(i32),
    TTime(u8, u8, u8, u32),
    TDateTime(i32, u8, u8, u8, u32),
    /// local date-time + offset in whole seconds
    TOffset(i32, u8, u8, u8, u32, i32),
    Dec { lo: u32, mid: u32, hi: u32, neg: bool, scale: u32 },
    BigDec { digits: String, scale: i64 },
    Uuid(u64, u64),
    Braced(u64, u64),
    Hyph(u64, u64),
    Simple(u64, u64),
    Urn(u64, u64),
    Ip { v6: bool, hi: u64, lo: u64, prefix: u8 },
    Mac([u8; 6]),
    Vector(Vec<u32>),
    Arr(Tag, Vec<X>),
}

impl X {
    pub fn tag(&self) -> Option<Tag> {
        Some(match self {
            X::Bool(_) => Tag::Bool,
            X::I8(_) => Tag::I8,
            X::I16(_) => Tag::I16,
            X::I32(_) => Tag::I32,
            X::I64(_) => Tag::I64,
            X::U8(_) => Tag::U8,
            X::U16(_) => Tag::U16,
            X::U32(_) => Tag::U32,
            X::U64(_) => Tag::U64,
            X::F32(_) => Tag::F32,
            X::F64(_) => Tag::F64,
            X::Char(_) => Tag::Char,
            X::Str(_) => Tag::Str,
            X::Cow(..) => Tag::Cow,
            X::Bytes(_) => Tag::Bytes,
            X::Json(_) => Tag::Json,
            X::CDate(_) => Tag::CDate,
            X::CTime(..) => Tag::CTime,
            X::CDateTime(..) => Tag::CDateTime,
            X::CUtc(..) => Tag::CUtc,
            X::CLocal(..) => Tag::CLocal,
            X::CFixed(..) => Tag::CFixed,
            X::TDate(_) => Tag::TDate,
            X::TTime(..) => Tag::TTime,
            X::TDateTime(..) => Tag::TDateTime,
            X::TOffset(..) => Tag::TOffset,
            X::Dec { .. } => Tag::Dec,
            X::BigDec { .. } => Tag::BigDec,
            X::Uuid(..) => Tag::Uuid,
            X::Braced(..) => Tag::Braced,
            X::Hyph(..) => Tag::Hyph,
            X::Simple(..) => Tag::Simple,
            X::Urn(..) => Tag::Urn,
            X::Ip { .. } => Tag::Ip,
            X::Mac(_) => Tag::Mac,
            X::Vector(_) => Tag::Vector,
            X::Arr(..) => return None,
        })
    }
}

// ------------------------------------------------------------------------------------------------
// canonical forms: equality of canon strings is the oracle's notion of "the same value"

pub trait Canon {
    fn canon(&self) -> String;
}

macro_rules! canon_display {
    ($($T:ty),*) => { $( impl Canon for $T { fn canon(&self) -> String { self.to_string() } } )* };
}
canon_display!(bool, i8, i16, i32, i64, u8, u16, u32, u64);

impl Canon for f32 {
    fn canon(&self) -> String {
        format!("{:08x}", self.to_bits())
    }
}
impl Canon for f64 {
    fn canon(&self) -> String {
        format!("{:016x}", self.to_bits())
    }
}
impl Canon for char {
    fn canon(&self) -> String {
        format!("U+{:X}", *self as u32)
    }
}
impl Canon for String {
    fn canon(&self) -> String {
        self.clone()
    }
}
impl Canon for Cow<'static, str> {
    fn canon(&self) -> String {
        self.to_string()
    }
}
pub fn hex(b: &[u8]) -> String {
    let mut s = String::with_capacity(b.len() * 2);
    for x in b {
        s.push_str(&format!("{x:02x}"));
    }
    s
}
impl Canon for Vec<u8> {
    fn canon(&self) -> String {
        hex(self)
    }
}
impl Canon for J {
    fn canon(&self) -> String {
        serde_json::to_string(self).unwrap_or_else(|_| "<unserialisable>".into())
    }
}
impl Canon for chrono::NaiveDate {
    fn canon(&self) -> String {
        use chrono::Datelike;
        self.num_days_from_ce().to_string()
    }
}
impl Canon for chrono::NaiveTime {
    fn canon(&self) -> String {
        use chrono::Timelike;
        format!("{}.{}", self.num_seconds_from_midnight(), self.nanosecond())
    }
}
impl Canon for chrono::NaiveDateTime {
    fn canon(&self) -> String {
        format!("{} {}", self.date().canon(), self.time().canon())
    }
}
impl<Tz: chrono::TimeZone> Canon for chrono::DateTime<Tz> {
    fn canon(&self) -> String {
        use chrono::Offset;
        // instant AND offset: DateTime's own `==` ignores the offset
        format!("{} off {}", self.naive_utc().canon(), self.offset().fix().local_minus_utc())
    }
}
impl Canon for time::Date {
    fn canon(&self) -> String {
        self.to_julian_day().to_string()
    }
}
impl Canon for time::Time {
    fn canon(&self) -> String {
        let (h, m, s, n) = self.as_hms_nano();
        format!("{h}:{m}:{s}.{n}")
    }
}
impl Canon for time::PrimitiveDateTime {
    fn canon(&self) -> String {
        format!("{} {}", self.date().canon(), self.time().canon())
    }
}
impl Canon for time::OffsetDateTime {
    fn canon(&self) -> String {
        // local date-time AND offset: OffsetDateTime's own `==` compares instants only
        format!("{} {} off {}", self.date().canon(), self.time().canon(), self.offset().whole_seconds())
    }
}
impl Canon for rust_decimal::Decimal {
    fn canon(&self) -> String {
        // all 128 bits incl. scale and sign (Decimal's `==` is numeric: 1.0 == 1.00)
        hex(&self.serialize())
    }
}
impl Canon for bigdecimal::BigDecimal {
    fn canon(&self) -> String {
        let (b, e) = self.as_bigint_and_exponent();
        format!("{b}e{e}")
    }
}
impl Canon for uuid::Uuid {
    fn canon(&self) -> String {
        format!("{:032x}", self.as_u128())
    }
}
macro_rules! canon_uuid_fmt {
    ($($T:ty),*) => { $( impl Canon for $T { fn canon(&self) -> String { format!("{:032x}", self.as_uuid().as_u128()) } } )* };
}
canon_uuid_fmt!(uuid::fmt::Braced, uuid::fmt::Hyphenated, uuid::fmt::Simple, uuid::fmt::Urn);
impl Canon for ipnetwork::IpNetwork {
    fn canon(&self) -> String {
        format!("{}/{}", self.ip(), self.prefix())
    }
}
impl Canon for mac_address::MacAddress {
    fn canon(&self) -> String {
        hex(&self.bytes())
    }
}
impl Canon for pgvector::Vector {
    fn canon(&self) -> String {
        self.as_slice().iter().map(|f| format!("{:08x}", f.to_bits())).collect::<Vec<_>>().join(",")
    }
}

/// canonical form of an array: element kind, NULL-ness and canon of every element, in order
pub fn canon_items<I: Iterator<Item = (Kind, Option<String>)>>(items: I) -> String {
    let mut s = String::from("[");
    for (k, c) in items {
        match c {
            Some(c) => s.push_str(&format!("{k:?}#{}={c};", c.len())),
            None => s.push_str(&format!("{k:?}#NULL;")),
        }
    }
    s.push(']');
    s
}

// ------------------------------------------------------------------------------------------------
// the oracle's view of a Value (pure observation by pattern matching)

#[derive(Clone, Debug, PartialEq, Eq)]
pub struct Desc {
    pub kind: Kind,
    /// None = SQL NULL
    pub canon: Option<String>,
}

pub fn arr_k(t: &ArrayType) -> K {
    match t {
        ArrayType::Bool => K::Bool,
        ArrayType::TinyInt => K::TinyInt,
        ArrayType::SmallInt => K::SmallInt,
        ArrayType::Int => K::Int,
        ArrayType::BigInt => K::BigInt,
        ArrayType::TinyUnsigned => K::TinyUnsigned,
        ArrayType::SmallUnsigned => K::SmallUnsigned,
        ArrayType::Unsigned => K::Unsigned,
        ArrayType::BigUnsigned => K::BigUnsigned,
        ArrayType::Float => K::Float,
        ArrayType::Double => K::Double,
        ArrayType::String => K::String,
        ArrayType::Char => K::Char,
        ArrayType::Bytes => K::Bytes,
        ArrayType::Json => K::Json,
        ArrayType::ChronoDate => K::ChronoDate,
        ArrayType::ChronoTime => K::ChronoTime,
        ArrayType::ChronoDateTime => K::ChronoDateTime,
        ArrayType::ChronoDateTimeUtc => K::ChronoDateTimeUtc,
        ArrayType::ChronoDateTimeLocal => K::ChronoDateTimeLocal,
        ArrayType::ChronoDateTimeWithTimeZone => K::ChronoDateTimeWithTimeZone,
        ArrayType::TimeDate => K::TimeDate,
        ArrayType::TimeTime => K::TimeTime,
        ArrayType::TimeDateTime => K::TimeDateTime,
        ArrayType::TimeDateTimeWithTimeZone => K::TimeDateTimeWithTimeZone,
        ArrayType::Uuid => K::Uuid,
        ArrayType::Decimal => K::Decimal,
        ArrayType::BigDecimal => K::BigDecimal,
        ArrayType::IpNetwork => K::IpNetwork,
        ArrayType::MacAddress => K::MacAddress,
    }
}

fn d<T: Canon>(k: K, o: Option<&T>) -> Desc {
    Desc { kind: Kind::S(k), canon: o.map(|x| x.canon()) }
}

pub fn describe(v: &Value) -> Desc {
    match v {
        Value::Bool(o) => d(K::Bool, o.as_ref()),
        Value::TinyInt(o) => d(K::TinyInt, o.as_ref()),
        Value::SmallInt(o) => d(K::SmallInt, o.as_ref()),
        Value::Int(o) => d(K::Int, o.as_ref()),
        Value::BigInt(o) => d(K::BigInt, o.as_ref()),
        Value::TinyUnsigned(o) => d(K::TinyUnsigned, o.as_ref()),
        Value::SmallUnsigned(o) => d(K::SmallUnsigned, o.as_ref()),
        Value::Unsigned(o) => d(K::Unsigned, o.as_ref()),
        Value::BigUnsigned(o) => d(K::BigUnsigned, o.as_ref()),
        Value::Float(o) => d(K::Float, o.as_ref()),
        Value::Double(o) => d(K::Double, o.as_ref()),
        Value::String(o) => d(K::String, o.as_deref()),
        Value::Char(o) => d(K::Char, o.as_ref()),
        Value::Bytes(o) => d(K::Bytes, o.as_deref()),
        Value::Json(o) => d(K::Json, o.as_deref()),
        Value::ChronoDate(o) => d(K::ChronoDate, o.as_deref()),
        Value::ChronoTime(o) => d(K::ChronoTime, o.as_deref()),
        Value::ChronoDateTime(o) => d(K::ChronoDateTime, o.as_deref()),
        Value::ChronoDateTimeUtc(o) => d(K::ChronoDateTimeUtc, o.as_deref()),
        Value::ChronoDateTimeLocal(o) => d(K::ChronoDateTimeLocal, o.as_deref()),
        Value::ChronoDateTimeWithTimeZone(o) => d(K::ChronoDateTimeWithTimeZone, o.as_deref()),
        Value::TimeDate(o) => d(K::TimeDate, o.as_deref()),
        Value::TimeTime(o) => d(K::TimeTime, o.as_deref()),
        Value::TimeDateTime(o) => d(K::TimeDateTime, o.as_deref()),
        Value::TimeDateTimeWithTimeZone(o) => d(K::TimeDateTimeWithTimeZone, o.as_deref()),
        Value::Uuid(o) => d(K::Uuid, o.as_deref()),
        Value::Decimal(o) => d(K::Decimal, o.as_deref()),
        Value::BigDecimal(o) => d(K::BigDecimal, o.as_deref()),
        Value::Array(t, o) => Desc {
            kind: Kind::A(arr_k(t)),
            canon: o.as_ref().map(|items| {
                canon_items(items.iter().map(|i| {
                    let d = describe(i);
                    (d.kind, d.canon)
                }))
            }),
        },
        Value::Vector(o) => d(K::Vector, o.as_deref()),
        Value::IpNetwork(o) => d(K::IpNetwork, o.as_deref()),
        Value::MacAddress(o) => d(K::MacAddress, o.as_deref()),
    }
}

/// the `is_*` predicates sea-query offers, with the kind each one names (None = `is_array`)
pub fn is_flags(v: &Value) -> Vec<(Option<K>, bool)> {
    vec![
        (Some(K::Json), v.is_json()),
        (Some(K::ChronoDate), v.is_chrono_date()),
        (Some(K::ChronoTime), v.is_chrono_time()),
        (Some(K::ChronoDateTime), v.is_chrono_date_time()),
        (Some(K::ChronoDateTimeUtc), v.is_chrono_date_time_utc()),
        (Some(K::ChronoDateTimeLocal), v.is_chrono_date_time_local()),
        (Some(K::ChronoDateTimeWithTimeZone), v.is_chrono_date_time_with_time_zone()),
        (Some(K::TimeDate), v.is_time_date()),
        (Some(K::TimeTime), v.is_time_time()),
        (Some(K::TimeDateTime), v.is_time_date_time()),
        (Some(K::TimeDateTimeWithTimeZone), v.is_time_date_time_with_time_zone()),
        (Some(K::Decimal), v.is_decimal()),
        (Some(K::BigDecimal), v.is_big_decimal()),
        (Some(K::Uuid), v.is_uuid()),
        (Some(K::IpNetwork), v.is_ipnetwork()),
        (Some(K::MacAddress), v.is_mac_address()),
        (None, v.is_array()),
    ]
}

// ------------------------------------------------------------------------------------------------
// supported Rust types

pub trait Ty: Sized + Clone + Canon + ValueType + Into<Value> + 'static {
    const NAME: &'static str;
    /// the variant whose payload type is `Self` (read off the `Value` enum definition)
    fn kind() -> Kind;
    fn from_x(x: &X) -> Option<Self>;
    /// the `as_ref_*` accessor of this type's variant, if there is one (only called on that variant)
    fn as_ref_canon(_v: &Value) -> Option<Option<String>> {
        None
    }
}

macro_rules! ty {
    ($T:ty, $name:expr, $k:ident, $x:ident => $from:expr) => {
        impl Ty for $T {
            const NAME: &'static str = $name;
            fn kind() -> Kind { Kind::S(K::$k) }
            fn from_x($x: &X) -> Option<Self> { $from }
        }
    };
    ($T:ty, $name:expr, $k:ident, $x:ident => $from:expr, $v:ident => $acc:expr) => {
        impl Ty for $T {
            const NAME: &'static str = $name;
            fn kind() -> Kind { Kind::S(K::$k) }
            fn from_x($x: &X) -> Option<Self> { $from }
            fn as_ref_canon($v: &Value) -> Option<Option<String>> { Some($acc.map(|r| r.canon())) }
        }
    };
}

macro_rules! copy_ty {
    ($T:ty, $name:expr, $k:ident, $var:ident) => {
        ty!($T, $name, $k, x => match x { X::$var(v) => Some(*v), _ => None });
    };
}
copy_ty!(bool, "bool", Bool, Bool);
copy_ty!(i8, "i8", TinyInt, I8);
copy_ty!(i16, "i16", SmallInt, I16);
copy_ty!(i32, "i32", Int, I32);
copy_ty!(i64, "i64", BigInt, I64);
copy_ty!(u8, "u8", TinyUnsigned, U8);
copy_ty!(u16, "u16", SmallUnsigned, U16);
copy_ty!(u32, "u32", Unsigned, U32);
copy_ty!(u64, "u64", BigUnsigned, U64);
ty!(f32, "f32", Float, x => match x { X::F32(b) => Some(f32::from_bits(*b)), _ => None });
ty!(f64, "f64", Double, x => match x { X::F64(b) => Some(f64::from_bits(*b)), _ => None });
ty!(char, "char", Char, x => match x { X::Char(c) => char::from_u32(*c), _ => None });
ty!(String, "String", String, x => match x { X::Str(s) => Some(s.clone()), _ => None });
ty!(Cow<'static, str>, "Cow<str>", String, x => match x {
    X::Cow(s, true) => Some(Cow::Owned(s.clone())),
    // a borrowed Cow needs a 'static str: leak-free alternative is an owned one with the same text;
    // the borrowed form is exercised separately with a local lifetime (see check_strings)
    X::Cow(s, false) => Some(Cow::Owned(s.clone())),
    _ => None
});
ty!(Vec<u8>, "Vec<u8>", Bytes, x => match x { X::Bytes(b) => Some(b.clone()), _ => None });
ty!(J, "Json", Json, x => match x { X::Json(j) => Some(j.clone()), _ => None }, v => v.as_ref_json());

pub fn c_date(days: i32) -> Option<chrono::NaiveDate> {
    chrono::NaiveDate::from_num_days_from_ce_opt(days)
}
pub fn c_time(secs: u32, nano: u32) -> Option<chrono::NaiveTime> {
    chrono::NaiveTime::from_num_seconds_from_midnight_opt(secs, nano)
}
pub fn c_dt(days: i32, secs: u32, nano: u32) -> Option<chrono::NaiveDateTime> {
    Some(c_date(days)?.and_time(c_time(secs, nano)?))
}
ty!(chrono::NaiveDate, "NaiveDate", ChronoDate, x => match x { X::CDate(d) => c_date(*d), _ => None },
    v => v.as_ref_chrono_date());
ty!(chrono::NaiveTime, "NaiveTime", ChronoTime, x => match x { X::CTime(s, n) => c_time(*s, *n), _ => None },
    v => v.as_ref_chrono_time());
ty!(chrono::NaiveDateTime, "NaiveDateTime", ChronoDateTime,
    x => match x { X::CDateTime(d, s, n) => c_dt(*d, *s, *n), _ => None },
    v => v.as_ref_chrono_date_time());
ty!(chrono::DateTime<chrono::Utc>, "DateTime<Utc>", ChronoDateTimeUtc,
    x => match x {
        X::CUtc(d, s, n) => Some(chrono::DateTime::<chrono::Utc>::from_naive_utc_and_offset(c_dt(*d, *s, *n)?, chrono::Utc)),
        _ => None
    },
    v => v.as_ref_chrono_date_time_utc());
ty!(chrono::DateTime<chrono::Local>, "DateTime<Local>", ChronoDateTimeLocal,
    x => match x {
        X::CLocal(d, s, n) => {
            use chrono::TimeZone;
            Some(chrono::Local.from_utc_datetime(&c_dt(*d, *s, *n)?))
        }
        _ => None
    },
    v => v.as_ref_chrono_date_time_local());
ty!(chrono::DateTime<chrono::FixedOffset>, "DateTime<FixedOffset>", ChronoDateTimeWithTimeZone,
    x => match x {
        X::CFixed(d, s, n, off) => Some(chrono::DateTime::<chrono::FixedOffset>::from_naive_utc_and_offset(
            c_dt(*d, *s, *n)?,
            chrono::FixedOffset::east_opt(*off)?,
        )),
        _ => None
    },
    v => v.as_ref_chrono_date_time_with_time_zone());

pub fn t_date(j: i32) -> Option<time::Date> {
    time::Date::from_julian_day(j).ok()
}
pub fn t_time(h: u8, m: u8, s: u8, n: u32) -> Option<time::Time> {
    time::Time::from_hms_nano(h, m, s, n).ok()
}
ty!(time::Date, "time::Date", TimeDate, x => match x { X::TDate(j) => t_date(*j), _ => None },
    v => v.as_ref_time_date());
ty!(time::Time, "time::Time", TimeTime, x => match x { X::TTime(h, m, s, n) => t_time(*h, *m, *s, *n), _ => None },
    v => v.as_ref_time_time());
ty!(time::PrimitiveDateTime, "PrimitiveDateTime", TimeDateTime,
    x => match x {
        X::TDateTime(j, h, m, s, n) => Some(time::PrimitiveDateTime::new(t_date(*j)?, t_time(*h, *m, *s, *n)?)),
        _ => None
    },
    v => v.as_ref_time_date_time());
ty!(time::OffsetDateTime, "OffsetDateTime", TimeDateTimeWithTimeZone,
    x => match x {
        X::TOffset(j, h, m, s, n, off) => Some(
            time::PrimitiveDateTime::new(t_date(*j)?, t_time(*h, *m, *s, *n)?)
                .assume_offset(time::UtcOffset::from_whole_seconds(*off).ok()?),
        ),
        _ => None
    },
    v => v.as_ref_time_date_time_with_time_zone());
ty!(rust_decimal::Decimal, "Decimal", Decimal,
    x => match x {
        X::Dec { lo, mid, hi, neg, scale } if *scale <= 28 => Some(rust_decimal::Decimal::from_parts(*lo, *mid, *hi, *neg, *scale)),
        _ => None
    },
    v => v.as_ref_decimal());
ty!(bigdecimal::BigDecimal, "BigDecimal", BigDecimal,
    x => match x {
        X::BigDec { digits, scale } => {
            let b: bigdecimal::num_bigint::BigInt = digits.parse().ok()?;
            Some(bigdecimal::BigDecimal::new(b, *scale))
        }
        _ => None
    },
    v => v.as_ref_big_decimal());
pub fn u128_of(hi: u64, lo: u64) -> u128 {
    ((hi as u128) << 64) | lo as u128
}
ty!(uuid::Uuid, "Uuid", Uuid, x => match x { X::Uuid(h, l) => Some(uuid::Uuid::from_u128(u128_of(*h, *l))), _ => None },
    v => v.as_ref_uuid());
ty!(uuid::fmt::Braced, "uuid::fmt::Braced", Uuid,
    x => match x { X::Braced(h, l) => Some(uuid::Uuid::from_u128(u128_of(*h, *l)).braced()), _ => None });
ty!(uuid::fmt::Hyphenated, "uuid::fmt::Hyphenated", Uuid,
    x => match x { X::Hyph(h, l) => Some(uuid::Uuid::from_u128(u128_of(*h, *l)).hyphenated()), _ => None });
ty!(uuid::fmt::Simple, "uuid::fmt::Simple", Uuid,
    x => match x { X::Simple(h, l) => Some(uuid::Uuid::from_u128(u128_of(*h, *l)).simple()), _ => None });
ty!(uuid::fmt::Urn, "uuid::fmt::Urn", Uuid,
    x => match x { X::Urn(h, l) => Some(uuid::Uuid::from_u128(u128_of(*h, *l)).urn()), _ => None });
ty!(ipnetwork::IpNetwork, "IpNetwork", IpNetwork,
    x => match x {
        X::Ip { v6, hi, lo, prefix } => {
            let addr: std::net::IpAddr = if *v6 {
                std::net::Ipv6Addr::from(u128_of(*hi, *lo)).into()
            } else {
                std::net::Ipv4Addr::from(*lo as u32).into()
            };
            ipnetwork::IpNetwork::new(addr, *prefix).ok()
        }
        _ => None
    },
    v => v.as_ref_ipnetwork());
ty!(mac_address::MacAddress, "MacAddress", MacAddress,
    x => match x { X::Mac(b) => Some(mac_address::MacAddress::new(*b)), _ => None },
    v => v.as_ref_mac_address());
ty!(pgvector::Vector, "pgvector::Vector", Vector,
    x => match x { X::Vector(b) => Some(pgvector::Vector::from(b.iter().map(|b| f32::from_bits(*b)).collect::<Vec<f32>>())), _ => None });

fn elem_k<E: Ty>() -> K {
    match E::kind() {
        Kind::S(k) => k,
        Kind::A(k) => k,
    }
}

macro_rules! arr_ty {
    ($($E:ty => $name:expr),* $(,)?) => { $(
        impl Canon for Vec<$E> {
            fn canon(&self) -> String {
                canon_items(self.iter().map(|e| (Kind::S(elem_k::<$E>()), Some(e.canon()))))
            }
        }
        impl Ty for Vec<$E> {
            const NAME: &'static str = $name;
            fn kind() -> Kind { Kind::A(elem_k::<$E>()) }
            fn from_x(x: &X) -> Option<Self> {
                match x {
                    X::Arr(_, items) => items.iter().map(<$E as Ty>::from_x).collect(),
                    _ => None,
                }
            }
            fn as_ref_canon(v: &Value) -> Option<Option<String>> {
                Some(v.as_ref_array().map(|items| canon_items(items.iter().map(|i| { let d = describe(i); (d.kind, d.canon) }))))
            }
        }
    )* };
}
arr_ty!(
    bool => "Vec<bool>", i8 => "Vec<i8>", i16 => "Vec<i16>", i32 => "Vec<i32>", i64 => "Vec<i64>",
    u16 => "Vec<u16>", u32 => "Vec<u32>", u64 => "Vec<u64>", f32 => "Vec<f32>", f64 => "Vec<f64>",
    char => "Vec<char>", String => "Vec<String>", Vec<u8> => "Vec<Vec<u8>>", J => "Vec<Json>",
    chrono::NaiveDate => "Vec<NaiveDate>", chrono::NaiveTime => "Vec<NaiveTime>",
    chrono::NaiveDateTime => "Vec<NaiveDateTime>", chrono::DateTime<chrono::Utc> => "Vec<DateTime<Utc>>",
    chrono::DateTime<chrono::Local> => "Vec<DateTime<Local>>",
    chrono::DateTime<chrono::FixedOffset> => "Vec<DateTime<FixedOffset>>",
    time::Date => "Vec<time::Date>", time::Time => "Vec<time::Time>",
    time::PrimitiveDateTime => "Vec<PrimitiveDateTime>", time::OffsetDateTime => "Vec<OffsetDateTime>",
    rust_decimal::Decimal => "Vec<Decimal>", bigdecimal::BigDecimal => "Vec<BigDecimal>",
    uuid::Uuid => "Vec<Uuid>", uuid::fmt::Braced => "Vec<uuid::fmt::Braced>",
    uuid::fmt::Hyphenated => "Vec<uuid::fmt::Hyphenated>", uuid::fmt::Simple => "Vec<uuid::fmt::Simple>",
    uuid::fmt::Urn => "Vec<uuid::fmt::Urn>", ipnetwork::IpNetwork => "Vec<IpNetwork>",
    mac_address::MacAddress => "Vec<MacAddress>",
);

// ------------------------------------------------------------------------------------------------
// dispatch from the description to the static type

pub trait Visit {
    fn nullable<T: Ty + Nullable>(&mut self, x: T) -> R;
    /// types without `Nullable` (only `Cow<str>`)
    fn plain<T: Ty>(&mut self, x: T) -> R;
}

pub fn dispatch<V: Visit>(x: &X, v: &mut V) -> R {
    macro_rules! go {
        ($T:ty) => {
            match <$T as Ty>::from_x(x) {
                Some(t) => v.nullable::<$T>(t),
                None => discard("description is not a value of the type"),
            }
        };
    }
    macro_rules! by_tag {
        ($tag:expr, $wrap:ident) => {
            match $tag {
                Tag::Bool => go!($wrap<bool>),
                Tag::I8 => go!($wrap<i8>),
                Tag::I16 => go!($wrap<i16>),
                Tag::I32 => go!($wrap<i32>),
                Tag::I64 => go!($wrap<i64>),
                Tag::U16 => go!($wrap<u16>),
                Tag::U32 => go!($wrap<u32>),
                Tag::U64 => go!($wrap<u64>),
                Tag::F32 => go!($wrap<f32>),
                Tag::F64 => go!($wrap<f64>),
                Tag::Char => go!($wrap<char>),
                Tag::Str => go!($wrap<String>),
                Tag::Bytes => go!($wrap<Vec<u8>>),
                Tag::Json => go!($wrap<J>),
                Tag::CDate => go!($wrap<chrono::NaiveDate>),
                Tag::CTime => go!($wrap<chrono::NaiveTime>),
                Tag::CDateTime => go!($wrap<chrono::NaiveDateTime>),
                Tag::CUtc => go!($wrap<chrono::DateTime<chrono::Utc>>),
                Tag::CLocal => go!($wrap<chrono::DateTime<chrono::Local>>),
                Tag::CFixed => go!($wrap<chrono::DateTime<chrono::FixedOffset>>),
                Tag::TDate => go!($wrap<time::Date>),
                Tag::TTime => go!($wrap<time::Time>),
                Tag::TDateTime => go!($wrap<time::PrimitiveDateTime>),
                Tag::TOffset => go!($wrap<time::OffsetDateTime>),
                Tag::Dec => go!($wrap<rust_decimal::Decimal>),
                Tag::BigDec => go!($wrap<bigdecimal::BigDecimal>),
                Tag::Uuid => go!($wrap<uuid::Uuid>),
                Tag::Braced => go!($wrap<uuid::fmt::Braced>),
                Tag::Hyph => go!($wrap<uuid::fmt::Hyphenated>),
                Tag::Simple => go!($wrap<uuid::fmt::Simple>),
                Tag::Urn => go!($wrap<uuid::fmt::Urn>),
                Tag::Ip => go!($wrap<ipnetwork::IpNetwork>),
                Tag::Mac => go!($wrap<mac_address::MacAddress>),
                Tag::U8 | Tag::Cow | Tag::Vector => discard("no array conversion exists for this element type"),
            }
        };
    }
    match x {
        X::Arr(tag, items) => {
            if items.iter().any(|i| i.tag() != Some(*tag)) {
                return discard("array description is not homogeneous");
            }
            by_tag!(*tag, Vec)
        }
        X::U8(_) => go!(u8),
        X::Vector(_) => go!(pgvector::Vector),
        X::Cow(..) => match <Cow<'static, str> as Ty>::from_x(x) {
            Some(t) => v.plain(t),
            None => discard("description is not a value of the type"),
        },
        other => {
            let tag = other.tag().expect("scalar");
            by_tag!(tag, Id)
        }
    }
}
type Id<T> = T;

// ------------------------------------------------------------------------------------------------
// target types: every supported T, as T and as Option<T>

#[derive(Clone, Debug, PartialEq, Eq)]
pub enum Probe {
    Err,
    Val(String),
    None,
}

pub struct Target {
    pub name: &'static str,
    pub kind: Kind,
    pub plain: fn(Value) -> Probe,
    pub opt: Option<fn(Value) -> Probe>,
}

fn probe<U: Ty>(v: Value) -> Probe {
    match <U as ValueType>::try_from(v) {
        Ok(u) => Probe::Val(u.canon()),
        Err(_) => Probe::Err,
    }
}
fn probe_opt<U: Ty + Nullable>(v: Value) -> Probe {
    match <Option<U> as ValueType>::try_from(v) {
        Ok(Some(u)) => Probe::Val(u.canon()),
        Ok(None) => Probe::None,
        Err(_) => Probe::Err,
    }
}

pub fn targets() -> &'static Vec<Target> {
    static T: OnceLock<Vec<Target>> = OnceLock::new();
    T.get_or_init(|| {
        let mut v: Vec<Target> = vec![];
        macro_rules! t {
            ($($U:ty),* $(,)?) => { $(
                v.push(Target { name: <$U as Ty>::NAME, kind: <$U as Ty>::kind(), plain: probe::<$U>, opt: Some(probe_opt::<$U>) });
            )* };
        }
        macro_rules! ta {
            ($($U:ty),* $(,)?) => { $( t!($U); t!(Vec<$U>); )* };
        }
        ta!(
            bool, i8, i16, i32, i64, u16, u32, u64, f32, f64, char, String, Vec<u8>, J,
            chrono::NaiveDate, chrono::NaiveTime, chrono::NaiveDateTime, chrono::DateTime<chrono::Utc>,
            chrono::DateTime<chrono::Local>, chrono::DateTime<chrono::FixedOffset>,
            time::Date, time::Time, time::PrimitiveDateTime, time::OffsetDateTime,
            rust_decimal::Decimal, bigdecimal::BigDecimal,
            uuid::Uuid, uuid::fmt::Braced, uuid::fmt::Hyphenated, uuid::fmt::Simple, uuid::fmt::Urn,
            ipnetwork::IpNetwork, mac_address::MacAddress,
        );
        t!(u8, pgvector::Vector);
        v.push(Target {
            name: <Cow<'static, str> as Ty>::NAME,
            kind: <Cow<'static, str> as Ty>::kind(),
            plain: probe::<Cow<'static, str>>,
            opt: None,
        });
        v
    })
}

/// The verdict for extracting `v` (described by the oracle as `src_kind`/`src_canon`, built from a
/// value of Rust type `src_name`) as the target type (or its Option).
pub fn judge(src_name: &str, src_kind: Kind, src_canon: Option<&str>, t: &Target, opt: bool, v: &Value) -> R {
    let f = if opt { t.opt.expect("target has an Option form") } else { t.plain };
    let what = if opt { format!("Option<{}>", t.name) } else { t.name.to_string() };
    let arg = v.clone();
    let p = guard(&format!("try_from/{what}"), move || f(arg))?;
    let same_kind = t.kind == src_kind;
    let same_type = t.name == src_name;
    let src = || format!("{src_name} {} ({src_kind:?})", src_canon.map(|c| format!("value {c:?}")).unwrap_or_else(|| "NULL".into()));
    match (same_kind, src_canon, p) {
        (false, _, Probe::Err) => Ok(()),
        (false, _, Probe::Val(g)) => fail(
            format!("cross/as-{what}"),
            format!("{} extracted as {what} returned the value {g:?} instead of failing", src()),
        ),
        (false, _, Probe::None) => fail(
            format!("cross-none/as-{what}"),
            format!("{} extracted as {what} returned None instead of failing", src()),
        ),
        (true, Some(c), Probe::Val(g)) => {
            if g == c {
                Ok(())
            } else if same_type {
                fail(format!("roundtrip/{what}"), format!("{} came back as {g:?}", src()))
            } else {
                fail(format!("same-variant/{what}"), format!("{} extracted as {what} gave {g:?}", src()))
            }
        }
        (true, Some(_), Probe::Err) => {
            if same_type {
                fail(format!("roundtrip-err/{what}"), format!("{} could not be extracted as its own type", src()))
            } else {
                Ok(()) // another Rust type of the same variant may refuse; it must only not lie
            }
        }
        (true, Some(_), Probe::None) => {
            fail(format!("some-as-none/{what}"), format!("{} (present) extracted as absent", src()))
        }
        (true, None, Probe::Err) => {
            if opt && same_type {
                fail(format!("none-extract/{what}"), format!("{} did not extract as None", src()))
            } else {
                Ok(())
            }
        }
        (true, None, Probe::None) => Ok(()),
        (true, None, Probe::Val(g)) => {
            fail(format!("null-as-value/{what}"), format!("{} extracted as {what} returned the value {g:?}", src()))
        }
    }
}
