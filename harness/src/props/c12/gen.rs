//! C12 generators: boundary lists, proptest strategies per source type, non-triviality classes.

use super::model::*;
use proptest::collection::{btree_map, vec};
use proptest::prelude::*;
use proptest::sample::select;
use proptest::strategy::Union;
use serde_json::Value as J;

pub fn cdate_min() -> i32 {
    use chrono::Datelike;
    chrono::NaiveDate::MIN.num_days_from_ce()
}
pub fn cdate_max() -> i32 {
    use chrono::Datelike;
    chrono::NaiveDate::MAX.num_days_from_ce()
}
pub fn tdate_min() -> i32 {
    time::Date::MIN.to_julian_day()
}
pub fn tdate_max() -> i32 {
    time::Date::MAX.to_julian_day()
}
/// ±25:59:59, the documented range of `time::UtcOffset`
pub const TOFF_MAX: i32 = 25 * 3600 + 59 * 60 + 59;
/// `chrono::FixedOffset::east_opt` accepts -86399..=86399
pub const COFF_MAX: i32 = 86_399;
const UNIX_CE: i32 = 719_163;
const UNIX_JULIAN: i32 = 2_440_588;

pub const F32_SPECIAL: [u32; 22] = [
    0x0000_0000, // +0
    0x8000_0000, // -0
    0x7f80_0000, // +inf
    0xff80_0000, // -inf
    0x7fc0_0000, // quiet NaN
    0xffc0_0000, // -quiet NaN
    0x7f80_0001, // signalling NaN, smallest payload
    0x7fbf_ffff, // signalling NaN, largest payload
    0x7fff_ffff, // quiet NaN, all payload bits
    0xffff_ffff,
    0xff80_0001,
    0x7fc0_0001,
    0x0000_0001, // smallest subnormal
    0x007f_ffff, // largest subnormal
    0x8000_0001,
    0x807f_ffff,
    0x0080_0000, // MIN_POSITIVE
    0x7f7f_ffff, // MAX
    0xff7f_ffff, // MIN
    0x3f80_0000, // 1
    0xbf80_0000, // -1
    0x3400_0000, // EPSILON
];

pub const F64_SPECIAL: [u64; 22] = [
    0x0000_0000_0000_0000,
    0x8000_0000_0000_0000,
    0x7ff0_0000_0000_0000,
    0xfff0_0000_0000_0000,
    0x7ff8_0000_0000_0000,
    0xfff8_0000_0000_0000,
    0x7ff0_0000_0000_0001,
    0x7ff7_ffff_ffff_ffff,
    0x7fff_ffff_ffff_ffff,
    0xffff_ffff_ffff_ffff,
    0xfff0_0000_0000_0001,
    0x7ff8_0000_0000_0001,
    0x0000_0000_0000_0001,
    0x000f_ffff_ffff_ffff,
    0x8000_0000_0000_0001,
    0x800f_ffff_ffff_ffff,
    0x0010_0000_0000_0000,
    0x7fef_ffff_ffff_ffff,
    0xffef_ffff_ffff_ffff,
    0x3ff0_0000_0000_0000,
    0xbff0_0000_0000_0000,
    0x3cb0_0000_0000_0000,
];

pub const CHAR_SPECIAL: [u32; 22] = [
    0, 1, 0x27, 0x5c, 0x7f, 0x80, 0xff, 0x7ff, 0x800, 0xd7ff, 0xe000, 0xfffd, 0xfffe, 0xffff, 0x10000, 0x1f600, 0x1ffff,
    0x20000, 0xe0001, 0xfffff, 0x100000, 0x10ffff,
];

fn special_strings() -> Vec<String> {
    vec![
        String::new(),
        "\0".into(),
        "'".into(),
        "a".into(),
        "\u{10ffff}".into(),
        "\u{1f600}\u{10000}".into(),
        "NULL".into(),
        "é\u{fffd}\u{ffff}".into(),
        " ".into(),
        "x".repeat(4096),
    ]
}

/// Boundary / corner values of every source type (used by the strategies, the corner list and the table).
pub fn boundaries(tag: Tag) -> Vec<X> {
    match tag {
        Tag::Bool => vec![X::Bool(false), X::Bool(true)],
        Tag::I8 => [0, -1, i8::MIN, i8::MAX, 1].iter().map(|v| X::I8(*v)).collect(),
        Tag::I16 => [0, -1, i16::MIN, i16::MAX, 1, 127, 128, -128, -129, 255, 256].iter().map(|v| X::I16(*v)).collect(),
        Tag::I32 => [0, -1, i32::MIN, i32::MAX, 1, 32767, 32768, -32768, -32769, 65535, 65536, i32::MIN + 1, i32::MAX - 1]
            .iter()
            .map(|v| X::I32(*v))
            .collect(),
        Tag::I64 => [
            0,
            -1,
            i64::MIN,
            i64::MAX,
            1,
            i32::MAX as i64,
            i32::MAX as i64 + 1,
            i32::MIN as i64,
            i32::MIN as i64 - 1,
            u32::MAX as i64,
            u32::MAX as i64 + 1,
            i64::MIN + 1,
            i64::MAX - 1,
            1 << 53,
        ]
        .iter()
        .map(|v| X::I64(*v))
        .collect(),
        Tag::U8 => [0, u8::MAX, 1, 127, 128].iter().map(|v| X::U8(*v)).collect(),
        Tag::U16 => [0, u16::MAX, 1, 255, 256, 32767, 32768].iter().map(|v| X::U16(*v)).collect(),
        Tag::U32 => [0, u32::MAX, 1, 65535, 65536, i32::MAX as u32, i32::MAX as u32 + 1].iter().map(|v| X::U32(*v)).collect(),
        Tag::U64 => [0, u64::MAX, 1, u32::MAX as u64, u32::MAX as u64 + 1, i64::MAX as u64, i64::MAX as u64 + 1, u64::MAX - 1]
            .iter()
            .map(|v| X::U64(*v))
            .collect(),
        Tag::F32 => F32_SPECIAL.iter().map(|b| X::F32(*b)).collect(),
        Tag::F64 => F64_SPECIAL.iter().map(|b| X::F64(*b)).collect(),
        Tag::Char => CHAR_SPECIAL.iter().map(|c| X::Char(*c)).collect(),
        Tag::Str => special_strings().into_iter().map(X::Str).collect(),
        Tag::Cow => special_strings().into_iter().enumerate().map(|(i, s)| X::Cow(s, i % 2 == 0)).collect(),
        Tag::Bytes => vec![
            X::Bytes(vec![]),
            X::Bytes(vec![0]),
            X::Bytes(vec![0xff]),
            X::Bytes(vec![0xff, 0xfe, 0x00, 0x80]),
            X::Bytes((0..=255).collect()),
            X::Bytes(vec![0x27; 3000]),
        ],
        Tag::Json => vec![
            X::Json(J::Null),
            X::Json(serde_json::json!([])),
            X::Json(serde_json::json!({})),
            X::Json(serde_json::json!("")),
            X::Json(serde_json::json!(false)),
            X::Json(serde_json::json!(0)),
            X::Json(serde_json::json!(-0.0)),
            X::Json(serde_json::json!(u64::MAX)),
            X::Json(serde_json::json!(i64::MIN)),
            X::Json(serde_json::json!(1.7976931348623157e308)),
            X::Json(serde_json::json!(5e-324)),
            X::Json(serde_json::json!("\u{10ffff}\u{0}'")),
            X::Json(serde_json::json!({"": [null, {"a": [[], {}]}], "\u{1f600}": -1})),
        ],
        Tag::CDate => [cdate_min(), cdate_max(), 0, 1, -1, UNIX_CE, cdate_min() + 1, cdate_max() - 1, 730_179]
            .iter()
            .map(|d| X::CDate(*d))
            .collect(),
        Tag::CTime => vec![
            X::CTime(0, 0),
            X::CTime(86_399, 999_999_999),
            X::CTime(86_399, 1_999_999_999),
            X::CTime(59, 1_000_000_000),
            X::CTime(43_200, 1),
            X::CTime(1, 0),
        ],
        Tag::CDateTime => vec![
            X::CDateTime(cdate_min(), 0, 0),
            X::CDateTime(cdate_max(), 86_399, 999_999_999),
            X::CDateTime(cdate_max(), 86_399, 1_999_999_999),
            X::CDateTime(UNIX_CE, 0, 0),
            X::CDateTime(UNIX_CE - 1, 86_399, 999_999_999),
            X::CDateTime(0, 0, 0),
        ],
        Tag::CUtc => vec![
            X::CUtc(cdate_min(), 0, 0),
            X::CUtc(cdate_max(), 86_399, 999_999_999),
            X::CUtc(UNIX_CE, 0, 0),
            X::CUtc(UNIX_CE - 1, 86_399, 999_999_999),
            X::CUtc(cdate_max(), 86_399, 1_999_999_999),
            X::CUtc(1, 0, 0),
        ],
        Tag::CLocal => vec![
            X::CLocal(cdate_min() + 366, 0, 0),
            X::CLocal(cdate_max() - 366, 86_399, 999_999_999),
            X::CLocal(UNIX_CE, 0, 0),
            X::CLocal(UNIX_CE - 1, 86_399, 999_999_999),
            X::CLocal(738_000, 7_200, 500),
        ],
        Tag::CFixed => vec![
            X::CFixed(UNIX_CE, 0, 0, 0),
            X::CFixed(cdate_min(), 0, 0, COFF_MAX),
            X::CFixed(cdate_max(), 86_399, 999_999_999, -COFF_MAX),
            X::CFixed(cdate_min(), 0, 0, -COFF_MAX),
            X::CFixed(cdate_max(), 86_399, 999_999_999, COFF_MAX),
            X::CFixed(737_425, 7_322, 0, 8 * 3600),
            X::CFixed(737_425, 7_322, 0, -1),
            X::CFixed(737_425, 7_322, 0, 1),
        ],
        Tag::TDate => [tdate_min(), tdate_max(), UNIX_JULIAN, 0, tdate_min() + 1, tdate_max() - 1, 1_721_426]
            .iter()
            .map(|d| X::TDate(*d))
            .collect(),
        Tag::TTime => vec![X::TTime(0, 0, 0, 0), X::TTime(23, 59, 59, 999_999_999), X::TTime(12, 0, 0, 1), X::TTime(0, 0, 1, 0)],
        Tag::TDateTime => vec![
            X::TDateTime(tdate_min(), 0, 0, 0, 0),
            X::TDateTime(tdate_max(), 23, 59, 59, 999_999_999),
            X::TDateTime(UNIX_JULIAN, 0, 0, 0, 0),
            X::TDateTime(UNIX_JULIAN - 1, 23, 59, 59, 999_999_999),
        ],
        Tag::TOffset => vec![
            X::TOffset(UNIX_JULIAN, 0, 0, 0, 0, 0),
            X::TOffset(tdate_min() + 2, 0, 0, 0, 0, TOFF_MAX),
            X::TOffset(tdate_max() - 2, 23, 59, 59, 999_999_999, -TOFF_MAX),
            X::TOffset(tdate_min() + 2, 0, 0, 0, 0, -TOFF_MAX),
            X::TOffset(tdate_max() - 2, 23, 59, 59, 999_999_999, TOFF_MAX),
            X::TOffset(2_458_850, 2, 2, 2, 0, 8 * 3600),
            X::TOffset(2_458_850, 2, 2, 2, 0, -1),
            X::TOffset(2_458_850, 2, 2, 2, 0, 1),
        ],
        Tag::Dec => vec![
            X::Dec { lo: 0, mid: 0, hi: 0, neg: false, scale: 0 },
            X::Dec { lo: u32::MAX, mid: u32::MAX, hi: u32::MAX, neg: false, scale: 0 },
            X::Dec { lo: u32::MAX, mid: u32::MAX, hi: u32::MAX, neg: true, scale: 0 },
            X::Dec { lo: 0, mid: 0, hi: 0, neg: true, scale: 28 },
            X::Dec { lo: 1, mid: 0, hi: 0, neg: false, scale: 28 },
            X::Dec { lo: 1, mid: 0, hi: 0, neg: true, scale: 0 },
            X::Dec { lo: 100, mid: 0, hi: 0, neg: false, scale: 2 },
            X::Dec { lo: 1, mid: 0, hi: 0, neg: false, scale: 0 },
            X::Dec { lo: u32::MAX, mid: u32::MAX, hi: u32::MAX, neg: true, scale: 28 },
            X::Dec { lo: 202, mid: 0, hi: 0, neg: false, scale: 2 },
        ],
        Tag::BigDec => vec![
            X::BigDec { digits: "0".into(), scale: 0 },
            X::BigDec { digits: "-1".into(), scale: 0 },
            X::BigDec { digits: "100".into(), scale: 2 },
            X::BigDec { digits: "1".into(), scale: -2 },
            X::BigDec { digits: "0".into(), scale: 5 },
            X::BigDec { digits: "1".into(), scale: i64::MAX },
            X::BigDec { digits: "-1".into(), scale: i64::MIN },
            X::BigDec { digits: "123456789012345678901234567890123456789012345678901234567890".into(), scale: 30 },
            X::BigDec { digits: "-79228162514264337593543950336".into(), scale: 29 },
        ],
        Tag::Uuid => vec![X::Uuid(0, 0), X::Uuid(u64::MAX, u64::MAX), X::Uuid(0x936d_a01f_9abd_4d9d, 0x80c7_02af_85c8_22a8), X::Uuid(0, 1)],
        Tag::Braced => vec![X::Braced(0, 0), X::Braced(u64::MAX, u64::MAX), X::Braced(0x936d_a01f_9abd_4d9d, 0x80c7_02af_85c8_22a8)],
        Tag::Hyph => vec![X::Hyph(0, 0), X::Hyph(u64::MAX, u64::MAX), X::Hyph(0x936d_a01f_9abd_4d9d, 0x80c7_02af_85c8_22a8)],
        Tag::Simple => vec![X::Simple(0, 0), X::Simple(u64::MAX, u64::MAX), X::Simple(0x936d_a01f_9abd_4d9d, 0x80c7_02af_85c8_22a8)],
        Tag::Urn => vec![X::Urn(0, 0), X::Urn(u64::MAX, u64::MAX), X::Urn(0x936d_a01f_9abd_4d9d, 0x80c7_02af_85c8_22a8)],
        Tag::Ip => vec![
            X::Ip { v6: false, hi: 0, lo: 0, prefix: 0 },
            X::Ip { v6: false, hi: 0, lo: u32::MAX as u64, prefix: 32 },
            X::Ip { v6: true, hi: 0, lo: 0, prefix: 0 },
            X::Ip { v6: true, hi: u64::MAX, lo: u64::MAX, prefix: 128 },
            X::Ip { v6: false, hi: 0, lo: 0xc0a8_0117, prefix: 8 }, // host bits set
            X::Ip { v6: true, hi: 0, lo: 1, prefix: 0 },
            X::Ip { v6: true, hi: 0, lo: 0xffff_c0a8_0101, prefix: 96 },
        ],
        Tag::Mac => vec![X::Mac([0; 6]), X::Mac([0xff; 6]), X::Mac([0, 0x1b, 0x44, 0x11, 0x3a, 0xb7]), X::Mac([1, 0, 0, 0, 0, 0])],
        Tag::Vector => vec![
            X::Vector(vec![]),
            X::Vector(vec![0x7fc0_0000]),
            X::Vector(vec![0, 0x8000_0000, 0x7f80_0000, 0xff80_0000]),
            X::Vector(vec![0x3f80_0000, 0x4000_0000, 0x4040_0000]),
            X::Vector(vec![0xffff_ffff, 0x7f80_0001, 1]),
        ],
    }
}

/// Does the value satisfy the non-triviality rule (boundary, NaN, non-BMP, empty)? Returns the class.
pub fn nt_class(x: &X) -> Option<&'static str> {
    fn b(c: bool) -> Option<&'static str> {
        if c {
            Some("boundary")
        } else {
            None
        }
    }
    fn text(s: &str) -> Option<&'static str> {
        if s.is_empty() {
            Some("empty")
        } else if s.chars().any(|c| c as u32 > 0xffff) {
            Some("non-bmp")
        } else {
            None
        }
    }
    fn f32c(bits: u32) -> Option<&'static str> {
        let e = (bits >> 23) & 0xff;
        let m = bits & 0x7f_ffff;
        if e == 0xff && m != 0 {
            Some("nan")
        } else {
            b(e == 0xff || e == 0 || bits & 0x7fff_ffff == 0x7f7f_ffff || bits & 0x7fff_ffff == 0x0080_0000)
        }
    }
    fn f64c(bits: u64) -> Option<&'static str> {
        let e = (bits >> 52) & 0x7ff;
        let m = bits & 0xf_ffff_ffff_ffff;
        if e == 0x7ff && m != 0 {
            Some("nan")
        } else {
            b(e == 0x7ff || e == 0 || bits & !(1 << 63) == 0x7fef_ffff_ffff_ffff || bits & !(1 << 63) == 0x0010_0000_0000_0000)
        }
    }
    fn json(j: &J) -> Option<&'static str> {
        match j {
            J::Null => Some("empty"),
            J::String(s) => text(s),
            J::Array(a) if a.is_empty() => Some("empty"),
            J::Object(o) if o.is_empty() => Some("empty"),
            J::Array(a) => a.iter().find_map(json),
            J::Object(o) => o.iter().find_map(|(k, v)| text(k).or_else(|| json(v))),
            J::Number(n) => b(n.as_u64() == Some(u64::MAX) || n.as_i64() == Some(i64::MIN) || n.as_i64() == Some(0) || n.as_f64() == Some(0.0)),
            J::Bool(_) => None,
        }
    }
    let cd = |d: i32| b(d == cdate_min() || d == cdate_max());
    let td = |d: i32| b(d == tdate_min() || d == tdate_max());
    match x {
        X::Bool(_) => Some("boundary"),
        X::I8(v) => b(matches!(*v, 0 | -1 | i8::MIN | i8::MAX)),
        X::I16(v) => b(matches!(*v, 0 | -1 | i16::MIN | i16::MAX)),
        X::I32(v) => b(matches!(*v, 0 | -1 | i32::MIN | i32::MAX)),
        X::I64(v) => b(matches!(*v, 0 | -1 | i64::MIN | i64::MAX)),
        X::U8(v) => b(matches!(*v, 0 | u8::MAX)),
        X::U16(v) => b(matches!(*v, 0 | u16::MAX)),
        X::U32(v) => b(matches!(*v, 0 | u32::MAX)),
        X::U64(v) => b(matches!(*v, 0 | u64::MAX)),
        X::F32(bits) => f32c(*bits),
        X::F64(bits) => f64c(*bits),
        X::Char(c) => {
            if *c > 0xffff {
                Some("non-bmp")
            } else {
                b(matches!(*c, 0 | 0x7f | 0x80 | 0x7ff | 0x800 | 0xd7ff | 0xe000 | 0xffff))
            }
        }
        X::Str(s) | X::Cow(s, _) => text(s),
        X::Bytes(v) => {
            if v.is_empty() {
                Some("empty")
            } else {
                None
            }
        }
        X::Json(j) => json(j),
        X::CDate(d) => cd(*d),
        X::CTime(s, n) => b((*s == 0 && *n == 0) || (*s == 86_399 && *n >= 999_999_999) || *n >= 1_000_000_000),
        X::CDateTime(d, ..) | X::CUtc(d, ..) => cd(*d),
        X::CLocal(d, ..) => b(*d == cdate_min() + 366 || *d == cdate_max() - 366),
        X::CFixed(d, _, _, off) => cd(*d).or(b(off.abs() == COFF_MAX)),
        X::TDate(d) => td(*d),
        X::TTime(h, m, s, n) => b((*h == 0 && *m == 0 && *s == 0 && *n == 0) || (*h == 23 && *m == 59 && *s == 59 && *n == 999_999_999)),
        X::TDateTime(d, ..) => td(*d),
        X::TOffset(d, _, _, _, _, off) => b(*d == tdate_min() + 2 || *d == tdate_max() - 2 || off.abs() == TOFF_MAX),
        X::Dec { lo, mid, hi, scale, .. } => {
            b((*lo == 0 && *mid == 0 && *hi == 0) || (*lo == u32::MAX && *mid == u32::MAX && *hi == u32::MAX) || *scale == 28)
        }
        X::BigDec { digits, scale } => b(digits.trim_start_matches('-').chars().all(|c| c == '0') || *scale == i64::MAX || *scale == i64::MIN),
        X::Uuid(h, l) | X::Braced(h, l) | X::Hyph(h, l) | X::Simple(h, l) | X::Urn(h, l) => {
            b((*h == 0 && *l == 0) || (*h == u64::MAX && *l == u64::MAX))
        }
        X::Ip { v6, prefix, .. } => b(*prefix == 0 || (*v6 && *prefix == 128) || (!*v6 && *prefix == 32)),
        X::Mac(m) => b(*m == [0; 6] || *m == [0xff; 6]),
        X::Vector(v) => {
            if v.is_empty() {
                Some("empty")
            } else {
                v.iter().find_map(|bits| f32c(*bits))
            }
        }
        X::Arr(_, items) => {
            if items.is_empty() {
                Some("empty")
            } else {
                items.iter().find_map(nt_class)
            }
        }
    }
}

// ------------------------------------------------------------------------------------------------
// strategies

fn with_bounds(tag: Tag, w_b: u32, rest: BoxedStrategy<X>, w_r: u32) -> BoxedStrategy<X> {
    Union::new_weighted(vec![(w_b, select(boundaries(tag)).boxed()), (w_r, rest)]).boxed()
}

pub fn f32_bits() -> BoxedStrategy<u32> {
    prop_oneof![
        2 => select(F32_SPECIAL.to_vec()),
        4 => any::<u32>(),
        // NaN with random payload and sign
        2 => any::<u32>().prop_map(|b| { let m = b & 0x007f_ffff; (b & 0x8000_0000) | 0x7f80_0000 | if m == 0 { 1 } else { m } }),
        // subnormals
        1 => any::<u32>().prop_map(|b| b & 0x807f_ffff),
    ]
    .boxed()
}

pub fn f64_bits() -> BoxedStrategy<u64> {
    prop_oneof![
        2 => select(F64_SPECIAL.to_vec()),
        4 => any::<u64>(),
        2 => any::<u64>().prop_map(|b| { let m = b & 0x000f_ffff_ffff_ffff; (b & (1 << 63)) | 0x7ff0_0000_0000_0000 | if m == 0 { 1 } else { m } }),
        1 => any::<u64>().prop_map(|b| b & 0x800f_ffff_ffff_ffff),
    ]
    .boxed()
}

pub fn char_code() -> BoxedStrategy<u32> {
    prop_oneof![
        2 => select(CHAR_SPECIAL.to_vec()),
        1 => 0u32..0x80,
        1 => 0x80u32..0x800,
        2 => 0x800u32..0xd800,
        1 => 0xe000u32..0x10000,
        4 => 0x10000u32..=0x10ffff,
    ]
    .boxed()
}

fn text() -> BoxedStrategy<String> {
    let any_plane = char_code().prop_map(|c| char::from_u32(c).unwrap_or('\u{fffd}'));
    prop_oneof![
        3 => crate::util::nasty_string_nul(24),
        3 => vec(any_plane.clone(), 0..12).prop_map(|v| v.into_iter().collect::<String>()),
        1 => vec(any_plane, 0..400).prop_map(|v| v.into_iter().collect::<String>()),
        1 => Just(String::new()),
    ]
    .boxed()
}

fn bytes() -> BoxedStrategy<Vec<u8>> {
    prop_oneof![6 => vec(any::<u8>(), 0..40), 1 => vec(any::<u8>(), 0..3000), 1 => Just(vec![])].boxed()
}

pub fn json() -> BoxedStrategy<J> {
    let leaf = prop_oneof![
        1 => Just(J::Null),
        1 => any::<bool>().prop_map(J::Bool),
        2 => any::<i64>().prop_map(J::from),
        1 => any::<u64>().prop_map(J::from),
        2 => any::<f64>().prop_map(J::from),
        1 => select(vec![0.0f64, -0.0, f64::MAX, f64::MIN_POSITIVE, 5e-324, 1e21, 0.1]).prop_map(J::from),
        3 => text().prop_map(J::String),
    ];
    leaf.prop_recursive(3, 24, 4, |inner| {
        prop_oneof![
            vec(inner.clone(), 0..4).prop_map(J::Array),
            btree_map(text(), inner, 0..4).prop_map(|m| J::Object(m.into_iter().collect())),
        ]
    })
    .boxed()
}

fn days(min: i32, max: i32, epoch: i32) -> BoxedStrategy<i32> {
    prop_oneof![
        2 => select(vec![min, min + 1, max - 1, max, epoch, epoch - 1]),
        3 => min..=max,
        3 => (epoch - 40_000)..(epoch + 40_000),
    ]
    .boxed()
}

fn ctime() -> BoxedStrategy<(u32, u32)> {
    prop_oneof![
        2 => select(vec![(0u32, 0u32), (86_399, 999_999_999), (86_399, 1_999_999_999), (59, 1_000_000_000), (43_200, 0)]),
        5 => (0u32..86_400, 0u32..1_000_000_000),
        2 => (0u32..86_400, select(vec![0u32, 1, 999, 1_000, 999_999, 1_000_000, 999_999_999])),
        // leap-second representation: only in the last second of a minute
        1 => (0u32..1_440, 1_000_000_000u32..2_000_000_000).prop_map(|(m, n)| (m * 60 + 59, n)),
    ]
    .boxed()
}

fn ttime() -> BoxedStrategy<(u8, u8, u8, u32)> {
    prop_oneof![
        1 => select(vec![(0u8, 0u8, 0u8, 0u32), (23, 59, 59, 999_999_999), (12, 0, 0, 0)]),
        4 => (0u8..24, 0u8..60, 0u8..60, 0u32..1_000_000_000),
        1 => (0u8..24, 0u8..60, 0u8..60, select(vec![0u32, 1, 999, 1_000, 999_999, 1_000_000, 999_999_999])),
    ]
    .boxed()
}

fn offset(max: i32) -> BoxedStrategy<i32> {
    prop_oneof![
        2 => select(vec![0, 1, -1, 59, -59, 60, 3600, -3600, 8 * 3600, 19_800, -12_600, max, -max, max - 1, 1 - max]),
        2 => -max..=max,
        2 => (-56i32..=56).prop_map(|q| q * 900),
    ]
    .boxed()
}

fn u128_parts() -> BoxedStrategy<(u64, u64)> {
    prop_oneof![
        1 => select(vec![(0u64, 0u64), (u64::MAX, u64::MAX), (0, 1), (1 << 63, 0)]),
        5 => (any::<u64>(), any::<u64>()),
    ]
    .boxed()
}

/// values of one source type
pub fn strat(tag: Tag) -> BoxedStrategy<X> {
    let rest: BoxedStrategy<X> = match tag {
        Tag::Bool => any::<bool>().prop_map(X::Bool).boxed(),
        Tag::I8 => any::<i8>().prop_map(X::I8).boxed(),
        Tag::I16 => any::<i16>().prop_map(X::I16).boxed(),
        Tag::I32 => any::<i32>().prop_map(X::I32).boxed(),
        Tag::I64 => any::<i64>().prop_map(X::I64).boxed(),
        Tag::U8 => any::<u8>().prop_map(X::U8).boxed(),
        Tag::U16 => any::<u16>().prop_map(X::U16).boxed(),
        Tag::U32 => any::<u32>().prop_map(X::U32).boxed(),
        Tag::U64 => any::<u64>().prop_map(X::U64).boxed(),
        Tag::F32 => f32_bits().prop_map(X::F32).boxed(),
        Tag::F64 => f64_bits().prop_map(X::F64).boxed(),
        Tag::Char => char_code().prop_map(X::Char).boxed(),
        Tag::Str => text().prop_map(X::Str).boxed(),
        Tag::Cow => (text(), any::<bool>()).prop_map(|(s, o)| X::Cow(s, o)).boxed(),
        Tag::Bytes => bytes().prop_map(X::Bytes).boxed(),
        Tag::Json => json().prop_map(X::Json).boxed(),
        Tag::CDate => days(cdate_min(), cdate_max(), UNIX_CE).prop_map(X::CDate).boxed(),
        Tag::CTime => ctime().prop_map(|(s, n)| X::CTime(s, n)).boxed(),
        Tag::CDateTime => (days(cdate_min(), cdate_max(), UNIX_CE), ctime()).prop_map(|(d, (s, n))| X::CDateTime(d, s, n)).boxed(),
        Tag::CUtc => (days(cdate_min(), cdate_max(), UNIX_CE), ctime()).prop_map(|(d, (s, n))| X::CUtc(d, s, n)).boxed(),
        Tag::CLocal => {
            (days(cdate_min() + 366, cdate_max() - 366, UNIX_CE), ctime()).prop_map(|(d, (s, n))| X::CLocal(d, s, n)).boxed()
        }
        Tag::CFixed => (days(cdate_min(), cdate_max(), UNIX_CE), ctime(), offset(COFF_MAX))
            .prop_map(|(d, (s, n), o)| X::CFixed(d, s, n, o))
            .boxed(),
        Tag::TDate => days(tdate_min(), tdate_max(), UNIX_JULIAN).prop_map(X::TDate).boxed(),
        Tag::TTime => ttime().prop_map(|(h, m, s, n)| X::TTime(h, m, s, n)).boxed(),
        Tag::TDateTime => {
            (days(tdate_min(), tdate_max(), UNIX_JULIAN), ttime()).prop_map(|(d, (h, m, s, n))| X::TDateTime(d, h, m, s, n)).boxed()
        }
        Tag::TOffset => (days(tdate_min() + 2, tdate_max() - 2, UNIX_JULIAN), ttime(), offset(TOFF_MAX))
            .prop_map(|(d, (h, m, s, n), o)| X::TOffset(d, h, m, s, n, o))
            .boxed(),
        Tag::Dec => (
            prop_oneof![3 => any::<u32>(), 1 => select(vec![0u32, 1, u32::MAX])],
            prop_oneof![2 => any::<u32>(), 2 => select(vec![0u32, 1, u32::MAX])],
            prop_oneof![2 => any::<u32>(), 2 => select(vec![0u32, 1, u32::MAX])],
            any::<bool>(),
            prop_oneof![3 => 0u32..=28, 1 => select(vec![0u32, 1, 27, 28])],
        )
            .prop_map(|(lo, mid, hi, neg, scale)| X::Dec { lo, mid, hi, neg, scale })
            .boxed(),
        Tag::BigDec => (
            any::<bool>(),
            vec(0u8..10, 1..60),
            prop_oneof![
                4 => -40i64..=40,
                1 => any::<i64>(),
                1 => select(vec![i64::MIN, i64::MIN + 1, -1, 0, 1, i64::MAX - 1, i64::MAX, i32::MAX as i64 + 1, i32::MIN as i64 - 1]),
            ],
        )
            .prop_map(|(neg, ds, scale)| {
                let mut digits = String::new();
                if neg {
                    digits.push('-');
                }
                for d in ds {
                    digits.push((b'0' + d) as char);
                }
                X::BigDec { digits, scale }
            })
            .boxed(),
        Tag::Uuid => u128_parts().prop_map(|(h, l)| X::Uuid(h, l)).boxed(),
        Tag::Braced => u128_parts().prop_map(|(h, l)| X::Braced(h, l)).boxed(),
        Tag::Hyph => u128_parts().prop_map(|(h, l)| X::Hyph(h, l)).boxed(),
        Tag::Simple => u128_parts().prop_map(|(h, l)| X::Simple(h, l)).boxed(),
        Tag::Urn => u128_parts().prop_map(|(h, l)| X::Urn(h, l)).boxed(),
        Tag::Ip => prop_oneof![
            (any::<u32>(), 0u8..=32).prop_map(|(a, p)| X::Ip { v6: false, hi: 0, lo: a as u64, prefix: p }),
            (any::<u64>(), any::<u64>(), 0u8..=128).prop_map(|(hi, lo, p)| X::Ip { v6: true, hi, lo, prefix: p }),
        ]
        .boxed(),
        Tag::Mac => any::<[u8; 6]>().prop_map(X::Mac).boxed(),
        Tag::Vector => vec(f32_bits(), 0..8).prop_map(X::Vector).boxed(),
    };
    let (wb, wr) = match tag {
        Tag::Bool | Tag::F32 | Tag::F64 | Tag::Char => (0, 1), // their own strategies already mix the corners in
        _ => (1, 3),
    };
    if wb == 0 {
        rest
    } else {
        with_bounds(tag, wb, rest, wr)
    }
}

pub fn arr(tag: Tag) -> BoxedStrategy<X> {
    prop_oneof![
        1 => Just(X::Arr(tag, vec![])),
        6 => vec(strat(tag), 1..6).prop_map(move |items| X::Arr(tag, items)),
    ]
    .boxed()
}

/// any supported value: every scalar source type and every array type
pub fn any_x() -> BoxedStrategy<X> {
    let mut v: Vec<(u32, BoxedStrategy<X>)> = vec![];
    for t in SCALAR_TAGS {
        v.push((3, strat(t)));
    }
    for t in ARRAY_TAGS {
        v.push((1, arr(t)));
    }
    Union::new_weighted(v).boxed()
}

/// a value that differs for every position `i` (tuple order checks)
pub fn distinct(tag: Tag, array: bool, i: usize) -> X {
    let n = i as u32 + 1;
    let x = match tag {
        Tag::Bool => X::Bool(i % 2 == 0),
        Tag::I8 => X::I8(n as i8),
        Tag::I16 => X::I16(n as i16),
        Tag::I32 => X::I32(n as i32),
        Tag::I64 => X::I64(n as i64),
        Tag::U8 => X::U8(n as u8),
        Tag::U16 => X::U16(n as u16),
        Tag::U32 => X::U32(n),
        Tag::U64 => X::U64(n as u64),
        Tag::F32 => X::F32((n as f32 + 0.5).to_bits()),
        Tag::F64 => X::F64((n as f64 + 0.25).to_bits()),
        Tag::Char => X::Char('a' as u32 + n),
        Tag::Str => X::Str(format!("s{n}")),
        Tag::Cow => X::Cow(format!("c{n}"), true),
        Tag::Bytes => X::Bytes(vec![n as u8; i + 1]),
        Tag::Json => X::Json(serde_json::json!({ "k": n })),
        Tag::CDate => X::CDate(UNIX_CE + n as i32),
        Tag::CTime => X::CTime(n, n),
        Tag::CDateTime => X::CDateTime(UNIX_CE + n as i32, n, 0),
        Tag::CUtc => X::CUtc(UNIX_CE + n as i32, n, 0),
        Tag::CLocal => X::CLocal(UNIX_CE + n as i32, n, 0),
        Tag::CFixed => X::CFixed(UNIX_CE + n as i32, n, 0, 3600 * (n as i32 % 12)),
        Tag::TDate => X::TDate(UNIX_JULIAN + n as i32),
        Tag::TTime => X::TTime(n as u8 % 24, 0, 0, n),
        Tag::TDateTime => X::TDateTime(UNIX_JULIAN + n as i32, 1, 2, 3, n),
        Tag::TOffset => X::TOffset(UNIX_JULIAN + n as i32, 1, 2, 3, n, 3600 * (n as i32 % 12)),
        Tag::Dec => X::Dec { lo: n, mid: 0, hi: 0, neg: false, scale: 2 },
        Tag::BigDec => X::BigDec { digits: format!("{n}"), scale: 3 },
        Tag::Uuid => X::Uuid(0, n as u64),
        Tag::Braced => X::Braced(0, n as u64),
        Tag::Hyph => X::Hyph(0, n as u64),
        Tag::Simple => X::Simple(0, n as u64),
        Tag::Urn => X::Urn(0, n as u64),
        Tag::Ip => X::Ip { v6: false, hi: 0, lo: n as u64, prefix: 32 },
        Tag::Mac => X::Mac([n as u8; 6]),
        Tag::Vector => X::Vector(vec![(n as f32).to_bits()]),
    };
    if array {
        X::Arr(tag, vec![x])
    } else {
        x
    }
}
