//! C11 — custom SQL templates and `inject_parameters` replace exactly the placeholders.
//!
//! Part A (templates). A template is a *segment list* (`Vec<Seg>`): words, operator text, whitespace,
//! quoted literals/identifiers in the four delimiters (with embedded marks, doubled and backslash-escaped
//! delimiters), placeholders, doubled marks, the other dialect's mark as plain text and (Postgres) a mark
//! followed by a name. The list is normalised into the sound domain by construction (adjacency rules, see
//! `normalise`), rendered to the template text, and the expected output is computed FROM THE LIST —
//! placeholder -> rendering of the designated argument, doubled mark -> one mark, everything else
//! verbatim. The oracle never tokenises. Both modes are compared: `to_string` (argument values as the
//! backend's literals, `QueryBuilder::value_to_string` — the literal itself is C03's concern) and `build`
//! (argument values as bound parameters numbered in order of appearance in the output, plus the returned
//! `Values`). The three entry points `Expr::cust_with_values / cust_with_expr / cust_with_exprs` are used.
//! The pair `(sql, values)` returned by `build` is also fed to `inject_parameters` (when the built text
//! contains no literal lone mark) and must give the inline text.
//!
//! Part B (statements). For whole statements built from `stmt_spec` specs,
//! `inject_parameters(build().0, build().1, &B) == to_string(B)`.

use crate::expr_spec::{self, E, F, Op};
use crate::props::c16::Piece;
use crate::runner::*;
use crate::stmt_spec::{
    self, Built, ConflictAction, ConflictSpec, CteSpec, DeleteSpec, Dir, FromSpec, InsertSource, InsertSpec, Item, JoinKind, JoinSpec, OrdSpec,
    SelectSpec, Stmt, Un, UpdateSpec, WithSpec,
};
use crate::util::*;
use crate::with_backend;
use proptest::prelude::*;
use sea_query::{inject_parameters, Alias, BinOper, Expr, Query, QueryBuilder, SimpleExpr, Value};
use serde::{Deserialize, Serialize};
use serde_json::Value as J;

// ------------------------------------------------------------------------------------------ case types

#[derive(Serialize, Deserialize, Clone, Debug, PartialEq, Eq, Hash)]
pub enum Seg {
    /// identifier-ish text: starts with a letter or digit, continues with letters, digits, `_`, `$`
    Word(String),
    /// operator / punctuation text (no quote delimiter, bracket, backslash, `_`, `?`, `$`)
    Op(String),
    Ws(String),
    Quoted { delim: char, body: Vec<Piece> },
    /// placeholder: `?` (positional) on MySQL/SQLite; `$n` on Postgres with n = 1 + (i mod number of arguments)
    Ph(u8),
    /// `??` / `$$`: one literal mark
    Doubled,
    /// the other dialect's mark as plain text: `$k` on MySQL/SQLite, `?` on Postgres
    OtherMark(u8),
    /// `$name` — on Postgres a mark followed by a non-number; on MySQL/SQLite ordinary text
    MarkWord(String),
}

#[derive(Serialize, Deserialize, Clone, Debug, PartialEq, Eq, Hash)]
pub enum V {
    Int(i64),
    I32(i32),
    U(u64),
    Text(String),
    Bool(bool),
    Bytes(Vec<u8>),
    Char(char),
    Null,
    /// quarter units: Dbl(5) = 1.25
    Dbl(i32),
}

#[derive(Serialize, Deserialize, Clone, Debug, PartialEq, Eq, Hash)]
pub enum Arg {
    Val(V),
    Col(u8),
    ColOpVal(u8, u8, V),
    ValOpVal(V, u8, V),
    /// `Expr::val(v).as_enum("etype")`: the one expression kind a backend (Postgres) renders through an override of its own
    EnumCast(V),
}

#[derive(Serialize, Deserialize, Clone, Copy, Debug, PartialEq, Eq, Hash)]
pub enum Api {
    Values,
    Expr,
    Exprs,
}

#[derive(Serialize, Deserialize, Clone, Debug, PartialEq, Eq, Hash)]
pub struct TCase {
    pub dialect: Dialect,
    pub api: Api,
    /// a bound value rendered as a select item before the custom expression (shifts the numbering)
    pub lead: Option<i64>,
    pub segs: Vec<Seg>,
    pub args: Vec<Arg>,
}

#[derive(Serialize, Deserialize, Clone, Debug, PartialEq, Eq, Hash)]
pub struct SCase {
    pub dialect: Dialect,
    pub stmt: Stmt,
    /// extra conditions `"q" = <value>` (value types the expression specs do not have)
    pub extra: Vec<V>,
    /// SELECT only: an extra item `<1> AS <alias>` with an arbitrary alias
    pub alias: Option<String>,
}

#[derive(Serialize, Deserialize, Clone, Debug, PartialEq, Eq, Hash)]
pub enum Case {
    Tmpl(TCase),
    Stmt(SCase),
}

// ------------------------------------------------------------------------------------------ values and arguments

const COLN: [&str; 4] = ["a", "b_c", "col1", "Size"];
const BINOPS: [(&str, BinOper); 5] =
    [("+", BinOper::Add), ("-", BinOper::Sub), ("=", BinOper::Equal), ("<", BinOper::SmallerThan), ("*", BinOper::Mul)];

impl V {
    pub fn to_value(&self) -> Value {
        match self {
            V::Int(i) => Value::BigInt(Some(*i)),
            V::I32(i) => Value::Int(Some(*i)),
            V::U(u) => Value::BigUnsigned(Some(*u)),
            V::Text(s) => Value::String(Some(Box::new(s.clone()))),
            V::Bool(b) => Value::Bool(Some(*b)),
            V::Bytes(b) => Value::Bytes(Some(Box::new(b.clone()))),
            V::Char(c) => Value::Char(Some(*c)),
            V::Null => Value::Int(None),
            V::Dbl(q) => Value::Double(Some(*q as f64 / 4.0)),
        }
    }
}

fn mark(d: Dialect) -> char {
    if d == Dialect::Postgres {
        '$'
    } else {
        '?'
    }
}

fn quote_ident(d: Dialect, name: &str) -> String {
    // the column names used here contain no quote character, so quoting is plain wrapping
    if d == Dialect::Mysql {
        format!("`{name}`")
    } else {
        format!("\"{name}\"")
    }
}

fn arg_expr(a: &Arg) -> SimpleExpr {
    match a {
        Arg::Val(v) => Expr::val(v.to_value()).into(),
        Arg::Col(i) => Expr::col(Alias::new(COLN[*i as usize % 4])).into(),
        Arg::ColOpVal(c, o, v) => Expr::col(Alias::new(COLN[*c as usize % 4])).binary(BINOPS[*o as usize % 5].1, Expr::val(v.to_value())),
        Arg::ValOpVal(l, o, r) => Expr::val(l.to_value()).binary(BINOPS[*o as usize % 5].1, Expr::val(r.to_value())),
        Arg::EnumCast(v) => Expr::val(v.to_value()).as_enum(Alias::new("etype")),
    }
}

fn arg_to_val(a: &Arg) -> V {
    match a {
        Arg::Val(v) => v.clone(),
        Arg::Col(i) => V::Int(*i as i64),
        Arg::ColOpVal(_, _, v) => v.clone(),
        Arg::ValOpVal(l, _, _) => l.clone(),
        Arg::EnumCast(v) => v.clone(),
    }
}

/// where the expected rendering of arguments is accumulated
struct Out {
    d: Dialect,
    params: bool,
    counter: usize,
    values: Vec<Value>,
}

impl Out {
    fn val(&mut self, v: &V) -> String {
        let value = v.to_value();
        if self.params {
            self.counter += 1;
            self.values.push(value);
            if self.d == Dialect::Postgres {
                format!("${}", self.counter)
            } else {
                "?".to_string()
            }
        } else {
            with_backend!(self.d, b => b.value_to_string(&value))
        }
    }
    fn arg(&mut self, a: &Arg) -> String {
        match a {
            Arg::Val(v) => self.val(v),
            Arg::Col(i) => quote_ident(self.d, COLN[*i as usize % 4]),
            Arg::ColOpVal(c, o, v) => {
                let r = self.val(v);
                format!("{} {} {}", quote_ident(self.d, COLN[*c as usize % 4]), BINOPS[*o as usize % 5].0, r)
            }
            Arg::ValOpVal(l, o, r) => {
                let lt = self.val(l);
                let rt = self.val(r);
                format!("{} {} {}", lt, BINOPS[*o as usize % 5].0, rt)
            }
            Arg::EnumCast(v) => {
                let x = self.val(v);
                if self.d == Dialect::Postgres {
                    format!("CAST({x} AS \"etype\")")
                } else {
                    x
                }
            }
        }
    }
}

// ------------------------------------------------------------------------------------------ the sound domain

const OP_CHARS: &str = "=<>+-*/%(),.;:!@#^&|~{}]§€\u{a0}→";
const WORD_EXTRA: &str = "éß中";

fn word_start(c: char) -> bool {
    c.is_ascii_alphanumeric() || WORD_EXTRA.contains(c)
}
fn word_char(c: char) -> bool {
    word_start(c) || c == '_' || c == '$'
}
fn close_of(d: char) -> char {
    if d == '[' {
        ']'
    } else {
        d
    }
}

fn clean_word(w: &str, letter_first: bool) -> String {
    let mut s: String = w.chars().filter(|c| word_char(*c)).collect();
    let ok = s.chars().next().map(|c| if letter_first { word_start(c) && !c.is_ascii_digit() } else { word_start(c) }) == Some(true);
    if !ok {
        s.insert(0, 'w');
    }
    s
}

#[derive(Clone, Copy, PartialEq, Eq, Debug)]
enum K {
    Start,
    Word,
    Op,
    Ws,
    Quoted(char),
    Ph,
    Doubled,
    Other,
    MarkWord,
}

/// Normalise a generated segment list into the domain where the intended reading is unambiguous
/// under the documented rules (placeholder outside quoted text, `$n` numbered on Postgres, doubled
/// mark = one literal mark). Construction, not rejection:
///  * text is cleaned per segment kind (a word is letters/digits/`_`/`$` starting with a letter or digit;
///    operator text has no quote delimiter, opening bracket, backslash, `_`, `?`, `$`; a quoted body has its closing
///    delimiter only doubled or backslash-escaped and a backslash only as an escape prefix);
///  * Postgres: `$n`, `$$` and `$name` directly after a word, a `$n` or a `$name` would be read as part of
///    that word (`a$1`, `$1$2` are identifiers / one number token) -> whitespace is inserted; a word directly
///    after `$n` / `$name` would extend the number / name -> whitespace; `$$` directly followed by `$n` or
///    `$name` (`$$$1`) can be split two ways -> whitespace;
///  * MySQL/SQLite: two `?` in a row are a doubled mark, `???` can be split two ways -> whitespace between
///    adjacent placeholders / doubled marks; `?` directly followed by a digit is SQLite's `?NNN` -> whitespace;
///  * a quoted segment directly after one closed by the same character reads as a doubled delimiter -> whitespace;
///  * positional placeholders beyond `max_positional` are dropped (too few values is a documented index panic).
/// `Ph(i)` is canonicalised to the 0-based argument index it designates on Postgres and to 0 elsewhere.
pub fn normalise(d: Dialect, segs: &[Seg], nargs: usize, max_positional: usize) -> Vec<Seg> {
    let pg = d == Dialect::Postgres;
    let nargs = nargs.max(1);
    let mut out: Vec<Seg> = vec![];
    let mut prev = K::Start;
    let mut positional = 0usize;
    for s in segs {
        let (cur, seg) = match s {
            Seg::Word(w) => (K::Word, Seg::Word(clean_word(w, false))),
            Seg::Op(o) => {
                let t: String = o.chars().filter(|c| OP_CHARS.contains(*c)).collect();
                if t.is_empty() {
                    continue;
                }
                (K::Op, Seg::Op(t))
            }
            Seg::Ws(w) => {
                let t: String = w.chars().filter(|c| matches!(c, ' ' | '\t' | '\r' | '\n')).collect();
                (K::Ws, Seg::Ws(if t.is_empty() { " ".into() } else { t }))
            }
            Seg::Quoted { delim, body } => {
                let delim = if matches!(delim, '\'' | '"' | '`' | '[') { *delim } else { '\'' };
                let close = close_of(delim);
                let body: Vec<Piece> = body
                    .iter()
                    .filter_map(|p| match p {
                        Piece::Ch(c) if *c == close || *c == '\\' => Some(Piece::Ch('q')),
                        Piece::Doubled if delim == '[' => None,
                        p => Some(p.clone()),
                    })
                    .collect();
                (K::Quoted(close), Seg::Quoted { delim, body })
            }
            Seg::Ph(i) => {
                if pg {
                    (K::Ph, Seg::Ph((*i as usize % nargs) as u8))
                } else {
                    if positional >= max_positional {
                        continue;
                    }
                    positional += 1;
                    (K::Ph, Seg::Ph(0))
                }
            }
            Seg::Doubled => (K::Doubled, Seg::Doubled),
            Seg::OtherMark(k) => (K::Other, Seg::OtherMark(k % 10)),
            Seg::MarkWord(w) => (if pg { K::MarkWord } else { K::Other }, Seg::MarkWord(clean_word(w, true))),
        };
        let digit_word = matches!(&seg, Seg::Word(w) if w.chars().next().map(|c| c.is_ascii_digit()) == Some(true));
        let space = if pg {
            matches!(
                (prev, cur),
                (K::Word | K::MarkWord | K::Ph, K::Ph | K::Doubled | K::MarkWord) | (K::Ph | K::MarkWord, K::Word) | (K::Doubled, K::Ph | K::MarkWord)
            )
        } else {
            matches!((prev, cur), (K::Ph, K::Ph | K::Doubled) | (K::Doubled, K::Ph)) || (prev == K::Ph && cur == K::Word && digit_word)
        } || matches!((prev, &seg), (K::Quoted(c), Seg::Quoted { delim, .. }) if c == *delim);
        if space {
            out.push(Seg::Ws(" ".into()));
        }
        out.push(seg);
        prev = cur;
    }
    out
}

fn seg_text(d: Dialect, s: &Seg) -> String {
    let m = mark(d);
    match s {
        Seg::Word(w) | Seg::Op(w) | Seg::Ws(w) => w.clone(),
        Seg::Quoted { delim, body } => {
            let close = close_of(*delim);
            let mut t = String::new();
            t.push(*delim);
            for p in body {
                match p {
                    Piece::Ch(c) => t.push(*c),
                    Piece::Doubled => {
                        t.push(close);
                        t.push(close);
                    }
                    Piece::Esc(c) => {
                        t.push('\\');
                        t.push(*c);
                    }
                }
            }
            t.push(close);
            t
        }
        Seg::Ph(i) => {
            if d == Dialect::Postgres {
                format!("${}", *i as usize + 1)
            } else {
                "?".into()
            }
        }
        Seg::Doubled => format!("{m}{m}"),
        Seg::OtherMark(k) => {
            if d == Dialect::Postgres {
                "?".into()
            } else {
                format!("${k}")
            }
        }
        Seg::MarkWord(w) => format!("${w}"),
    }
}

fn seg_kind(d: Dialect, s: &Seg) -> &'static str {
    match s {
        Seg::Word(_) => "word",
        Seg::Op(_) => "operator",
        Seg::Ws(_) => "whitespace",
        Seg::Quoted { .. } => "quoted",
        Seg::Ph(_) => "placeholder",
        Seg::Doubled => "doubled-mark",
        Seg::OtherMark(_) => "other-dialect-mark",
        Seg::MarkWord(_) => {
            if d == Dialect::Postgres {
                "mark-word"
            } else {
                "other-dialect-mark"
            }
        }
    }
}

pub struct Plan {
    pub segs: Vec<Seg>,
    pub args: Vec<Arg>,
    pub api: Api,
    pub template: String,
}

pub fn plan(c: &TCase) -> Plan {
    let d = c.dialect;
    let mut args: Vec<Arg> = if c.args.is_empty() { vec![Arg::Val(V::Int(1))] } else { c.args.clone() };
    if c.api == Api::Values {
        args = args.iter().map(|a| Arg::Val(arg_to_val(a))).collect();
    }
    if c.api == Api::Expr {
        args.truncate(1);
    }
    let max_pos = if c.api == Api::Expr { 1 } else { 8 };
    let segs = normalise(d, &c.segs, args.len(), max_pos);
    if d != Dialect::Postgres {
        // one value per positional placeholder: extend the list cyclically when the template has more
        let p = segs.iter().filter(|s| matches!(s, Seg::Ph(_))).count();
        let n = args.len();
        if p > n {
            args = (0..p).map(|i| args[i % n].clone()).collect();
        }
    }
    // a template without placeholders: half of the cases pass an empty list (doubled marks are still collapsed)
    if c.api != Api::Expr && !segs.iter().any(|s| matches!(s, Seg::Ph(_))) && c.args.len() % 2 == 0 {
        args.clear();
    }
    let template: String = segs.iter().map(|s| seg_text(d, s)).collect();
    Plan { segs, args, api: c.api, template }
}

/// expected output, piece by piece: (kind, text)
fn expected(d: Dialect, lead: Option<i64>, p: &Plan, params: bool) -> (Vec<(&'static str, String)>, Vec<Value>) {
    let mut out = Out { d, params, counter: 0, values: vec![] };
    let mut pieces: Vec<(&'static str, String)> = vec![("prefix", "SELECT ".to_string())];
    if let Some(l) = lead {
        let t = out.val(&V::Int(l));
        pieces.push(("prefix", format!("{t}, ")));
    }
    let mut positional = 0usize;
    for s in &p.segs {
        let text = match s {
            Seg::Ph(i) => {
                let idx = if d == Dialect::Postgres {
                    *i as usize
                } else {
                    positional += 1;
                    positional - 1
                };
                out.arg(&p.args[idx])
            }
            Seg::Doubled => mark(d).to_string(),
            other => seg_text(d, other),
        };
        pieces.push((seg_kind(d, s), text));
    }
    (pieces, out.values)
}

fn concat(pieces: &[(&'static str, String)]) -> String {
    pieces.iter().map(|p| p.1.as_str()).collect()
}

/// kind of the first expected piece the actual text does not carry at its position
fn diverges_at(pieces: &[(&'static str, String)], actual: &str) -> &'static str {
    let mut pos = 0usize;
    for (i, (k, t)) in pieces.iter().enumerate() {
        if actual[pos..].starts_with(t.as_str()) {
            pos += t.len();
            // a doubled mark that came out as two: by the adjacency rules only another doubled mark can
            // follow a doubled mark with the mark character
            if *k == "doubled-mark" && actual[pos..].starts_with(t.as_str()) && pieces.get(i + 1).map(|n| n.1.starts_with(t.as_str())) != Some(true) {
                return k;
            }
        } else {
            return k;
        }
    }
    "trailing-text"
}

fn build_query(c: &TCase, p: &Plan) -> sea_query::SelectStatement {
    let ce = match p.api {
        Api::Values => {
            let vals: Vec<Value> = p.args.iter().map(|a| arg_to_val(a).to_value()).collect();
            Expr::cust_with_values(p.template.clone(), vals)
        }
        Api::Expr => Expr::cust_with_expr(p.template.clone(), arg_expr(&p.args[0])),
        Api::Exprs => Expr::cust_with_exprs(p.template.clone(), p.args.iter().map(arg_expr).collect::<Vec<_>>()),
    };
    let mut q = Query::select();
    if let Some(l) = c.lead {
        q.expr(Expr::val(l));
    }
    q.expr(ce);
    q
}

pub fn check_tmpl(c: &TCase, obs: &mut Obs) -> R {
    let d = c.dialect;
    let p = plan(c);
    let dn = d.name();
    let (exp_inline, _) = expected(d, c.lead, &p, false);
    let (exp_build, exp_vals) = expected(d, c.lead, &p, true);
    let q = guard("build-template-expr", || build_query(c, &p))?;
    let got_inline = guard("custom-template/to_string", || with_backend!(d, b => q.to_string(b)))?;
    let want_inline = concat(&exp_inline);
    let ctx = |mode: &str| format!("{dn} {:?} mode={mode} template {:?} args {:?}", p.api, p.template, p.args);
    if got_inline != want_inline {
        return fail(
            format!("tmpl/{dn}/at-{}", diverges_at(&exp_inline, &got_inline)),
            format!("{}\n got      {:?}\n expected {:?}", ctx("inline"), got_inline, want_inline),
        );
    }
    let (got_sql, got_vals) = guard("custom-template/build", || with_backend!(d, b => q.build(b)))?;
    let want_sql = concat(&exp_build);
    if got_sql != want_sql {
        return fail(
            format!("tmpl/{dn}/at-{}", diverges_at(&exp_build, &got_sql)),
            format!("{}\n got      {:?}\n expected {:?}", ctx("build"), got_sql, want_sql),
        );
    }
    if got_vals.0 != exp_vals {
        return fail(format!("tmpl/{dn}/values"), format!("{}\n sql {:?}\n got values {:?}\n expected   {:?}", ctx("build"), got_sql, got_vals.0, exp_vals));
    }
    // the parameterised form goes back to the inline form — only when the built text has no literal lone mark
    // (`$name` on Postgres stays `$name` in the built text and is not a placeholder for inject_parameters either: it is kept)
    let literal_mark = p.segs.iter().any(|s| matches!(s, Seg::Doubled));
    if !literal_mark {
        let inj = guard("inject_parameters", || with_backend!(d, b => inject_parameters(&got_sql, got_vals.0.clone(), &b)))?;
        if inj != want_inline {
            return fail(
                format!("inject-tmpl/{dn}/at-{}", diverges_at(&exp_inline, &inj)),
                format!("{}\n built    {:?} {:?}\n injected {:?}\n inline   {:?}", ctx("inject"), got_sql, got_vals.0, inj, want_inline),
            );
        }
        obs.label("inject-checked");
    }

    // classification and the non-triviality rule
    let m = mark(d);
    let phs: Vec<usize> = p.segs.iter().filter_map(|s| if let Seg::Ph(i) = s { Some(*i as usize) } else { None }).collect();
    let quoted_mark = p.segs.iter().any(|s| match s {
        Seg::Quoted { body, .. } => body.iter().any(|x| matches!(x, Piece::Ch(c) | Piece::Esc(c) if *c == m)),
        _ => false,
    });
    let doubled = p.segs.iter().any(|s| matches!(s, Seg::Doubled));
    let reordered = d == Dialect::Postgres && phs.iter().enumerate().any(|(k, i)| *i != k);
    obs.label(format!("d/{dn}"));
    obs.label(format!("api/{:?}", p.api));
    obs.label(format!("placeholders/{}", phs.len().min(4)));
    if quoted_mark {
        obs.label("quoted-with-mark");
    }
    if doubled {
        obs.label("doubled-mark");
    }
    if reordered {
        obs.label("numbered-reordered-or-repeated");
    }
    if matches!(p.segs.last(), Some(Seg::Ph(_))) {
        obs.label("placeholder-at-end");
    }
    if p.segs.iter().any(|s| matches!(s, Seg::OtherMark(_))) {
        obs.label("other-dialect-mark");
    }
    if p.segs.iter().any(|s| matches!(s, Seg::Word(w) if w.contains('$'))) {
        obs.label("word-with-dollar");
    }
    if p.segs.iter().any(|s| matches!(s, Seg::Quoted { body, .. } if body.iter().any(|x| matches!(x, Piece::Esc(_) | Piece::Doubled)))) {
        obs.label("quoted-with-escaped-delimiter");
    }
    if p.args.iter().any(|a| !matches!(a, Arg::Val(_))) {
        obs.label("expression-argument");
    }
    if !phs.is_empty() && (quoted_mark || doubled || reordered) {
        obs.nontrivial(&(d, &p.template, "inline"));
        obs.nontrivial(&(d, &p.template, "build"));
        obs.note(format!("{dn}: {:?} -> {:?} / {:?} {:?}", p.template, got_inline, got_sql, got_vals.0));
    }
    Ok(())
}

// ------------------------------------------------------------------------------------------ part B

fn apply_extras(built: &mut Built, c: &SCase) {
    let col = || Expr::col(Alias::new("q"));
    match built {
        Built::Select(s) => {
            if let Some(a) = &c.alias {
                s.expr_as(Expr::val(1), Alias::new(a.as_str()));
            }
            for v in &c.extra {
                s.and_where(col().eq(v.to_value()));
            }
        }
        Built::Update(s) => {
            for v in &c.extra {
                s.and_where(col().eq(v.to_value()));
            }
        }
        Built::Delete(s) => {
            for v in &c.extra {
                s.and_where(col().eq(v.to_value()));
            }
        }
        Built::Insert(_) | Built::With(_) => {}
    }
}

fn first_divergence(a: &str, b: &str) -> usize {
    let mut n = 0;
    for (x, y) in a.chars().zip(b.chars()) {
        if x != y {
            return n;
        }
        n += x.len_utf8();
    }
    n
}

pub fn check_stmt(c: &SCase, obs: &mut Obs) -> R {
    let d = c.dialect;
    let dn = d.name();
    let (inline, sql, vals) = guard("render-statement", || {
        let mut b = c.stmt.build(d);
        apply_extras(&mut b, c);
        let inline = b.to_string(d);
        let (sql, vals) = b.build(d);
        (inline, sql, vals)
    })?;
    let esc_lit = "ESCAPE '\\'";
    let k6 = d == Dialect::Sqlite && inline.contains(esc_lit);
    let alias_bs = c.alias.as_deref().filter(|a| a.contains('\\') && matches!(c.stmt, Stmt::Select(_)));
    let inj = match guard("inject_parameters", || with_backend!(d, b => inject_parameters(&sql, vals.0.clone(), &b))) {
        Ok(s) => s,
        Err(Stop::Fail { sig, detail }) => {
            // a de-synchronised tokenizer can also run out of parameters
            if k6 {
                return fail("inject/sqlite/after-escape-backslash", format!("{detail}\n built {sql:?} {:?}", vals.0));
            }
            if alias_bs.is_some() {
                return fail("inject/after-backslash-in-identifier", format!("{detail}\n built {sql:?} {:?}", vals.0));
            }
            return Err(Stop::Fail { sig, detail: format!("{detail}\n built {sql:?} {:?}", vals.0) });
        }
        Err(e) => return Err(e),
    };
    if inj != inline {
        let at = first_divergence(&inj, &inline);
        let detail = format!("{dn}: built {sql:?} {:?}\n injected {inj:?}\n inline   {inline:?}\n (first difference at byte {at})", vals.0);
        if k6 && at >= inline.find(esc_lit).unwrap_or(usize::MAX) {
            return fail("inject/sqlite/after-escape-backslash", detail);
        }
        if let Some(a) = alias_bs {
            // the alias is written between the dialect's identifier quotes; everything before it must agree
            let q = if d == Dialect::Mysql { '`' } else { '"' };
            let needle = format!("{q}{}", a.split(q).next().unwrap_or(""));
            if at >= inline.find(&needle).unwrap_or(usize::MAX) {
                return fail("inject/after-backslash-in-identifier", detail);
            }
        }
        let class = if inj[at..].starts_with(mark(d)) { "placeholder-left" } else { "differs" };
        return fail(format!("inject/{dn}/{class}"), detail);
    }
    obs.label(format!("d/{dn}"));
    obs.label(format!("stmt/{}", c.stmt.kind()));
    obs.label(format!("params/{}", vals.0.len().min(8)));
    let m = mark(d);
    let tricky = |s: &str| s.contains(m) || s.contains('\'') || s.contains('\\') || s.contains('"');
    let has_tricky = vals.0.iter().any(|v| match v {
        Value::String(Some(s)) => tricky(s),
        Value::Char(Some(ch)) => tricky(&ch.to_string()),
        _ => false,
    });
    let quoted_const = inline.contains("ESCAPE ");
    if quoted_const {
        obs.label("like-escape");
    }
    if has_tricky {
        obs.label("value-with-mark-or-quote");
    }
    if !vals.0.is_empty() && (has_tricky || quoted_const) {
        obs.nontrivial(&(d, &sql, format!("{:?}", vals.0)));
        obs.note(format!("{dn}: {sql:?}"));
    }
    Ok(())
}

pub fn check(c: &Case, obs: &mut Obs) -> R {
    match c {
        Case::Tmpl(t) => check_tmpl(t, obs),
        Case::Stmt(s) => check_stmt(s, obs),
    }
}

// ------------------------------------------------------------------------------------------ generators, part A

fn piece() -> impl Strategy<Value = Piece> {
    prop_oneof![
        5 => proptest::sample::select(vec!['a', '?', '$', '1', '2', ' ', '\'', '"', '`', '[', ']', 'é', '%', '\n']).prop_map(Piece::Ch),
        1 => nasty_char().prop_map(Piece::Ch),
        2 => Just(Piece::Doubled),
        2 => proptest::sample::select(vec!['\'', '"', '`', ']', '\\', 'n', '?', '$', 'a']).prop_map(Piece::Esc),
    ]
}

fn seg() -> impl Strategy<Value = Seg> {
    prop_oneof![
        3 => "[a-zA-Z0-9é][a-zA-Z0-9_$é]{0,4}".prop_map(Seg::Word),
        3 => proptest::collection::vec(proptest::sample::select(OP_CHARS.chars().collect::<Vec<_>>()), 1..3).prop_map(|v| Seg::Op(v.into_iter().collect())),
        1 => Just(Seg::Op("]".into())),
        3 => proptest::sample::select(vec![" ", "  ", "\t", "\n", "\r\n"]).prop_map(|s| Seg::Ws(s.to_string())),
        5 => (proptest::sample::select(vec!['\'', '"', '`', '[']), proptest::collection::vec(piece(), 0..6)).prop_map(|(delim, body)| Seg::Quoted { delim, body }),
        7 => (0u8..8).prop_map(Seg::Ph),
        2 => Just(Seg::Doubled),
        1 => (0u8..10).prop_map(Seg::OtherMark),
        1 => "[a-z][a-z0-9_$]{0,3}".prop_map(Seg::MarkWord),
    ]
}

fn v_text() -> impl Strategy<Value = String> {
    prop_oneof![
        3 => proptest::collection::vec(proptest::sample::select(vec!['?', '$', '1', '2', '\'', '"', '\\', '`', 'a', ' ', '%']), 0..6)
            .prop_map(|v| v.into_iter().collect::<String>()),
        1 => nasty_string(6),
    ]
}

fn v() -> impl Strategy<Value = V> {
    prop_oneof![
        4 => prop_oneof![(-3i64..100).boxed(), Just(i64::MIN).boxed(), Just(i64::MAX).boxed()].prop_map(V::Int),
        1 => any::<i32>().prop_map(V::I32),
        1 => any::<u64>().prop_map(V::U),
        5 => v_text().prop_map(V::Text),
        1 => any::<bool>().prop_map(V::Bool),
        1 => proptest::collection::vec(any::<u8>(), 0..4).prop_map(V::Bytes),
        1 => proptest::sample::select(vec!['a', '?', '$', '\'', '\\', 'é']).prop_map(V::Char),
        1 => Just(V::Null),
        1 => (-8i32..40).prop_map(V::Dbl),
    ]
}

fn arg() -> impl Strategy<Value = Arg> {
    prop_oneof![
        5 => v().prop_map(Arg::Val),
        2 => (0u8..4).prop_map(Arg::Col),
        2 => (0u8..4, 0u8..5, v()).prop_map(|(c, o, x)| Arg::ColOpVal(c, o, x)),
        1 => (v(), 0u8..5, v()).prop_map(|(l, o, r)| Arg::ValOpVal(l, o, r)),
        1 => v().prop_map(Arg::EnumCast),
    ]
}

pub fn tcase_strategy() -> impl Strategy<Value = Case> {
    (
        proptest::sample::select(DIALECTS.to_vec()),
        prop_oneof![3 => Just(Api::Values), 1 => Just(Api::Expr), 3 => Just(Api::Exprs)],
        proptest::option::weighted(0.25, -2i64..50),
        proptest::collection::vec(seg(), 0..10),
        proptest::collection::vec(arg(), 1..5),
    )
        .prop_map(|(dialect, api, lead, segs, args)| Case::Tmpl(TCase { dialect, api, lead, segs, args }))
}

/// the small segment alphabet of the bounded-exhaustive part
pub fn alphabet(d: Dialect) -> Vec<Seg> {
    let m = mark(d);
    vec![
        Seg::Word("a".into()),
        Seg::Word("b$1".into()),
        Seg::Op("=".into()),
        Seg::Ws(" ".into()),
        Seg::Quoted { delim: '\'', body: vec![Piece::Ch(m), Piece::Ch('1')] },
        Seg::Quoted { delim: '"', body: vec![Piece::Doubled, Piece::Ch(m)] },
        Seg::Quoted { delim: '`', body: vec![Piece::Esc('`'), Piece::Ch(m), Piece::Ch('2')] },
        Seg::Quoted { delim: '[', body: vec![Piece::Ch(m), Piece::Ch('1')] },
        Seg::Ph(0),
        Seg::Ph(1),
        Seg::Doubled,
        Seg::OtherMark(1),
        Seg::MarkWord("foo".into()),
    ]
}
const ALPHABET_LEN: u64 = 13;

fn nth_exhaustive(i: u64) -> Case {
    let dialect = DIALECTS[(i % 3) as usize];
    let api = if (i / 3) % 2 == 0 { Api::Values } else { Api::Exprs };
    let mut i = i / 6;
    let alpha = alphabet(dialect);
    let k = ALPHABET_LEN;
    let mut len = 0u32;
    loop {
        let n = k.pow(len);
        if i < n {
            break;
        }
        i -= n;
        len += 1;
    }
    let mut digits = vec![0usize; len as usize];
    for dg in digits.iter_mut().rev() {
        *dg = (i % k) as usize;
        i /= k;
    }
    let segs = digits.into_iter().map(|x| alpha[x].clone()).collect();
    let args = if api == Api::Values {
        vec![Arg::Val(V::Text("v?$1'".into())), Arg::Val(V::Int(7))]
    } else {
        vec![Arg::EnumCast(V::Int(3)), Arg::ColOpVal(1, 0, V::Text("$2?".into()))]
    };
    Case::Tmpl(TCase { dialect, api, lead: None, segs, args })
}

// ------------------------------------------------------------------------------------------ generators, part B

fn b_text() -> impl Strategy<Value = String> {
    proptest::collection::vec(
        prop_oneof![
            6 => proptest::sample::select(vec!['?', '$', '1', '2', '\'', '"', '\\', '`', '[', ']', 'a', ' ', '%', '_', 'E', ':']),
            1 => nasty_char(),
        ],
        0..6,
    )
    .prop_map(|v| v.into_iter().collect())
}

fn b_atom() -> BoxedStrategy<E> {
    prop_oneof![
        4 => (0u8..4).prop_map(E::Col),
        1 => (0u8..4).prop_map(E::TCol),
        3 => prop_oneof![(-3i64..10).boxed(), Just(i64::MIN).boxed(), Just(i64::MAX).boxed()].prop_map(E::Int),
        5 => b_text().prop_map(E::Text),
        1 => any::<bool>().prop_map(E::Bool),
        1 => Just(E::Null),
        1 => (0i64..3).prop_map(E::Const),
        1 => any::<bool>().prop_map(E::ConstBool),
    ]
    .boxed()
}

fn bx(e: E) -> Box<E> {
    Box::new(e)
}

pub fn b_expr(d: Dialect, depth: u32) -> BoxedStrategy<E> {
    let own = b_atom().prop_recursive(depth, 24, 4, |inner| {
        prop_oneof![
            6 => (
                inner.clone(),
                proptest::sample::select(vec![Op::Eq, Op::Ne, Op::Lt, Op::Ge, Op::And, Op::Or, Op::Add, Op::Mul, Op::Like, Op::NotLike]),
                inner.clone()
            )
                .prop_map(|(l, op, r)| E::Bin(bx(l), op, bx(r))),
            1 => inner.clone().prop_map(|e| E::Not(bx(e))),
            2 => (any::<bool>(), inner.clone(), inner.clone(), inner.clone()).prop_map(|(not, x, lo, hi)| E::Between { not, x: bx(x), lo: bx(lo), hi: bx(hi) }),
            3 => (
                any::<bool>(),
                inner.clone(),
                b_text(),
                proptest::option::weighted(0.7, proptest::sample::select(vec!['|', '\\', '\'', '?', '$', '"', '!']))
            )
                .prop_map(|(not, x, pat, esc)| E::LikePat { not, x: bx(x), pat, esc }),
            3 => (any::<bool>(), inner.clone(), proptest::collection::vec(inner.clone(), 0..4)).prop_map(|(not, x, list)| E::In { not, x: bx(x), list }),
            1 => (any::<bool>(), inner.clone()).prop_map(|(not, x)| E::InSub { not, x: bx(x) }),
            1 => (proptest::collection::vec((inner.clone(), inner.clone()), 1..3), proptest::option::of(inner.clone()))
                .prop_map(|(w, e)| E::Case(w, e.map(Box::new))),
            1 => proptest::collection::vec(inner.clone(), 2..4).prop_map(|a| E::Func(F::Coalesce, a)),
            1 => Just(E::Exists),
            1 => Just(E::ScalarSub),
            1 => (b_atom(), b_atom()).prop_map(|(x, y)| E::CustomTmpl(bx(x), bx(y))),
            1 => Just(E::CustomText),
            1 => inner.clone().prop_map(|e| E::Cast(bx(e), "text".into())),
        ]
    });
    prop_oneof![3 => own, 1 => expr_spec::expr(d, 2, false)].boxed()
}

fn b_order(d: Dialect) -> impl Strategy<Value = OrdSpec> {
    (
        b_expr(d, 1),
        prop_oneof![3 => Just(Dir::Asc), 3 => Just(Dir::Desc), 1 => proptest::collection::vec(0i64..5, 1..3).prop_map(Dir::Field)],
        proptest::option::weighted(0.3, any::<bool>()),
    )
        .prop_map(|(e, dir, nulls)| OrdSpec { e, dir, nulls })
}

fn b_limit() -> impl Strategy<Value = Option<u64>> {
    proptest::option::weighted(0.5, prop_oneof![4 => 0u64..100, 1 => Just(u64::MAX)])
}

/// a SELECT without sub-selects in FROM / set operations / CTEs
fn b_select_base(d: Dialect, n_items: Option<usize>) -> BoxedStrategy<SelectSpec> {
    let items = match n_items {
        Some(n) => proptest::collection::vec((b_expr(d, 2), proptest::option::weighted(0.3, 0u8..4)), n..=n),
        None => proptest::collection::vec((b_expr(d, 2), proptest::option::weighted(0.3, 0u8..4)), 1..4),
    };
    (
        any::<bool>(),
        items,
        (0u8..3, proptest::option::weighted(0.4, 3u8..6)),
        proptest::option::weighted(0.3, (proptest::sample::select(vec![JoinKind::Left, JoinKind::Inner, JoinKind::Join]), 0u8..3, 3u8..6, b_expr(d, 1))),
        proptest::collection::vec(b_expr(d, 2), 0..3),
        proptest::option::weighted(0.3, (0u8..4, b_expr(d, 1))),
        proptest::collection::vec(b_order(d), 0..2),
        b_limit(),
        b_limit(),
    )
        .prop_map(|(distinct, items, (t, ta), join, wheres, group, orders, limit, offset)| SelectSpec {
            distinct: if distinct { Some(stmt_spec::Dist::Distinct) } else { None },
            items: items.into_iter().map(|(e, alias)| Item { e, alias, win: None }).collect(),
            from: vec![FromSpec::Table(t, ta)],
            joins: join
                .into_iter()
                .map(|(kind, jt, ja, on)| JoinSpec { kind, src: FromSpec::Table(jt, Some(ja)), on, lateral: false })
                .collect(),
            wheres,
            groups: group.iter().map(|(c, _)| E::Col(*c)).collect(),
            havings: group.into_iter().map(|(_, h)| h).collect(),
            orders,
            limit,
            offset,
            ..Default::default()
        })
        .boxed()
}

fn b_select(d: Dialect, n_items: Option<usize>) -> BoxedStrategy<SelectSpec> {
    (
        b_select_base(d, n_items),
        proptest::option::weighted(0.2, b_select_base(d, None)),
        proptest::option::weighted(0.25, (proptest::sample::select(vec![Un::Union, Un::UnionAll, Un::Intersect, Un::Except]), b_select_base(d, n_items.or(Some(1))))),
        proptest::option::weighted(0.15, b_select_base(d, None)),
    )
        .prop_map(move |(mut s, sub, un, cte)| {
            if let Some(sub) = sub {
                s.from = vec![FromSpec::Sub(Box::new(sub), 4)];
            }
            if let Some((u, mut other)) = un {
                if n_items.is_none() {
                    s.items.truncate(1);
                }
                other.orders.clear();
                other.limit = None;
                other.offset = None;
                s.unions = vec![(u, other)];
            }
            if let Some(q) = cte {
                s.with = Some(WithSpec {
                    recursive: false,
                    ctes: vec![CteSpec { name: 0, cols: vec![], materialized: None, query: Box::new(q), derive: false }],
                    search: None,
                    cycle: None,
                });
            }
            s
        })
        .boxed()
}

fn b_returning(d: Dialect) -> BoxedStrategy<Option<stmt_spec::Returning>> {
    if d == Dialect::Mysql {
        Just(None).boxed()
    } else {
        proptest::option::weighted(
            0.3,
            prop_oneof![
                Just(stmt_spec::Returning::All),
                Just(stmt_spec::Returning::Cols(vec![0, 1])),
                b_expr(d, 1).prop_map(|e| stmt_spec::Returning::Exprs(vec![e])),
            ],
        )
        .boxed()
    }
}

fn b_insert(d: Dialect) -> BoxedStrategy<InsertSpec> {
    (1usize..4)
        .prop_flat_map(move |k| {
            let source = prop_oneof![
                3 => proptest::collection::vec(proptest::collection::vec(b_expr(d, 1), k..=k), 1..4).prop_map(InsertSource::Values),
                1 => b_select(d, Some(k)).prop_map(|s| InsertSource::Select(Box::new(s))),
            ];
            let action = if d == Dialect::Mysql {
                prop_oneof![
                    Just(ConflictAction::UpdateColumns(vec![1])),
                    b_expr(d, 1).prop_map(|e| ConflictAction::UpdateValues(vec![(1, e)])),
                ]
                .boxed()
            } else {
                prop_oneof![
                    Just(ConflictAction::DoNothing),
                    Just(ConflictAction::UpdateColumns(vec![1])),
                    b_expr(d, 1).prop_map(|e| ConflictAction::UpdateValues(vec![(1, e)])),
                ]
                .boxed()
            };
            let action_where = if d == Dialect::Mysql { Just(None).boxed() } else { proptest::option::weighted(0.4, b_expr(d, 1)).boxed() };
            (0u8..3, source, proptest::option::weighted(0.35, (action, action_where)), b_returning(d)).prop_map(move |(table, source, oc, returning)| InsertSpec {
            api: 0,
                replace: false,
                table,
                columns: (1..=k as u8).collect(),
                source,
                on_conflict: oc.map(|(action, action_where)| ConflictSpec { targets: vec![5], target_where: None, action, action_where, api: 0 }),
                returning,
                with: None,
            })
        })
        .boxed()
}

fn b_update(d: Dialect) -> BoxedStrategy<UpdateSpec> {
    (
        0u8..3,
        proptest::collection::vec((1u8..5, b_expr(d, 2)), 1..3),
        proptest::collection::vec(b_expr(d, 2), 0..3),
        proptest::collection::vec(b_order(d), 0..2),
        b_limit(),
        b_returning(d),
    )
        .prop_map(|(table, sets, wheres, orders, limit, returning)| UpdateSpec { api: 0, table, sets, from: vec![], wheres, orders, limit, returning, with: None })
        .boxed()
}

fn b_delete(d: Dialect) -> BoxedStrategy<DeleteSpec> {
    (0u8..3, proptest::collection::vec(b_expr(d, 2), 0..3), proptest::collection::vec(b_order(d), 0..2), b_limit(), b_returning(d))
        .prop_map(|(table, wheres, orders, limit, returning)| DeleteSpec { table, wheres, orders, limit, returning, with: None, api: 0 })
        .boxed()
}

/// The statement source of part B. Swap the body for the shared generator (`crate::stmt_gen`) when it exists.
pub fn stmt_strategy() -> BoxedStrategy<(Dialect, Stmt)> {
    proptest::sample::select(DIALECTS.to_vec())
        .prop_flat_map(|d| {
            prop_oneof![
                4 => b_select(d, None).prop_map(Stmt::Select),
                2 => b_insert(d).prop_map(Stmt::Insert),
                2 => b_update(d).prop_map(Stmt::Update),
                2 => b_delete(d).prop_map(Stmt::Delete),
            ]
            .prop_map(move |s| (d, s))
        })
        .boxed()
}

pub fn scase_strategy() -> impl Strategy<Value = Case> {
    (stmt_strategy(), proptest::collection::vec(v(), 0..3), proptest::option::weighted(0.12, b_text().prop_filter("non-empty alias", |s| !s.is_empty())))
        .prop_map(|((dialect, stmt), extra, alias)| Case::Stmt(SCase { dialect, stmt, extra, alias }))
}

// ------------------------------------------------------------------------------------------ entry points

pub fn run(ctx: &mut Ctx) {
    ctx.rule = "Part A: templates = segment lists (word incl. `a$b`, operator text, whitespace, quoted segment in ' \" ` [ ] with embedded \
marks / doubled / backslash-escaped delimiters, placeholder `?` or `$n`, doubled mark, the other dialect's mark as text, `$name`) normalised \
by adjacency rules, x value lists / expression lists through cust_with_values / cust_with_expr / cust_with_exprs x 3 backends, compared in \
inline and parameterised mode with the output computed from the segment list. Non-trivial = at least one placeholder and (a quoted segment \
containing the dialect's mark, or a doubled mark, or `$n` reordered/repeated); distinct by (backend, template text, mode). \
Part B: statements from stmt_spec (SELECT/INSERT/UPDATE/DELETE; values incl. strings with ? $1 quotes backslashes; IN lists; LIKE .. ESCAPE; \
LIMIT/OFFSET; subqueries; CASE; set operations; CTE): inject_parameters(build()) == to_string(). Non-trivial there = at least one parameter and \
(a string parameter containing the mark, a quote or a backslash, or a LIKE .. ESCAPE constant in the text); distinct by (backend, sql, values)."
        .into();
    ctx.assumptions.push("the literal text of an inlined value is QueryBuilder::value_to_string(value) (its correctness is C03's concern)".into());
    ctx.assumptions.push("a column argument `Expr::col(Alias)` with a plain name renders as the name between the backend's identifier quotes; `col op value` renders as `<col> <op> <value>` (C04/C05's concern)".into());
    ctx.assumptions.push("which characters form one quoted token follows src/token.rs (checked by C16): the closing delimiter ends the token unless doubled (' \" `) or preceded by a backslash".into());
    ctx.domain_restrictions.push("templates with `$0`, `$n` with n > number of arguments, or fewer arguments than positional placeholders are outside the domain (documented index panic) and are not generated".into());
    ctx.domain_restrictions.push("a lone `$` on Postgres that is neither doubled nor followed by a word, a backslash / bracket / quote delimiter outside quoted segments, and adjacencies with two readings (`???`, `$$$1`, `$1$2`, `a$1` as placeholder, `?1` on SQLite) are outside the domain: the generator separates them with whitespace".into());
    ctx.domain_restrictions.push("`$name` on Postgres (mark followed by a non-number) is INSIDE the domain: it is neither `$n` nor a doubled mark, so by the property text every character of it is emitted unchanged".into());
    ctx.domain_restrictions.push("inject_parameters is applied to built templates only when the built text carries no literal lone mark (no doubled mark / `$name` in the template), because such text is ambiguous for any consumer of the parameterised form".into());
    ctx.domain_restrictions.push("part B statements contain no Expr::cust text with the backend's mark".into());

    let max_len = ctx.tier.pick(4, 5);
    let total = 6 * count_strings(ALPHABET_LEN, max_len);
    ctx.run_indexed("templates-exhaustive", total, &nth_exhaustive, &check);
    if let Some(p) = ctx.parts.last_mut() {
        p.exhaustive = true;
    }
    ctx.extra.insert("exhaustive_max_segments".into(), serde_json::json!(max_len));
    ctx.extra.insert("exhaustive_alphabet".into(), serde_json::json!(alphabet(Dialect::Postgres).iter().map(|s| seg_text(Dialect::Postgres, s)).collect::<Vec<_>>()));
    let n = ctx.tier.pick(16 * 25_000, 16 * 400_000);
    ctx.run_proptest("templates", n, &tcase_strategy, &check);
    let n = ctx.tier.pick(16 * 6_000, 16 * 100_000);
    ctx.run_proptest("inject-statements", n, &scase_strategy, &check);
}

pub fn replay(_part: &str, case: &J, obs: &mut Obs) -> R {
    let c: Case = from_case(case)?;
    check(&c, obs)
}
