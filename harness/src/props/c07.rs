//! C07 — on SQLite, a built statement does what the builder calls say.
//!
//! Oracle: the same spec is rendered by `stmt_ref` (independent, fully explicit SQLite SQL). On
//! three fresh copies of a fixed multi-table database (one rolled-back transaction each) the real
//! engine runs (i) the reference, (ii) `to_string(SqliteQueryBuilder)`, (iii) `build(..)` with the
//! returned values bound. (ii) and (iii) must be accepted whenever (i) is, return the same rows
//! (as a sequence when the statement is totally ordered, as a multiset otherwise) and leave the
//! same table contents. A case whose *reference* is rejected is a generator defect: discarded and
//! counted (bounded by the runner's health check), never reported.

use crate::runner::*;
use crate::sqlite::{sorted, Bind, Db, Row};
use crate::stmt_gen::{self, ExecOpts};
use crate::stmt_ref::{ref_stmt, SCHEMA};
use crate::stmt_spec::*;
use crate::util::*;
use proptest::prelude::*;
use sea_query::{Value, Values};
use serde::{Deserialize, Serialize};
use serde_json::Value as J;

#[derive(Serialize, Deserialize, Clone, Debug, PartialEq, Eq, Hash)]
pub struct Case {
    pub stmt: Stmt,
}

thread_local! {
    pub static DB: Db = {
        let db = Db::memory();
        for s in SCHEMA {
            db.exec(s).expect("schema");
        }
        db
    };
}

#[derive(Debug, Clone, PartialEq)]
pub struct Outcome {
    pub rows: Vec<Row>,
    pub tables: Vec<Vec<Row>>,
}

pub fn bind_of(v: &Value) -> Option<Bind> {
    Some(match v {
        Value::Bool(Some(b)) => Bind::Int(*b as i64),
        Value::TinyInt(Some(x)) => Bind::Int(*x as i64),
        Value::SmallInt(Some(x)) => Bind::Int(*x as i64),
        Value::Int(Some(x)) => Bind::Int(*x as i64),
        Value::BigInt(Some(x)) => Bind::Int(*x),
        Value::TinyUnsigned(Some(x)) => Bind::Int(*x as i64),
        Value::SmallUnsigned(Some(x)) => Bind::Int(*x as i64),
        Value::Unsigned(Some(x)) => Bind::Int(*x as i64),
        Value::BigUnsigned(Some(x)) if *x <= i64::MAX as u64 => Bind::Int(*x as i64),
        Value::Float(Some(x)) => Bind::Real(*x as f64),
        Value::Double(Some(x)) => Bind::Real(*x),
        Value::String(Some(s)) => Bind::Text((**s).clone()),
        Value::Char(Some(c)) => Bind::Text(c.to_string()),
        Value::Bytes(Some(b)) => Bind::Blob((**b).clone()),
        Value::Bool(None) | Value::Int(None) | Value::BigInt(None) | Value::String(None) | Value::Double(None) => Bind::Null,
        _ => return None,
    })
}

/// run one statement on a fresh copy of the database; Err = the engine rejected it
pub fn execute(sql: &str, binds: &[Bind]) -> Result<Outcome, String> {
    DB.with(|db| {
        db.rolled_back(|db| {
            let (_, rows) = db.query(sql, binds).map_err(|e| if e.interrupted { format!("INTERRUPTED {}", e.msg) } else { e.msg })?;
            let mut tables = vec![];
            for t in ["t1", "t2", "t3"] {
                tables.push(db.rows(&format!("SELECT * FROM \"{t}\" ORDER BY \"id\"")).map_err(|e| e.msg)?);
            }
            Ok(Outcome { rows, tables })
        })
    })
}

fn ordered(s: &Stmt) -> bool {
    match s {
        Stmt::Select(q) => !q.orders.is_empty(),
        _ => false,
    }
}

fn clause_kinds(s: &Stmt) -> usize {
    match s {
        Stmt::Select(q) => {
            [q.distinct.is_some(), !q.joins.is_empty(), !q.wheres.is_empty(), !q.groups.is_empty(), !q.havings.is_empty(), !q.unions.is_empty(), !q.orders.is_empty(), q.limit.is_some(), q.offset.is_some(), q.with.is_some(), q.window.is_some() || q.items.iter().any(|i| i.win.is_some()), q.from.len() > 1 || q.from.iter().any(|f| !matches!(f, FromSpec::Table(_, None)))]
                .iter()
                .filter(|x| **x)
                .count()
        }
        Stmt::Insert(i) => 1 + [i.replace, i.on_conflict.is_some(), i.returning.is_some(), matches!(i.source, InsertSource::Select(_)), matches!(&i.source, InsertSource::Values(r) if r.len() > 1)].iter().filter(|x| **x).count(),
        Stmt::Update(u) => 1 + [!u.from.is_empty(), !u.wheres.is_empty(), !u.orders.is_empty(), u.limit.is_some(), u.returning.is_some(), u.sets.len() > 1].iter().filter(|x| **x).count(),
        Stmt::Delete(x) => 1 + [!x.wheres.is_empty(), !x.orders.is_empty(), x.limit.is_some(), x.returning.is_some()].iter().filter(|x| **x).count(),
    }
}

pub fn compare(what: &str, reference: &Outcome, got: &Outcome, is_ordered: bool) -> Result<(), (String, String)> {
    let rows_equal = if is_ordered { reference.rows == got.rows } else { sorted(reference.rows.clone()) == sorted(got.rows.clone()) };
    if !rows_equal {
        return Err((format!("{what}-rows-differ"), format!("reference returns {} rows {:?}\n{what} returns {} rows {:?}", reference.rows.len(), &reference.rows.iter().take(6).collect::<Vec<_>>(), got.rows.len(), &got.rows.iter().take(6).collect::<Vec<_>>())));
    }
    for (i, t) in ["t1", "t2", "t3"].iter().enumerate() {
        if reference.tables[i] != got.tables[i] {
            return Err((format!("{what}-table-contents-differ"), format!("table {t}: reference leaves {:?}\n{what} leaves {:?}", reference.tables[i], got.tables[i])));
        }
    }
    Ok(())
}

/// does the spec contain `x IS <bound boolean>` / `x IS NOT <bound boolean>`?
fn has_is_bound_bool(s: &Stmt) -> bool {
    let mut j = serde_json::to_string(s).unwrap_or_default();
    // an enum cast writes nothing on SQLite: `x IS (true AS ENUM)` is the same bound boolean
    while j.contains("{\"AsEnum\":{\"Bool\":") {
        j = j.replace("{\"AsEnum\":{\"Bool\":", "{\"Bool\":");
    }
    j.contains("\"Is\",{\"Bool\":") || j.contains("\"IsNot\",{\"Bool\":")
}

fn feature_sig(s: &Stmt, sql: &str) -> String {
    // a coarse localisation of what the statement uses, most specific first
    let kind = s.kind();
    let mut f = vec![];
    for (needle, name) in [("WINDOW ", "named-window"), ("PRECEDING", "frame"), ("FOLLOWING", "frame"), (" OVER ", "window"), ("RETURNING", "returning"), ("ON CONFLICT", "upsert"), ("EXCEPT", "set-op"), ("INTERSECT", "set-op"), ("UNION", "set-op"), ("WITH ", "cte"), ("NULLS ", "nulls-order"), ("CASE WHEN", "field-order"), ("LIMIT", "limit"), ("JOIN", "join"), ("GROUP BY", "group")] {
        if sql.contains(needle) && !f.contains(&name) {
            f.push(name);
        }
    }
    f.truncate(2);
    format!("{kind}/{}", if f.is_empty() { "plain".to_string() } else { f.join("+") })
}

pub fn check(c: &Case, obs: &mut Obs) -> R {
    let d = Dialect::Sqlite;
    let st = &c.stmt;
    let Some(reference_sql) = ref_stmt(st) else { return discard("spec has no reference rendering") };
    let mut runtime_error: Option<String> = None;
    let reference = match execute(&reference_sql, &[]) {
        Ok(o) => o,
        Err(e) => {
            if e.starts_with("INTERRUPTED") {
                return discard("reference exceeds the step budget");
            }
            if e.starts_with("step:") {
                // the statement is well-formed but fails at run time (constraint, malformed JSON ...): the renderings must fail alike
                runtime_error = Some(e.clone());
                Outcome { rows: vec![], tables: vec![] }
            } else {
                if std::env::var("SQV_DEBUG_DISCARD").is_ok() {
                    eprintln!("REFERENCE REJECTED: {reference_sql} -- {e}");
                }
                return discard(format!("reference rejected: {}", e.chars().take(50).collect::<String>()));
            }
        }
    };
    let built = guard("builder-calls", || st.build(d))?;
    let inline = guard("to_string", || built.to_string(d))?;
    let (psql, values) = guard("build", || built.build(d))?;
    obs.note(inline.clone());
    let is_ordered = ordered(st);
    let fsig = feature_sig(st, &inline);
    if let Some(want) = &runtime_error {
        let binds: Option<Vec<Bind>> = values.0.iter().map(bind_of).collect();
        for (what, r) in [("inline", execute(&inline, &[])), ("bound", execute(&psql, &binds.unwrap_or_default()))] {
            match r {
                Err(e) if &e == want => {}
                other => {
                    if what == "bound" && has_is_bound_bool(st) {
                        return fail("bound-form-differs/is-with-bound-boolean", format!("reference {reference_sql:?} fails with {want:?}; the bound form {psql:?} does not\nspec {st:?}"));
                    }
                    return fail(
                        format!("runtime-error-mismatch/{what}/{fsig}"),
                        format!("reference {reference_sql:?} fails with {want:?}; {what} form gives {:?}\ninline {inline:?}\nspec {st:?}", other.map(|o| o.rows.len())),
                    )
                }
            }
        }
        obs.label("both-fail-at-runtime");
        return Ok(());
    }
    // (ii) inline
    match execute(&inline, &[]) {
        Err(e) => {
            let returning_then_order = match st {
                Stmt::Update(u) => u.returning.is_some() && (!u.orders.is_empty() || u.limit.is_some()),
                Stmt::Delete(x) => x.returning.is_some() && (!x.orders.is_empty() || x.limit.is_some()),
                _ => false,
            };
            if returning_then_order && e.contains("near \"RETURNING\": syntax error") {
                return fail(format!("engine-rejects/returning-after-order-by-limit/{}", st.kind()), format!("SQLite rejects {inline:?}: {e}\n(SQLite's grammar wants RETURNING before ORDER BY / LIMIT)\nreference {reference_sql:?} runs\nspec {st:?}"));
            }
            return fail(format!("engine-rejects-inline/{fsig}"), format!("SQLite rejects {inline:?}: {e}\nreference {reference_sql:?} runs\nspec {st:?}"));
        }
        Ok(got) => {
            if let Err((sig, detail)) = compare("inline", &reference, &got, is_ordered) {
                if let Stmt::Select(q) = st {
                    if q.unions.iter().any(|(_, arm)| !arm.unions.is_empty()) {
                        return fail(format!("{sig}/nested-set-operation-flattened"), format!("{inline:?}\nreference {reference_sql:?}\n{detail}\nspec {st:?}"));
                    }
                }
                return fail(format!("{sig}/{fsig}"), format!("{inline:?}\nreference {reference_sql:?}\n{detail}\nspec {st:?}"));
            }
        }
    }
    // (iii) parameterised with bound values
    let binds: Option<Vec<Bind>> = values.0.iter().map(bind_of).collect();
    match binds {
        None => obs.label("unbindable-value"),
        Some(binds) => match execute(&psql, &binds) {
            Err(e) => {
                if has_is_bound_bool(st) {
                    return fail("bound-form-differs/is-with-bound-boolean", format!("the bound form {psql:?} fails ({e}) where the inline form {inline:?} runs\nspec {st:?}"));
                }
                return fail(format!("engine-rejects-bound/{fsig}"), format!("SQLite rejects {psql:?} with {:?}: {e}\nspec {st:?}", values_debug(&values)));
            }
            Ok(got) => {
                if let Err((sig, detail)) = compare("bound", &reference, &got, is_ordered) {
                    if has_is_bound_bool(st) {
                        return fail(
                            "bound-form-differs/is-with-bound-boolean",
                            format!("{psql:?} with {:?}\ninline {inline:?}\n`x IS TRUE` is a truth test, `x IS ?` bound to true is a null-safe comparison with 1\n{detail}\nspec {st:?}", values_debug(&values)),
                        );
                    }
                    return fail(format!("{sig}/{fsig}"), format!("{psql:?} with {:?}\nreference {reference_sql:?}\n{detail}\nspec {st:?}", values_debug(&values)));
                }
            }
        },
    }
    // ---- non-triviality
    let kinds = clause_kinds(st);
    let affected = match st {
        Stmt::Select(_) => reference.rows.len(),
        _ => {
            // rows changed in the target tables
            DB.with(|db| {
                let mut n = 0;
                for (i, t) in ["t1", "t2", "t3"].iter().enumerate() {
                    let before = db.rows(&format!("SELECT * FROM \"{t}\" ORDER BY \"id\"")).unwrap_or_default();
                    let after = &reference.tables[i];
                    n += after.iter().filter(|r| !before.contains(r)).count() + before.iter().filter(|r| !after.contains(r)).count();
                }
                n
            })
        }
    };
    obs.label(st.kind());
    obs.label(format!("feature/{}", fsig));
    if reference_sql.contains("WITH RECURSIVE") {
        obs.label(if reference_sql.contains("+ (100)") { "recursive-cte/self-referencing" } else { "recursive-cte/keyword-only" });
    }
    let partial = match st {
        Stmt::Select(_) => affected > 0 && affected < 36,
        _ => affected > 0 && affected < 10,
    };
    if kinds >= 3 && partial {
        obs.nontrivial(&inline);
        obs.label("nontrivial");
    }
    if affected == 0 {
        obs.label("empty-effect");
    }
    Ok(())
}

fn values_debug(v: &Values) -> Vec<String> {
    v.0.iter().map(|x| format!("{x:?}")).collect()
}

pub fn case_strategy() -> impl Strategy<Value = Case> {
    stmt_gen::stmt_exec(ExecOpts { portable: false }).prop_map(|stmt| Case { stmt })
}

pub fn run(ctx: &mut Ctx) {
    ctx.rule = "cases = statement specs over a fixed four-table schema (rows with NULLs, duplicates, a unique key) from the SQLite-supported feature set: DISTINCT, expressions, aliases, FROM table / \
subquery / VALUES / CTE, every join type, WHERE, GROUP BY, HAVING, set-operation chains (incl. a nested arm), ORDER BY with NULLS FIRST/LAST and FIELD order, LIMIT / OFFSET, window functions (inline and named, frames), \
CTEs (materialized), INSERT VALUES / SELECT / DEFAULT VALUES, REPLACE, ON CONFLICT variants, UPDATE..FROM, ORDER BY / LIMIT on UPDATE / DELETE, RETURNING. Each is executed three times (reference, inline, bound) on fresh copies. \
Non-trivial = at least 3 clause kinds and an effect that is neither empty nor everything; distinct by rendered SQL."
        .into();
    ctx.assumptions.push(format!("SQLite engine {} (system library) is the oracle's executor; the reference rendering is written in stmt_ref.rs", crate::sqlite::version()));
    ctx.domain_restrictions.push("IS / IS NOT: a boolean right operand is written as the keyword in both modes (the bound form is the known finding is-with-bound-boolean, demonstrated by its own reproducer, not re-searched); other constant right operands are NULL".into());
    ctx.domain_restrictions.push("engine-imposed: LIMIT / OFFSET always with a total ORDER BY; set-operation arms without ORDER BY / LIMIT; ORDER BY of a compound select names result columns; window ORDER BY made total; INSERT..SELECT + ON CONFLICT gets a WHERE; LATERAL, locks, SEARCH / CYCLE are not SQLite features; a recursive CTE has one fixed terminating shape (base rows UNION ALL one more row per base row)".into());
    // float values in arithmetic: the inline literal must denote the real number that the bound value is (2.0 is not 2)
    ctx.run_list("float-values", &float_cases(), &check);
    let n = ctx.tier.pick(250_000, 5_000_000);
    ctx.run_proptest("statements", n, &case_strategy, &check);
}

fn float_cases() -> Vec<Case> {
    use crate::expr_spec::{Op, E, VS};
    let mut v = vec![];
    let values: [f64; 9] = [2.0, 1.0, 0.5, -3.0, 1e3, 2.5, 1e15, 4.0, 0.0];
    let ops = [Op::Div, Op::Mul, Op::Add, Op::Sub, Op::Eq, Op::Lt];
    for x in values {
        for op in ops {
            for single in [false, true] {
                // an f32 is bound to SQLite widened to a double; only values whose shortest decimal text denotes the same double
                // are comparable (1e15 is not exactly representable as f32)
                if single && (x as f32) as f64 != x {
                    continue;
                }
                for col_left in [true, false] {
                    let val = if single { E::V(VS::F32((x as f32).to_bits())) } else { E::V(VS::F64(x.to_bits())) };
                    let col = E::QCol(0, 1);
                    let e = if col_left { E::Bin(Box::new(col), op, Box::new(val)) } else { E::Bin(Box::new(val), op, Box::new(col)) };
                    let mut s = SelectSpec::default();
                    s.items = vec![Item { e: E::QCol(0, 0), alias: None, win: None }, Item { e, alias: None, win: None }];
                    s.from = vec![FromSpec::Table(0, None)];
                    s.orders = vec![OrdSpec { e: E::QCol(0, 0), dir: Dir::Asc, nulls: None }];
                    v.push(Case { stmt: Stmt::Select(s) });
                }
            }
        }
    }
    // byte strings and texts as whole select items: the inline literal must denote the value that is bound
    let blobs: Vec<Vec<u8>> = vec![vec![], vec![0], vec![1, 2, 0x0a], vec![0, 0x0f, 0x10, 0xff], vec![0x0a; 3], (0u8..=20).collect(), vec![0xab, 0xcd, 0xef]];
    let texts = ["", "it's", "a\\b", "\n\t", "é😀", "x'00'"];
    let mut items: Vec<E> = blobs.into_iter().map(|b| E::V(VS::Bytes(b))).collect();
    items.extend(texts.iter().map(|t| E::V(VS::Str(t.to_string()))));
    for val in items {
        let mut s = SelectSpec::default();
        s.items = vec![Item { e: E::QCol(0, 0), alias: None, win: None }, Item { e: val, alias: None, win: None }];
        s.from = vec![FromSpec::Table(0, None)];
        s.orders = vec![OrdSpec { e: E::QCol(0, 0), dir: Dir::Asc, nulls: None }];
        s.limit = Some(2);
        v.push(Case { stmt: Stmt::Select(s) });
    }
    v
}

pub fn replay(_part: &str, case: &J, obs: &mut Obs) -> R {
    let c: Case = from_case(case)?;
    check(&c, obs)
}
