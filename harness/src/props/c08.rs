//! C08 — MySQL / Postgres statements carry every clause given, in grammar order.
//!
//! Oracle: the rendered statement is lexed with the dialect lexer and parsed by `stmt_inv`'s
//! recursive-descent clause parser for that dialect (which enforces clause order, multiplicity,
//! separators and dialect exclusivity). The recovered clause inventory — clauses, items in order,
//! expressions as neutral trees — must equal the inventory the spec calls for in that dialect
//! (`stmt_inv::expected_statement`, written from the spec alone). Both rendering modes.

use crate::lex;
use crate::parse::PErr;
use crate::runner::*;
use crate::stmt_gen;
use crate::stmt_inv::{expected_statement, first_difference, parse_statement};
use crate::stmt_spec::*;
use crate::util::*;
use proptest::prelude::*;
use serde::{Deserialize, Serialize};
use serde_json::Value as J;

#[derive(Serialize, Deserialize, Clone, Debug, PartialEq, Eq, Hash)]
pub struct Case {
    pub dialect: Dialect,
    pub stmt: Stmt,
}

fn normalise_params(j: &mut J) {
    match j {
        J::Object(m) => {
            if m.len() == 1 && m.contains_key("Param") {
                m.insert("Param".into(), J::Null);
                return;
            }
            for v in m.values_mut() {
                normalise_params(v);
            }
        }
        J::Array(a) => a.iter_mut().for_each(normalise_params),
        _ => {}
    }
}

fn strip_indices(path: &str) -> String {
    path.split('/').filter(|s| !s.is_empty() && !s.chars().all(|c| c.is_ascii_digit())).collect::<Vec<_>>().join("/")
}

fn uses_override_path(sql: &str, d: Dialect) -> bool {
    match d {
        Dialect::Mysql => sql.contains(" JOIN ") && sql.starts_with("UPDATE") || sql.contains("IS NULL ASC,") || sql.contains("IS NULL DESC,") || sql.contains("ROW(") || sql.contains("INDEX ") || sql.contains("DUPLICATE KEY"),
        _ => sql.contains("DISTINCT ON") || sql.contains("TABLESAMPLE") || sql.contains("NULLS ") || sql.contains("MATERIALIZED") || sql.contains("SEARCH ") || sql.contains("CYCLE ") || sql.contains("ILIKE") || sql.contains("ON CONFLICT") || sql.contains("RETURNING") || sql.contains("FOR NO KEY") || sql.contains("FOR KEY SHARE"),
    }
}

fn clause_kinds(j: &J) -> usize {
    // number of non-empty clauses of the top-level statement
    let body = j.as_object().and_then(|m| m.values().next()).cloned().unwrap_or(J::Null);
    body.as_object().map(|m| m.values().filter(|v| !v.is_null() && v.as_array().map(|a| !a.is_empty()).unwrap_or(true) && *v != &J::Bool(false)).count()).unwrap_or(0)
}

pub fn check(c: &Case, obs: &mut Obs) -> R {
    let d = c.dialect;
    if d == Dialect::Sqlite {
        return discard("C08 is about MySQL and Postgres");
    }
    let st = &c.stmt;
    let built = guard("builder-calls", || st.build(d))?;
    let kind = st.kind();
    let mut noted = false;
    for params in [false, true] {
        let sql = if params { guard("build", || built.build(d))?.0 } else { guard("to_string", || built.to_string(d))? };
        if !noted {
            obs.note(sql.clone());
            noted = true;
        }
        let mode = if params { "build" } else { "inline" };
        let toks = match lex::lex(d, &sql) {
            Ok(t) => t,
            Err(e) => return fail(format!("lex-error/{}/{kind}", d.name()), format!("[{mode}] {sql:?}: {e:?}\nspec {st:?}")),
        };
        let mut got = match parse_statement(d, &toks) {
            Ok(j) => j,
            Err(PErr::Undecided(w)) => {
                obs.undecided(w);
                return Ok(());
            }
            Err(PErr::Syntax { msg, .. }) => {
                let class = if msg.contains("CROSS JOIN takes no ON") {
                    "pg/cross-join-with-on".to_string()
                } else if msg.contains("WITH cannot precede INSERT") {
                    "mysql/with-before-insert".to_string()
                } else {
                    let short: String = msg.split(" (at token").next().unwrap_or("").chars().take(50).collect();
                    format!("unparsable/{}/{kind}/{}", d.name(), sig_clean(&short))
                };
                return fail(class, format!("[{mode}] {sql:?} does not follow the {} statement grammar: {msg}\nspec {st:?}", d.name()));
            }
        };
        if params {
            normalise_params(&mut got);
        }
        let want = expected_statement(st, d, params);
        if let Some((path, g, w)) = first_difference(&got, &want, "") {
            return fail(
                format!("inventory-differs/{}/{}", d.name(), strip_indices(&path)),
                format!("[{mode}] {sql:?}\n at {path}: the statement carries {g}\n the builder was given {w}\nspec {st:?}"),
            );
        }
        if !params {
            let kinds = clause_kinds(&want);
            obs.label(kind);
            if kinds >= 4 && uses_override_path(&sql, d) {
                obs.nontrivial(&sql);
                obs.label(format!("clauses>=4+override/{}", d.name()));
            }
        }
    }
    Ok(())
}

pub fn case_strategy() -> impl Strategy<Value = Case> {
    prop_oneof![
        stmt_gen::stmt_render(Dialect::Mysql).prop_map(|stmt| Case { dialect: Dialect::Mysql, stmt }),
        stmt_gen::stmt_render(Dialect::Postgres).prop_map(|stmt| Case { dialect: Dialect::Postgres, stmt }),
    ]
}

pub fn run(ctx: &mut Ctx) {
    ctx.rule = "cases = (MySQL | Postgres, statement spec) from C01's generator: SELECT with DISTINCT (ON), items with OVER, FROM tables / subqueries / VALUES / CTE names, index hints, TABLESAMPLE, joins with ON, WHERE, GROUP BY, HAVING, named WINDOW, \
set operations, ORDER BY with NULLS and FIELD, LIMIT / OFFSET, locks, WITH (MATERIALIZED, SEARCH / CYCLE); INSERT / REPLACE with VALUES / SELECT / default rows, upsert, RETURNING; UPDATE (MySQL joined form, Postgres FROM); DELETE. Both rendering modes. \
Non-trivial = at least 4 clause kinds and at least one override path of the backend (MySQL update-join, NULLS emulation, VALUES ROW, hints, ON DUPLICATE KEY; Postgres DISTINCT ON, TABLESAMPLE, NULLS, MATERIALIZED, SEARCH / CYCLE, ON CONFLICT, RETURNING, extended locks); distinct by rendered SQL."
        .into();
    ctx.assumptions.push("statement grammars of MySQL 8 and PostgreSQL transcribed by hand from the reference manuals (stmt_inv.rs), expression grammars from parse.rs; no engine is available offline".into());
    ctx.domain_restrictions.push("see stmt_gen::fix_render: combinations a backend documents as unsupported or that the engine grammar cannot express are not generated (MySQL: no FULL OUTER JOIN, locks only FOR UPDATE / SHARE, one table in a joined UPDATE; Postgres: no REPLACE, no ORDER BY / LIMIT on UPDATE / DELETE; hints / TABLESAMPLE only with exactly one FROM table; SEARCH / CYCLE only with exactly one CTE)".into());
    let n = ctx.tier.pick(200_000, 4_000_000);
    ctx.run_proptest("statements", n, &case_strategy, &check);
}

pub fn replay(_part: &str, case: &J, obs: &mut Obs) -> R {
    let c: Case = from_case(case)?;
    check(&c, obs)
}
