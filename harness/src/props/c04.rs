//! C04 — identifiers are quoted so that they decode to exactly the supplied name.
//!
//! Same differential-lexing oracle as C03, for identifier tokens: the statement is rendered with the
//! name under test and with a harmless reference name; both texts are lexed with the dialect lexer
//! (MySQL backtick doubling, Postgres / SQLite double-quote doubling); the token streams must agree
//! everywhere except at the identifier slot(s), where exactly one quoted-identifier token must
//! decode to the supplied name. SQLite names are also read back from the engine's catalogue.

use crate::lex::{self, Tok};
use crate::runner::*;
use crate::sqlite::{Cell, Db};
use crate::util::*;
use crate::with_backend;
use proptest::prelude::*;
use sea_query::extension::mysql::{IndexHintScope, MySqlSelectStatementExt};
use sea_query::extension::postgres::Type;
use sea_query::*;
use serde::{Deserialize, Serialize};
use serde_json::Value as J;

#[derive(Serialize, Deserialize, Clone, Copy, Debug, PartialEq, Eq, Hash, PartialOrd, Ord)]
pub enum Pos {
    // ---- query statements
    FromTable,
    FromSchema,
    FromDatabase,
    FromTableOfSchema,
    TableAlias,
    Column,
    ColumnTable,
    ColumnSchema,
    TableAsterisk,
    ExprAlias,
    SubqueryAlias,
    ValuesAlias,
    FunctionAlias,
    JoinTable,
    JoinAlias,
    GroupBy,
    OrderBy,
    CteName,
    CteColumn,
    WindowName,
    WindowOver,
    IndexHint,
    LockTable,
    InsertTable,
    InsertColumn,
    OnConflictTarget,
    OnConflictUpdateColumn,
    OnConflictValueColumn,
    UpdateTable,
    UpdateSetColumn,
    DeleteTable,
    ReturningColumn,
    DistinctOn,
    AsEnumType,
    SearchSet,
    CycleSet,
    CycleUsing,
    CycleColumn,
    DoNothingOnColumn,
    SchemaTableAlias,
    DatabaseTableAlias,
    JoinSubqueryAlias,
    JoinLateralAlias,
    CastAsQuoted,
    UpdateFromTable,
    InsertSelectColumn,
    ColumnOfQualified,
    OrderByQualified,
    WindowPartition,
    // ---- schema statements
    CreateTableName,
    CreateTableSchema,
    CreateColumn,
    TableIndexName,
    TableIndexColumn,
    TablePrimaryKeyColumn,
    TableFkName,
    TableFkColumn,
    TableFkRefTable,
    TableFkRefColumn,
    AlterTable,
    AlterAddColumn,
    AlterRenameFrom,
    AlterRenameTo,
    AlterDropColumn,
    AlterModifyColumn,
    AlterDropFk,
    AlterAddFkName,
    RenameFrom,
    RenameTo,
    DropTable,
    TruncateTable,
    IndexName,
    IndexTable,
    IndexColumn,
    IndexInclude,
    DropIndexName,
    DropIndexTable,
    FkCreateName,
    FkCreateTable,
    FkCreateColumn,
    FkCreateRefTable,
    FkCreateRefColumn,
    FkDropName,
    FkDropTable,
    TypeCreateName,
    TypeCreateSchema,
    TypeAlterName,
    TypeDropName,
    IndexTableSchema,
    DropTableSchema,
    AlterTableSchema,
    FkRefTableSchema,
    TruncateTableSchema,
    DropIndexSchema,
}

pub const ALL_POS: &[Pos] = &[
    Pos::FromTable,
    Pos::FromSchema,
    Pos::FromDatabase,
    Pos::FromTableOfSchema,
    Pos::TableAlias,
    Pos::Column,
    Pos::ColumnTable,
    Pos::ColumnSchema,
    Pos::TableAsterisk,
    Pos::ExprAlias,
    Pos::SubqueryAlias,
    Pos::ValuesAlias,
    Pos::FunctionAlias,
    Pos::JoinTable,
    Pos::JoinAlias,
    Pos::GroupBy,
    Pos::OrderBy,
    Pos::CteName,
    Pos::CteColumn,
    Pos::WindowName,
    Pos::WindowOver,
    Pos::IndexHint,
    Pos::LockTable,
    Pos::InsertTable,
    Pos::InsertColumn,
    Pos::OnConflictTarget,
    Pos::OnConflictUpdateColumn,
    Pos::OnConflictValueColumn,
    Pos::UpdateTable,
    Pos::UpdateSetColumn,
    Pos::DeleteTable,
    Pos::ReturningColumn,
    Pos::DistinctOn,
    Pos::AsEnumType,
    Pos::CreateTableName,
    Pos::CreateTableSchema,
    Pos::CreateColumn,
    Pos::TableIndexName,
    Pos::TableIndexColumn,
    Pos::TablePrimaryKeyColumn,
    Pos::TableFkName,
    Pos::TableFkColumn,
    Pos::TableFkRefTable,
    Pos::TableFkRefColumn,
    Pos::AlterTable,
    Pos::AlterAddColumn,
    Pos::AlterRenameFrom,
    Pos::AlterRenameTo,
    Pos::AlterDropColumn,
    Pos::AlterModifyColumn,
    Pos::AlterDropFk,
    Pos::AlterAddFkName,
    Pos::RenameFrom,
    Pos::RenameTo,
    Pos::DropTable,
    Pos::TruncateTable,
    Pos::IndexName,
    Pos::IndexTable,
    Pos::IndexColumn,
    Pos::IndexInclude,
    Pos::DropIndexName,
    Pos::DropIndexTable,
    Pos::FkCreateName,
    Pos::FkCreateTable,
    Pos::FkCreateColumn,
    Pos::FkCreateRefTable,
    Pos::FkCreateRefColumn,
    Pos::FkDropName,
    Pos::FkDropTable,
    Pos::TypeCreateName,
    Pos::TypeCreateSchema,
    Pos::TypeAlterName,
    Pos::TypeDropName,
    Pos::SearchSet,
    Pos::CycleSet,
    Pos::CycleUsing,
    Pos::CycleColumn,
    Pos::DoNothingOnColumn,
    Pos::SchemaTableAlias,
    Pos::DatabaseTableAlias,
    Pos::JoinSubqueryAlias,
    Pos::JoinLateralAlias,
    Pos::CastAsQuoted,
    Pos::UpdateFromTable,
    Pos::InsertSelectColumn,
    Pos::ColumnOfQualified,
    Pos::OrderByQualified,
    Pos::WindowPartition,
    Pos::IndexTableSchema,
    Pos::DropTableSchema,
    Pos::AlterTableSchema,
    Pos::FkRefTableSchema,
    Pos::TruncateTableSchema,
    Pos::DropIndexSchema,
];

#[derive(Serialize, Deserialize, Clone, Debug, PartialEq, Eq, Hash)]
pub struct Case {
    pub pos: Pos,
    pub dialect: Dialect,
    pub name: String,
}

fn a(s: &str) -> Alias {
    Alias::new(s)
}

/// Positions a dialect supports (documented panics / overrides that omit the clause are outside the domain).
pub fn applicable(pos: Pos, d: Dialect) -> bool {
    use Dialect::*;
    use Pos::*;
    match pos {
        IndexHint => d == Mysql,
        LockTable => d != Sqlite,          // SQLite omits locks by design
        OnConflictTarget => d != Mysql,    // MySQL has no conflict target
        ReturningColumn => d != Mysql,     // MySQL has no RETURNING
        DistinctOn | AsEnumType | IndexInclude | TypeCreateName | TypeCreateSchema | TypeAlterName | TypeDropName => d == Postgres,
        TruncateTable | AlterModifyColumn | AlterDropFk | AlterAddFkName => d != Sqlite,
        TableFkName => d != Sqlite,        // the SQLite backend does not write constraint names of in-table foreign keys
        FkCreateName | FkCreateTable | FkCreateColumn | FkCreateRefTable | FkCreateRefColumn | FkDropName | FkDropTable => d != Sqlite,
        DropIndexTable => d == Mysql,      // only MySQL writes the table of DROP INDEX
        SearchSet | CycleSet | CycleUsing | CycleColumn => d == Postgres, // only the Postgres backend writes SEARCH / CYCLE
        DoNothingOnColumn => d == Mysql,                                   // `pk = pk` emulation; the others write DO NOTHING without columns
        JoinLateralAlias => d != Sqlite,
        UpdateFromTable => d != Mysql,
        TruncateTableSchema => d != Sqlite,
        FkRefTableSchema | DropIndexSchema => d == Postgres, // the other backends panic "Not supported" for qualified tables here
        IndexTableSchema => d == Postgres, // MySQL / SQLite: documented panic "Not supported" for a schema-qualified index table
        WindowName | WindowOver => true,
        _ => true,
    }
}

/// how many identifier slots carry the name in the statement of `pos`
fn slots(pos: Pos, d: Dialect) -> usize {
    match pos {
        // MySQL do_nothing_on writes `pk = pk`; ON DUPLICATE KEY UPDATE c = VALUES(c) writes the column twice
        Pos::OnConflictUpdateColumn | Pos::DoNothingOnColumn => 2,
        // Postgres writes one `ALTER COLUMN <name>` per specification (TYPE .., SET NOT NULL)
        Pos::AlterModifyColumn if d == Dialect::Postgres => 2,
        _ => 1,
    }
}

fn render(pos: Pos, d: Dialect, n: &str) -> String {
    use Pos::*;
    macro_rules! q {
        ($stmt:expr) => {{
            let s = $stmt;
            with_backend!(d, b => s.to_string(b))
        }};
    }
    match pos {
        FromTable => q!(Query::select().column(a("c")).from(a(n)).to_owned()),
        FromSchema => q!(Query::select().column(a("c")).from((a(n), a("t"))).to_owned()),
        FromDatabase => q!(Query::select().column(a("c")).from((a(n), a("s"), a("t"))).to_owned()),
        FromTableOfSchema => q!(Query::select().column(a("c")).from((a("s"), a(n))).to_owned()),
        TableAlias => q!(Query::select().column(a("c")).from_as(a("t"), a(n)).to_owned()),
        Column => q!(Query::select().column(a(n)).from(a("t")).to_owned()),
        ColumnTable => q!(Query::select().column((a(n), a("c"))).from(a("t")).to_owned()),
        ColumnSchema => q!(Query::select().column((a(n), a("t"), a("c"))).from(a("t")).to_owned()),
        TableAsterisk => q!(Query::select().column((a(n), Asterisk)).from(a("t")).to_owned()),
        ExprAlias => q!(Query::select().expr_as(Expr::col(a("c")).add(1), a(n)).from(a("t")).to_owned()),
        SubqueryAlias => q!(Query::select().column(a("c")).from_subquery(Query::select().column(a("c")).from(a("t")).to_owned(), a(n)).to_owned()),
        ValuesAlias => q!(Query::select().column(Asterisk).from_values([(1i32, "x")], a(n)).to_owned()),
        FunctionAlias => q!(Query::select().column(Asterisk).from_function(Func::cust(a("gen")).arg(1), a(n)).to_owned()),
        JoinTable => q!(Query::select().column(a("c")).from(a("t")).left_join(a(n), Expr::col((a("t"), a("c"))).eq(1)).to_owned()),
        JoinAlias => q!(Query::select()
            .column(a("c"))
            .from(a("t"))
            .join_as(JoinType::InnerJoin, a("u"), a(n), Expr::col((a("t"), a("c"))).eq(1))
            .to_owned()),
        GroupBy => q!(Query::select().expr(Func::count(Expr::col(Asterisk))).from(a("t")).group_by_col(a(n)).to_owned()),
        OrderBy => q!(Query::select().column(a("c")).from(a("t")).order_by(a(n), Order::Asc).to_owned()),
        CteName => {
            let cte = CommonTableExpression::new().query(Query::select().column(a("c")).from(a("t")).to_owned()).table_name(a(n)).to_owned();
            let w = Query::select().column(a("c")).from(a("u")).to_owned().with(WithClause::new().cte(cte).to_owned());
            with_backend!(d, b => w.to_string(b))
        }
        CteColumn => {
            let cte = CommonTableExpression::new()
                .query(Query::select().column(a("c")).from(a("t")).to_owned())
                .table_name(a("w"))
                .column(a(n))
                .to_owned();
            let w = Query::select().column(a("c")).from(a("w")).to_owned().with(WithClause::new().cte(cte).to_owned());
            with_backend!(d, b => w.to_string(b))
        }
        WindowName => q!(Query::select()
            .expr_window_name_as(Func::sum(Expr::col(a("c"))), a("wref"), a("x"))
            .from(a("t"))
            .window(a(n), WindowStatement::partition_by(a("g")))
            .to_owned()),
        WindowOver => q!(Query::select().expr_window_name_as(Func::sum(Expr::col(a("c"))), a(n), a("x")).from(a("t")).to_owned()),
        IndexHint => q!(Query::select().column(a("c")).from(a("t")).use_index(a(n), IndexHintScope::All).to_owned()),
        LockTable => q!(Query::select().column(a("c")).from(a("t")).lock_with_tables(LockType::Update, [a(n)]).to_owned()),
        InsertTable => q!(Query::insert().into_table(a(n)).columns([a("c")]).values_panic([1.into()]).to_owned()),
        InsertColumn => q!(Query::insert().into_table(a("t")).columns([a("c"), a(n)]).values_panic([1.into(), 2.into()]).to_owned()),
        OnConflictTarget => q!(Query::insert()
            .into_table(a("t"))
            .columns([a("c")])
            .values_panic([1.into()])
            .on_conflict(OnConflict::column(a(n)).do_nothing().to_owned())
            .to_owned()),
        OnConflictUpdateColumn => q!(Query::insert()
            .into_table(a("t"))
            .columns([a("c")])
            .values_panic([1.into()])
            .on_conflict(OnConflict::column(a("k")).update_column(a(n)).to_owned())
            .to_owned()),
        OnConflictValueColumn => q!(Query::insert()
            .into_table(a("t"))
            .columns([a("c")])
            .values_panic([1.into()])
            .on_conflict(OnConflict::column(a("k")).value(a(n), Expr::val(5)).to_owned())
            .to_owned()),
        UpdateTable => q!(Query::update().table(a(n)).value(a("c"), 1).to_owned()),
        UpdateSetColumn => q!(Query::update().table(a("t")).value(a("c"), 1).value(a(n), 2).to_owned()),
        DeleteTable => q!(Query::delete().from_table(a(n)).and_where(Expr::col(a("c")).eq(1)).to_owned()),
        ReturningColumn => q!(Query::delete().from_table(a("t")).returning(Query::returning().columns([a("c"), a(n)])).to_owned()),
        DistinctOn => q!(Query::select().distinct_on([a(n)]).column(a("c")).from(a("t")).to_owned()),
        AsEnumType => q!(Query::select().expr(Expr::val("v").as_enum(a(n))).to_owned()),
        SearchSet | CycleSet | CycleUsing | CycleColumn => {
            let (ss, cs, cu, cc) = match pos {
                SearchSet => (n, "is_cycle", "path", "id"),
                CycleSet => ("ord", n, "path", "id"),
                CycleUsing => ("ord", "is_cycle", n, "id"),
                _ => ("ord", "is_cycle", "path", n),
            };
            let cte = CommonTableExpression::new()
                .query(Query::select().column(a("id")).from(a("t")).to_owned())
                .table_name(a("w"))
                .column(a("id"))
                .to_owned();
            let wc = WithClause::new()
                .recursive(true)
                .cte(cte)
                .search(Search::new_from_order_and_expr(SearchOrder::BREADTH, SelectExpr { expr: Expr::col(a("id")).into(), alias: Some(a(ss).into_iden()), window: None }))
                .cycle(Cycle::new_from_expr_set_using(Expr::col(a(cc)), a(cs), a(cu)))
                .to_owned();
            let w = Query::select().column(a("id")).from(a("w")).to_owned().with(wc);
            with_backend!(d, b => w.to_string(b))
        }
        DoNothingOnColumn => q!(Query::insert()
            .into_table(a("t"))
            .columns([a("c")])
            .values_panic([1.into()])
            .on_conflict(OnConflict::column(a("k")).do_nothing_on([a(n)]).to_owned())
            .to_owned()),
        SchemaTableAlias => q!(Query::select().column(a("c")).from(TableRef::SchemaTableAlias(a("s").into_iden(), a("t").into_iden(), a(n).into_iden())).to_owned()),
        DatabaseTableAlias => q!(Query::select()
            .column(a("c"))
            .from(TableRef::DatabaseSchemaTableAlias(a("db").into_iden(), a("s").into_iden(), a("t").into_iden(), a(n).into_iden()))
            .to_owned()),
        JoinSubqueryAlias => q!(Query::select()
            .column(a("c"))
            .from(a("t"))
            .join_subquery(JoinType::LeftJoin, Query::select().column(a("c")).from(a("u")).to_owned(), a(n), Expr::col((a("t"), a("c"))).eq(1))
            .to_owned()),
        JoinLateralAlias => q!(Query::select()
            .column(a("c"))
            .from(a("t"))
            .join_lateral(JoinType::LeftJoin, Query::select().column(a("c")).from(a("u")).to_owned(), a(n), Expr::col((a("t"), a("c"))).eq(1))
            .to_owned()),
        CastAsQuoted => with_backend!(d, b => Query::select().expr(SimpleExpr::from(Expr::val("v")).cast_as_quoted(a(n), b.quote())).to_owned().to_string(b)),
        UpdateFromTable => q!(Query::update().table(a("t")).value(a("c"), 1).from(a(n)).and_where(Expr::col((a("t"), a("c"))).eq(2)).to_owned()),
        InsertSelectColumn => q!(Query::insert()
            .into_table(a("t"))
            .columns([a("c")])
            .select_from(Query::select().column(a(n)).from(a("u")).to_owned())
            .unwrap()
            .to_owned()),
        ColumnOfQualified => q!(Query::select().expr(Expr::col((a("t"), a(n))).add(1)).from(a("t")).to_owned()),
        OrderByQualified => q!(Query::select().column(a("c")).from(a("t")).order_by((a("t"), a(n)), Order::Desc).to_owned()),
        WindowPartition => q!(Query::select()
            .expr_window_as(Func::sum(Expr::col(a("c"))), WindowStatement::partition_by(a(n)).order_by(a("c"), Order::Asc).to_owned(), a("x"))
            .from(a("t"))
            .to_owned()),
        // ------------------------------------------------------------------ schema
        CreateTableName => {
            let t = Table::create().table(a(n)).col(ColumnDef::new(a("c")).integer()).to_owned();
            with_backend!(d, b => t.to_string(b))
        }
        CreateTableSchema => {
            let t = Table::create().table((a(n), a("t"))).col(ColumnDef::new(a("c")).integer()).to_owned();
            with_backend!(d, b => t.to_string(b))
        }
        CreateColumn => {
            let t = Table::create().table(a("t")).col(ColumnDef::new(a("c")).integer()).col(ColumnDef::new(a(n)).text()).to_owned();
            with_backend!(d, b => t.to_string(b))
        }
        TableIndexName => {
            let t = Table::create()
                .table(a("t"))
                .col(ColumnDef::new(a("c")).integer())
                .index(Index::create().unique().name(n).col(a("c")))
                .to_owned();
            with_backend!(d, b => t.to_string(b))
        }
        TableIndexColumn => {
            let t = Table::create()
                .table(a("t"))
                .col(ColumnDef::new(a("c")).integer())
                .index(Index::create().unique().name("ix").col(a(n)))
                .to_owned();
            with_backend!(d, b => t.to_string(b))
        }
        TablePrimaryKeyColumn => {
            let t = Table::create()
                .table(a("t"))
                .col(ColumnDef::new(a("c")).integer())
                .primary_key(Index::create().col(a("c")).col(a(n)))
                .to_owned();
            with_backend!(d, b => t.to_string(b))
        }
        TableFkName | TableFkColumn | TableFkRefTable | TableFkRefColumn => {
            let (name, col, rt, rc) = match pos {
                TableFkName => (n, "c", "p", "id"),
                TableFkColumn => ("fk", n, "p", "id"),
                TableFkRefTable => ("fk", "c", n, "id"),
                _ => ("fk", "c", "p", n),
            };
            let t = Table::create()
                .table(a("t"))
                .col(ColumnDef::new(a("c")).integer())
                .foreign_key(ForeignKey::create().name(name).from(a("t"), a(col)).to(a(rt), a(rc)).on_delete(ForeignKeyAction::Cascade))
                .to_owned();
            with_backend!(d, b => t.to_string(b))
        }
        AlterTable => {
            let t = Table::alter().table(a(n)).add_column(ColumnDef::new(a("c")).integer()).to_owned();
            with_backend!(d, b => t.to_string(b))
        }
        AlterAddColumn => {
            let t = Table::alter().table(a("t")).add_column(ColumnDef::new(a(n)).integer()).to_owned();
            with_backend!(d, b => t.to_string(b))
        }
        AlterRenameFrom => {
            let t = Table::alter().table(a("t")).rename_column(a(n), a("c2")).to_owned();
            with_backend!(d, b => t.to_string(b))
        }
        AlterRenameTo => {
            let t = Table::alter().table(a("t")).rename_column(a("c"), a(n)).to_owned();
            with_backend!(d, b => t.to_string(b))
        }
        AlterDropColumn => {
            let t = Table::alter().table(a("t")).drop_column(a(n)).to_owned();
            with_backend!(d, b => t.to_string(b))
        }
        AlterModifyColumn => {
            let t = Table::alter().table(a("t")).modify_column(ColumnDef::new(a(n)).integer().not_null()).to_owned();
            with_backend!(d, b => t.to_string(b))
        }
        AlterDropFk => {
            let t = Table::alter().table(a("t")).drop_foreign_key(a(n)).to_owned();
            with_backend!(d, b => t.to_string(b))
        }
        AlterAddFkName => {
            let fk = TableForeignKey::new().name(n).from_tbl(a("t")).from_col(a("c")).to_tbl(a("p")).to_col(a("id")).to_owned();
            let t = Table::alter().table(a("t")).add_foreign_key(&fk).to_owned();
            with_backend!(d, b => t.to_string(b))
        }
        RenameFrom => {
            let t = Table::rename().table(a(n), a("t2")).to_owned();
            with_backend!(d, b => t.to_string(b))
        }
        RenameTo => {
            let t = Table::rename().table(a("t"), a(n)).to_owned();
            with_backend!(d, b => t.to_string(b))
        }
        DropTable => {
            let t = Table::drop().table(a("t")).table(a(n)).to_owned();
            with_backend!(d, b => t.to_string(b))
        }
        TruncateTable => {
            let t = Table::truncate().table(a(n)).to_owned();
            with_backend!(d, b => t.to_string(b))
        }
        IndexName | IndexTable | IndexColumn | IndexInclude => {
            let (name, tbl, col, inc) = match pos {
                IndexName => (n, "t", "c", "i"),
                IndexTable => ("ix", n, "c", "i"),
                IndexColumn => ("ix", "t", n, "i"),
                _ => ("ix", "t", "c", n),
            };
            let mut ix = Index::create().name(name).table(a(tbl)).col(a("b")).col((a(col), IndexOrder::Desc)).to_owned();
            if pos == IndexInclude {
                ix.include(a(inc));
            }
            with_backend!(d, b => ix.to_string(b))
        }
        DropIndexName => {
            let ix = Index::drop().name(n).table(a("t")).to_owned();
            with_backend!(d, b => ix.to_string(b))
        }
        DropIndexTable => {
            let ix = Index::drop().name("ix").table(a(n)).to_owned();
            with_backend!(d, b => ix.to_string(b))
        }
        FkCreateName | FkCreateTable | FkCreateColumn | FkCreateRefTable | FkCreateRefColumn => {
            let (name, t, c, rt, rc) = match pos {
                FkCreateName => (n, "t", "c", "p", "id"),
                FkCreateTable => ("fk", n, "c", "p", "id"),
                FkCreateColumn => ("fk", "t", n, "p", "id"),
                FkCreateRefTable => ("fk", "t", "c", n, "id"),
                _ => ("fk", "t", "c", "p", n),
            };
            let fk = ForeignKey::create().name(name).from(a(t), a(c)).to(a(rt), a(rc)).on_update(ForeignKeyAction::SetNull).to_owned();
            with_backend!(d, b => fk.to_string(b))
        }
        FkDropName => {
            let fk = ForeignKey::drop().name(n).table(a("t")).to_owned();
            with_backend!(d, b => fk.to_string(b))
        }
        FkDropTable => {
            let fk = ForeignKey::drop().name("fk").table(a(n)).to_owned();
            with_backend!(d, b => fk.to_string(b))
        }
        TypeCreateName => Type::create().as_enum(a(n)).values([a("x"), a("y")]).to_string(PostgresQueryBuilder),
        TypeCreateSchema => Type::create().as_enum((a(n), a("ty"))).values([a("x")]).to_string(PostgresQueryBuilder),
        TypeAlterName => Type::alter().name(a(n)).add_value(a("z")).to_string(PostgresQueryBuilder),
        TypeDropName => Type::drop().name(a("ty")).name(a(n)).to_string(PostgresQueryBuilder),
        IndexTableSchema => {
            let ix = Index::create().name("ix").table((a(n), a("t"))).col(a("c")).to_owned();
            with_backend!(d, b => ix.to_string(b))
        }
        DropTableSchema => {
            let t = Table::drop().table((a(n), a("t"))).to_owned();
            with_backend!(d, b => t.to_string(b))
        }
        AlterTableSchema => {
            let t = Table::alter().table((a(n), a("t"))).add_column(ColumnDef::new(a("c")).integer()).to_owned();
            with_backend!(d, b => t.to_string(b))
        }
        FkRefTableSchema => {
            let fk = ForeignKey::create().name("fk").from(a("t"), a("c")).to((a(n), a("p")), a("id")).to_owned();
            with_backend!(d, b => fk.to_string(b))
        }
        DropIndexSchema => {
            let ix = Index::drop().name("ix").table((a(n), a("t"))).to_owned();
            with_backend!(d, b => ix.to_string(b))
        }
        TruncateTableSchema => {
            let t = Table::truncate().table((a(n), a("t"))).to_owned();
            with_backend!(d, b => t.to_string(b))
        }
    }
}

const REF: &str = "refname";

pub fn check(c: &Case, obs: &mut Obs) -> R {
    let Case { pos, dialect: d, name } = c;
    let (pos, d) = (*pos, *d);
    if !applicable(pos, d) {
        return discard("position not applicable");
    }
    if name.is_empty() || name.contains('\0') {
        return discard("empty name or NUL");
    }
    if pos == Pos::AsEnumType && name.ends_with("[]") {
        // documented: a trailing [] makes the cast an array-of-enum cast, it is not part of the type name
        return discard("as_enum name with array suffix");
    }
    let sigbase = format!("{}/{:?}", d.name(), pos);
    let sql_ref = guard("render-ref", || render(pos, d, REF))?;
    let sql = match guard("render", || render(pos, d, name)) {
        Ok(s) => s,
        Err(Stop::Fail { detail, .. }) => return fail(format!("{sigbase}/panic"), format!("name {name:?}: {detail}")),
        Err(e) => return Err(e),
    };
    obs.note(sql.clone());
    let toks_ref = match lex::lex(d, &sql_ref) {
        Ok(t) => t,
        Err(e) => return fail(format!("{sigbase}/ref-lex-error"), format!("reference rendering does not lex: {sql_ref:?}: {e:?}")),
    };
    let slots_ref: Vec<usize> = toks_ref.iter().enumerate().filter(|(_, t)| t.tok == Tok::Ident(REF.into())).map(|(i, _)| i).collect();
    if slots_ref.len() != slots(pos, d) {
        return fail(
            format!("{sigbase}/ref-slot-count"),
            format!("reference rendering {sql_ref:?} has {} identifier slots: {}", slots_ref.len(), lex::show(&toks_ref)),
        );
    }
    let toks = match lex::lex(d, &sql) {
        Ok(t) => t,
        Err(e) => return fail(format!("{sigbase}/lex-error"), format!("name {name:?}: rendered {sql:?}: {e:?}")),
    };
    if toks.len() != toks_ref.len() {
        return fail(
            format!("{sigbase}/token-count"),
            format!("name {name:?}: rendered {sql:?} lexes to {} tokens, the reference {sql_ref:?} to {}: {}", toks.len(), toks_ref.len(), lex::show(&toks)),
        );
    }
    for (i, (t, r)) in toks.iter().zip(toks_ref.iter()).enumerate() {
        if slots_ref.contains(&i) {
            match &t.tok {
                Tok::Ident(x) if x == name => {}
                other => {
                    return fail(
                        format!("{sigbase}/decoded-name"),
                        format!("name {name:?}: rendered {sql:?}: identifier token is {} instead of the supplied name", other.show()),
                    )
                }
            }
        } else if t.tok != r.tok {
            return fail(
                format!("{sigbase}/skeleton"),
                format!("name {name:?}: rendered {sql:?}: token {i} is {} but the reference has {}", t.tok.show(), r.tok.show()),
            );
        }
    }
    // SQLite: read the name back from the engine's catalogue / result-set metadata
    if d == Dialect::Sqlite {
        engine_readback(pos, name, &sql, &sigbase, obs)?;
    }
    let q = if d == Dialect::Mysql { '`' } else { '"' };
    obs.label(format!("{:?}", pos));
    if name.chars().any(|ch| matches!(ch, '"' | '`' | '\'' | '\\' | '.' | ' ' | '[' | ']' | ';') || (ch as u32) < 0x20) {
        obs.nontrivial(c);
        if name.contains(q) {
            obs.label("own-quote-char");
        } else {
            obs.label("other-special");
        }
    }
    Ok(())
}

fn engine_readback(pos: Pos, name: &str, sql: &str, sigbase: &str, obs: &mut Obs) -> R {
    // SQLite names are case-insensitive: a generated name equal to one of the fixture names would collide
    if ["t", "c", "d", "b", "t2", "c2"].iter().any(|f| name.eq_ignore_ascii_case(f)) || name.to_ascii_lowercase().starts_with("sqlite_") {
        return Ok(());
    }
    crate::sqlite::scratch(|db| engine_readback_on(db, pos, name, sql, sigbase, obs))
}

fn engine_readback_on(db: &Db, pos: Pos, name: &str, sql: &str, sigbase: &str, obs: &mut Obs) -> R {
    let text = |c: &Cell| match c {
        Cell::Text(s) => Some(s.clone()),
        _ => None,
    };
    let run = |q: &str| db.rows(q).map_err(|e| Stop::Fail { sig: format!("{sigbase}/engine-error"), detail: format!("name {name:?}: {q:?}: {e:?}") });
    match pos {
        Pos::CreateTableName => {
            run(sql)?;
            let rows = run("SELECT name FROM sqlite_master WHERE type = 'table'")?;
            let got: Vec<String> = rows.iter().filter_map(|r| text(&r[0])).collect();
            if got != vec![name.to_string()] {
                return fail(format!("{sigbase}/engine-name"), format!("name {name:?}: {sql:?} created tables {got:?}"));
            }
            obs.label("engine-table-name");
        }
        Pos::CreateColumn => {
            run(sql)?;
            let rows = run("PRAGMA table_info(\"t\")")?;
            let got: Vec<String> = rows.iter().filter_map(|r| text(&r[1])).collect();
            if got != vec!["c".to_string(), name.to_string()] {
                return fail(format!("{sigbase}/engine-name"), format!("name {name:?}: {sql:?} created columns {got:?}"));
            }
            obs.label("engine-column-name");
        }
        Pos::IndexName => {
            run("CREATE TABLE \"t\" (\"b\" int, \"c\" int)")?;
            run(sql)?;
            let rows = run("SELECT name FROM sqlite_master WHERE type = 'index'")?;
            let got: Vec<String> = rows.iter().filter_map(|r| text(&r[0])).collect();
            if got != vec![name.to_string()] {
                return fail(format!("{sigbase}/engine-name"), format!("name {name:?}: {sql:?} created indexes {got:?}"));
            }
            obs.label("engine-index-name");
        }
        Pos::ExprAlias => {
            run("CREATE TABLE \"t\" (\"c\" int)")?;
            let (names, _) = db.query(sql, &[]).map_err(|e| Stop::Fail { sig: format!("{sigbase}/engine-error"), detail: format!("{sql:?}: {e:?}") })?;
            if names != vec![name.to_string()] {
                return fail(format!("{sigbase}/engine-name"), format!("name {name:?}: {sql:?} has result columns {names:?}"));
            }
            obs.label("engine-alias-name");
        }
        Pos::AlterRenameTo => {
            run("CREATE TABLE \"t\" (\"c\" int, \"d\" int)")?;
            run(sql)?;
            let rows = run("PRAGMA table_info(\"t\")")?;
            let got: Vec<String> = rows.iter().filter_map(|r| text(&r[1])).collect();
            if name != "d" && got != vec![name.to_string(), "d".to_string()] {
                return fail(format!("{sigbase}/engine-name"), format!("name {name:?}: {sql:?} left columns {got:?}"));
            }
            obs.label("engine-rename-column");
        }
        Pos::RenameTo => {
            run("CREATE TABLE \"t\" (\"c\" int)")?;
            run(sql)?;
            let rows = run("SELECT name FROM sqlite_master WHERE type = 'table'")?;
            let got: Vec<String> = rows.iter().filter_map(|r| text(&r[0])).collect();
            if got != vec![name.to_string()] {
                return fail(format!("{sigbase}/engine-name"), format!("name {name:?}: {sql:?} left tables {got:?}"));
            }
            obs.label("engine-rename-table");
        }
        _ => {}
    }
    Ok(())
}

const ALPHABET: [&str; 9] = ["a", "\"", "`", "'", "\\", ".", " ", "$", "é"];

fn name_strategy() -> impl Strategy<Value = String> {
    prop_oneof![
        3 => proptest::collection::vec(proptest::sample::select(vec!['a', 'B', '"', '`', '\'', '\\', '.', ' ', '$', '[', ']', ';', '-', 'é', '_', '0', '%', '?']), 1..10)
            .prop_map(|v| v.into_iter().collect::<String>()),
        2 => nasty_string(32).prop_filter("non-empty", |s| !s.is_empty()),
    ]
}

pub fn case_strategy() -> impl Strategy<Value = Case> {
    (any::<u16>(), any::<u16>(), name_strategy()).prop_map(|(pi, di, name)| {
        let dialect = DIALECTS[pick_idx(di, 3)];
        let poss: Vec<Pos> = ALL_POS.iter().copied().filter(|p| applicable(*p, dialect)).collect();
        Case { pos: poss[pick_idx(pi, poss.len())], dialect, name }
    })
}

pub fn run(ctx: &mut Ctx) {
    ctx.rule = "cases = (identifier position, backend, name): positions cover table / schema / database / column / alias / CTE / window / \
index-hint / lock / upsert / SET / RETURNING / DISTINCT ON / enum-cast type in query statements and table / column / index / constraint / \
foreign-key / type names in every schema statement; names are all non-empty strings over {a \" ` ' \\ . space $ é} up to length L (exhaustive) \
and random Unicode names without NUL up to 32 chars. Non-trivial = the name contains a quote character, backslash, dot, space, bracket, semicolon \
or control character; distinct by (position, backend, name)."
        .into();
    ctx.domain_restrictions.push("identifiers are non-empty and contain no NUL (no engine can represent them)".into());
    ctx.domain_restrictions.push("positions that a backend documents as unsupported (panic arm) or omits by design (SQLite locks, MySQL RETURNING / conflict target) are not generated for it".into());
    ctx.domain_restrictions.push("unquoted-by-design positions (Func::cust, Keyword::Custom, ColumnType::Custom, IndexType::Custom) are out of scope; derived identifiers are covered by a fixed set of 29 derive(Iden) / derive(IdenStatic) identifiers compiled into the harness (part derived-idens) and, over generated programs, by C19".into());
    let max_len = ctx.tier.pick(2, 3);
    for d in DIALECTS {
        let poss: Vec<Pos> = ALL_POS.iter().copied().filter(|p| applicable(*p, d)).collect();
        let per = count_strings(9, max_len) - 1;
        let total = per * poss.len() as u64;
        ctx.run_indexed(
            &format!("alphabet-{}", d.name()),
            total,
            &|i| Case { pos: poss[(i % poss.len() as u64) as usize], dialect: d, name: nth_string(&ALPHABET, 1 + i / poss.len() as u64) },
            &check,
        );
    }
    // every name length up to a bound at rotating positions: a quote character at the end, every ninth character, and a dense mix
    let max_name: u64 = ctx.tier.pick(400, 2_000);
    ctx.run_indexed(
        "lengths",
        max_name * 3 * 3,
        &|i| {
            let d = DIALECTS[(i % 3) as usize];
            let shape = (i / 3) % 3;
            let len = 1 + (i / 9) as usize;
            let q = if d == Dialect::Mysql { '`' } else { '"' };
            let name: String = match shape {
                0 => (0..len).map(|k| if k + 1 == len { q } else { 'n' }).collect(),
                1 => (0..len).map(|k| if k % 9 == 8 { q } else if k % 9 == 4 { 'é' } else { 'm' }).collect(),
                _ => {
                    let units = ['a', q, '\\', 'Т', '😀', ' ', '.', '\''];
                    (0..len).map(|k| units[(k * 3 + len) % 8]).collect()
                }
            };
            let poss: Vec<Pos> = ALL_POS.iter().copied().filter(|p| applicable(*p, d)).collect();
            Case { pos: poss[len % poss.len()], dialect: d, name }
        },
        &check,
    );
    let n = ctx.tier.pick(150_000, 3_000_000);
    ctx.run_proptest("random", n, &case_strategy, &check);
    run_derived(ctx);
    for p in ctx.parts.iter_mut() {
        if p.kind == "exhaustive" {
            p.exhaustive = true;
        }
    }
    ctx.extra.insert("alphabet_max_len".into(), serde_json::json!(max_len));
    ctx.extra.insert("positions".into(), serde_json::json!(ALL_POS.len()));
}

pub fn replay(part: &str, case: &J, obs: &mut Obs) -> R {
    if part == "derived-idens" {
        let c: DerivedCase = from_case(case)?;
        return check_derived(&c, obs);
    }
    let c: Case = from_case(case)?;
    check(&c, obs)
}

// ------------------------------------------------------------------------- derived identifiers
//
// Identifiers produced by `#[derive(Iden)]` / `#[derive(IdenStatic)]` take a quoting *fast path* generated
// by the derive macro. The types below are compiled with the harness against the working tree's derive crate,
// so a change to the macro changes what they render. Each identifier is rendered at an identifier position
// and must lex to exactly one identifier token that decodes to `Iden::to_string()` — the same oracle as above.

mod derived {
    use sea_query::{Iden, IdenStatic};

    #[derive(Iden, Clone, Copy)]
    pub enum Plain {
        Table,
        Id,
        FontSize,
    }

    #[derive(Iden, Clone, Copy)]
    pub enum QuoteInMiddleVariant {
        Table,
        #[iden = "we\"ird`na]me"]
        Weird,
        Amount,
    }

    #[derive(Iden, Clone, Copy)]
    pub enum QuoteInFirstVariant {
        #[iden = "a\"b"]
        First,
        Second,
        Third,
    }

    #[derive(Iden, Clone, Copy)]
    pub enum QuoteInLastVariant {
        Table,
        Plain,
        #[iden(rename = "back`tick")]
        Last,
    }

    #[derive(Iden, Clone, Copy)]
    #[iden = "audit\"log`v2"]
    pub enum ContainerRenameWithQuotes {
        Table,
        Id,
        CreatedAt,
    }

    #[derive(Iden, Clone, Copy)]
    #[iden(rename = "plain_container")]
    pub enum ContainerRenamePlain {
        Table,
        #[iden = "x\"y"]
        Odd,
        Id,
    }

    #[derive(IdenStatic, Clone, Copy)]
    pub enum StaticWithQuotes {
        Table,
        #[iden = "s\"t`u"]
        Odd,
        Tail,
    }

    #[derive(IdenStatic, Clone, Copy)]
    #[iden = "st\"at`ic"]
    pub enum StaticContainerRename {
        Table,
        Id,
    }

    #[derive(Iden, Clone, Copy)]
    #[iden = "unit\"struct`name"]
    pub struct UnitWithQuotes;

    #[derive(Iden, Clone, Copy)]
    pub struct UnitPlain;

    #[derive(Iden, Clone, Copy)]
    pub enum SpacesAndDots {
        #[iden = "has space"]
        A,
        #[iden = "has.dot"]
        B,
        #[iden = "semi;colon--"]
        C,
        D,
    }

    pub fn all() -> Vec<(&'static str, Box<dyn Iden>)> {
        vec![
            ("Plain::Table", Box::new(Plain::Table)),
            ("Plain::Id", Box::new(Plain::Id)),
            ("Plain::FontSize", Box::new(Plain::FontSize)),
            ("QuoteInMiddleVariant::Table", Box::new(QuoteInMiddleVariant::Table)),
            ("QuoteInMiddleVariant::Weird", Box::new(QuoteInMiddleVariant::Weird)),
            ("QuoteInMiddleVariant::Amount", Box::new(QuoteInMiddleVariant::Amount)),
            ("QuoteInFirstVariant::First", Box::new(QuoteInFirstVariant::First)),
            ("QuoteInFirstVariant::Second", Box::new(QuoteInFirstVariant::Second)),
            ("QuoteInFirstVariant::Third", Box::new(QuoteInFirstVariant::Third)),
            ("QuoteInLastVariant::Table", Box::new(QuoteInLastVariant::Table)),
            ("QuoteInLastVariant::Plain", Box::new(QuoteInLastVariant::Plain)),
            ("QuoteInLastVariant::Last", Box::new(QuoteInLastVariant::Last)),
            ("ContainerRenameWithQuotes::Table", Box::new(ContainerRenameWithQuotes::Table)),
            ("ContainerRenameWithQuotes::Id", Box::new(ContainerRenameWithQuotes::Id)),
            ("ContainerRenameWithQuotes::CreatedAt", Box::new(ContainerRenameWithQuotes::CreatedAt)),
            ("ContainerRenamePlain::Table", Box::new(ContainerRenamePlain::Table)),
            ("ContainerRenamePlain::Odd", Box::new(ContainerRenamePlain::Odd)),
            ("ContainerRenamePlain::Id", Box::new(ContainerRenamePlain::Id)),
            ("StaticWithQuotes::Table", Box::new(StaticWithQuotes::Table)),
            ("StaticWithQuotes::Odd", Box::new(StaticWithQuotes::Odd)),
            ("StaticWithQuotes::Tail", Box::new(StaticWithQuotes::Tail)),
            ("StaticContainerRename::Table", Box::new(StaticContainerRename::Table)),
            ("StaticContainerRename::Id", Box::new(StaticContainerRename::Id)),
            ("UnitWithQuotes", Box::new(UnitWithQuotes)),
            ("UnitPlain", Box::new(UnitPlain)),
            ("SpacesAndDots::A", Box::new(SpacesAndDots::A)),
            ("SpacesAndDots::B", Box::new(SpacesAndDots::B)),
            ("SpacesAndDots::C", Box::new(SpacesAndDots::C)),
            ("SpacesAndDots::D", Box::new(SpacesAndDots::D)),
        ]
    }

    pub fn static_names() -> Vec<(&'static str, &'static str, String)> {
        vec![
            ("StaticWithQuotes::Odd", StaticWithQuotes::Odd.as_str(), Iden::to_string(&StaticWithQuotes::Odd)),
            ("StaticWithQuotes::Table", StaticWithQuotes::Table.as_str(), Iden::to_string(&StaticWithQuotes::Table)),
            ("StaticContainerRename::Table", StaticContainerRename::Table.as_str(), Iden::to_string(&StaticContainerRename::Table)),
        ]
    }
}

#[derive(Serialize, Deserialize, Clone, Debug, PartialEq, Eq, Hash)]
pub struct DerivedCase {
    pub which: usize,
    pub dialect: Dialect,
    /// 0 = column, 1 = table, 2 = alias
    pub position: u8,
}

pub fn check_derived(c: &DerivedCase, obs: &mut Obs) -> R {
    let all = derived::all();
    let (label, iden) = &all[c.which % all.len()];
    let d = c.dialect;
    let name = iden.to_string();
    // a second, independently allocated identifier of the same type is not available for dyn Iden: render through SeaRc
    let dynid: DynIden = SeaRc::new(DerivedHolder(name.clone(), label));
    let _ = dynid;
    let sql = guard("render-derived", || {
        let quote = with_backend!(d, b => b.quote());
        let mut s = String::new();
        iden.prepare(&mut s, quote);
        match c.position % 3 {
            0 => format!("SELECT {s} FROM {}", lex::enc_ident(d, "t")),
            1 => format!("SELECT {} FROM {s}", lex::enc_ident(d, "c")),
            _ => format!("SELECT {} AS {s} FROM {}", lex::enc_ident(d, "c"), lex::enc_ident(d, "t")),
        }
    })?;
    obs.note(sql.clone());
    let sig = format!("{}/derived/{}", d.name(), label.split("::").next().unwrap_or(label));
    let toks = match lex::lex(d, &sql) {
        Ok(t) => t,
        Err(e) => return fail(format!("{sig}/lex-error"), format!("{label} (name {name:?}) is prepared into {sql:?}: {e:?}")),
    };
    let expected_len = if c.position % 3 == 2 { 6 } else { 4 };
    let idents: Vec<&str> = toks.iter().filter_map(|t| if let Tok::Ident(s) = &t.tok { Some(s.as_str()) } else { None }).collect();
    if toks.len() != expected_len || !idents.contains(&name.as_str()) {
        return fail(format!("{sig}/decoded-name"), format!("{label} spells {name:?} but its prepared form in {sql:?} lexes to {}", lex::show(&toks)));
    }
    // the derive's fast path must agree with the general quoting of the same name
    let general = guard("alias-prepare", || {
        let quote = with_backend!(d, b => b.quote());
        let mut s = String::new();
        Alias::new(name.clone()).prepare(&mut s, quote);
        s
    })?;
    let mut fast = String::new();
    iden.prepare(&mut fast, with_backend!(d, b => b.quote()));
    if fast != general {
        return fail(format!("{sig}/fast-path-differs"), format!("{label}: prepare() gives {fast:?}, the general quoting of {name:?} gives {general:?}"));
    }
    for (l, as_str, to_string) in derived::static_names() {
        if as_str != to_string {
            return fail(format!("{}/derived/as_str", d.name()), format!("{l}: as_str {as_str:?} != to_string {to_string:?}"));
        }
    }
    if name.chars().any(|ch| matches!(ch, '"' | '`' | ']' | ' ' | '.' | ';')) {
        obs.nontrivial(&(label, d, c.position % 3));
        obs.label("derived-with-special");
    } else {
        obs.label("derived-plain");
    }
    Ok(())
}

struct DerivedHolder(String, &'static str);
impl Iden for DerivedHolder {
    fn unquoted(&self, s: &mut dyn std::fmt::Write) {
        let _ = self.1;
        write!(s, "{}", self.0).unwrap();
    }
}

pub fn run_derived(ctx: &mut Ctx) {
    let n = derived::all().len() as u64;
    ctx.run_indexed(
        "derived-idens",
        n * 9,
        &|i| DerivedCase { which: (i / 9) as usize, dialect: DIALECTS[(i % 3) as usize], position: ((i / 3) % 3) as u8 },
        &check_derived,
    );
    if let Some(p) = ctx.parts.last_mut() {
        p.exhaustive = true;
    }
}
