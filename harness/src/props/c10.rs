//! C10 — INSERT rows always match the column list; mismatches are reported.
//!
//! Oracle: a reference model of the builder state (`InsertModel`) run side by side with the real
//! `InsertStatement` over a generated call history. Every call's outcome (Ok / the mismatch error
//! with both counts / panic for the `_panic` variants) is predicted by the model, a rejected call
//! must leave the statement equal to its pre-call clone, and at the end the rendered INSERT is
//! lexed with the dialect lexer and compared with the model: column list, then the accepted rows
//! in call order, cells by tag; every row as wide as the column list.

use crate::lex::{self, Tok};
use crate::runner::*;
use crate::util::*;
use crate::with_backend;
use proptest::prelude::*;
use sea_query::error::Error;
use sea_query::*;
use serde::{Deserialize, Serialize};
use serde_json::Value as J;
use std::panic::{catch_unwind, AssertUnwindSafe};

#[derive(Serialize, Deserialize, Clone, Debug, PartialEq, Eq, Hash)]
pub enum Op {
    Columns(usize),
    Values(usize),
    ValuesPanic(usize),
    /// values_from_panic with rows of these widths
    ValuesFromPanic(Vec<usize>),
    Select(usize),
    /// select_from with a compound select: (items of the statement itself, items of the UNION ALL operand)
    SelectUnion(usize, usize),
    Default,
    DefaultMany(u32),
}

#[derive(Clone, Debug, PartialEq)]
enum Source {
    None,
    Values(Vec<Vec<i64>>),
    Select(Vec<i64>),
    /// head items, operand items
    SelectUnion(Vec<i64>, Vec<i64>),
}

#[derive(Clone, Debug)]
struct Model {
    cols: Vec<String>,
    source: Source,
    default: Option<u32>,
    /// step of the last columns() call / of the first call that fed the current source
    cols_step: Option<usize>,
    src_first_step: Option<usize>,
}

impl Model {
    /// columns() was called again after the current source had been accepted
    fn redeclared(&self) -> bool {
        matches!((self.cols_step, self.src_first_step), (Some(c), Some(s)) if c > s)
    }
}

fn a(s: &str) -> Alias {
    Alias::new(s)
}

fn col_names(n: usize, gen: usize) -> Vec<String> {
    (0..n).map(|i| format!("c{gen}_{i}")).collect()
}

const ALPHA: [fn() -> Op; 15] = [
    || Op::Columns(0),
    || Op::Columns(1),
    || Op::Columns(2),
    || Op::Columns(3),
    || Op::Values(0),
    || Op::Values(1),
    || Op::Values(2),
    || Op::Values(3),
    || Op::Select(0),
    || Op::Select(1),
    || Op::Select(2),
    || Op::Select(3),
    || Op::Default,
    || Op::DefaultMany(2),
    || Op::ValuesPanic(2),
];

fn nth_history(mut i: u64) -> Vec<Op> {
    let k = ALPHA.len() as u64;
    let mut len = 0u32;
    loop {
        let n = k.pow(len);
        if i < n {
            break;
        }
        i -= n;
        len += 1;
    }
    let mut digits = vec![0usize; len as usize];
    for d in digits.iter_mut().rev() {
        *d = (i % k) as usize;
        i /= k;
    }
    digits.into_iter().map(|d| ALPHA[d]()).collect()
}

fn row_exprs(tags: &[i64]) -> Vec<SimpleExpr> {
    tags.iter().map(|t| Expr::val(*t).into()).collect()
}

pub fn check(history: &Vec<Op>, obs: &mut Obs) -> R {
    let mut stmt = Query::insert().into_table(a("t")).to_owned();
    let mut m = Model { cols: vec![], source: Source::None, default: None, cols_step: None, src_first_step: None };
    let mut accepted = 0usize;
    let mut rejected = 0usize;
    for (step, op) in history.iter().enumerate() {
        let base = 1000 * (step as i64 + 1);
        let before = stmt.clone();
        let before_dbg = format!("{before:?}");
        match op {
            Op::Columns(n) => {
                let names = col_names(*n, step);
                stmt.columns(names.iter().map(|s| a(s)));
                m.cols = names;
                m.cols_step = Some(step);
            }
            Op::Values(w) | Op::ValuesPanic(w) => {
                let tags: Vec<i64> = (0..*w as i64).map(|i| base + i).collect();
                let expect_ok = *w == m.cols.len();
                let panicking = matches!(op, Op::ValuesPanic(_));
                let outcome: Result<Result<(), Error>, String> = if panicking {
                    match catch_unwind(AssertUnwindSafe(|| {
                        stmt.values_panic(row_exprs(&tags));
                    })) {
                        Ok(()) => Ok(Ok(())),
                        Err(p) => Err(panic_message(p)),
                    }
                } else {
                    Ok(stmt.values(row_exprs(&tags)).map(|_| ()))
                };
                match (&outcome, expect_ok) {
                    (Ok(Ok(())), true) => {
                        accepted += 1;
                        if *w > 0 {
                            match &mut m.source {
                                Source::Values(rows) => rows.push(tags),
                                _ => {
                                    m.source = Source::Values(vec![tags]);
                                    m.src_first_step = Some(step);
                                }
                            }
                        }
                    }
                    (Ok(Ok(())), false) => {
                        return fail(
                            "accepted-mismatching-row",
                            format!("step {step}: a row of {w} values was accepted with {} columns declared; history {history:?}", m.cols.len()),
                        )
                    }
                    (Ok(Err(e)), false) => {
                        rejected += 1;
                        let want = Error::ColValNumMismatch { col_len: m.cols.len(), val_len: *w };
                        if *e != want {
                            return fail("wrong-error-counts", format!("step {step}: error {e:?}, expected {want:?}; history {history:?}"));
                        }
                        let shown = e.to_string();
                        if !shown.contains(&m.cols.len().to_string()) || !shown.contains(&w.to_string()) {
                            return fail("error-display", format!("step {step}: error text {shown:?} does not carry both counts"));
                        }
                    }
                    (Err(_), false) if panicking => {
                        rejected += 1;
                    }
                    (Ok(Err(e)), true) => {
                        return fail("rejected-matching-row", format!("step {step}: a row of {w} values was rejected ({e:?}) with {} columns; history {history:?}", m.cols.len()))
                    }
                    (Err(p), _) => return fail("unexpected-panic", format!("step {step}: {op:?} panicked: {p}; history {history:?}")),
                }
                if !expect_ok {
                    unchanged(&stmt, &before, &before_dbg, step, history)?;
                }
            }
            Op::ValuesFromPanic(widths) => {
                let rows: Vec<Vec<i64>> = widths.iter().enumerate().map(|(r, w)| (0..*w as i64).map(|i| base + 100 * r as i64 + i).collect()).collect();
                let first_bad = widths.iter().position(|w| *w != m.cols.len());
                let res = catch_unwind(AssertUnwindSafe(|| {
                    stmt.values_from_panic(rows.iter().map(|r| row_exprs(r)));
                }));
                let upto = first_bad.unwrap_or(rows.len());
                for r in &rows[..upto] {
                    accepted += 1;
                    if !r.is_empty() {
                        match &mut m.source {
                            Source::Values(rs) => rs.push(r.clone()),
                            _ => {
                                m.source = Source::Values(vec![r.clone()]);
                                m.src_first_step = Some(step);
                            }
                        }
                    }
                }
                match (res.is_ok(), first_bad) {
                    (true, None) => {}
                    (false, Some(_)) => rejected += 1,
                    (true, Some(b)) => return fail("accepted-mismatching-row", format!("step {step}: values_from_panic accepted row {b} of width {}; history {history:?}", widths[b])),
                    (false, None) => return fail("unexpected-panic", format!("step {step}: values_from_panic panicked on matching rows; history {history:?}")),
                }
            }
            Op::Select(k) => {
                let tags: Vec<i64> = (0..*k as i64).map(|i| base + i).collect();
                let mut sel = Query::select();
                for t in &tags {
                    sel.expr(Expr::val(*t));
                }
                let expect_ok = *k == m.cols.len();
                match (stmt.select_from(sel.to_owned()).map(|_| ()), expect_ok) {
                    (Ok(()), true) => {
                        accepted += 1;
                        m.source = Source::Select(tags);
                        m.src_first_step = Some(step);
                    }
                    (Err(e), false) => {
                        rejected += 1;
                        let want = Error::ColValNumMismatch { col_len: m.cols.len(), val_len: *k };
                        if e != want {
                            return fail("wrong-error-counts", format!("step {step}: select_from error {e:?}, expected {want:?}; history {history:?}"));
                        }
                        unchanged(&stmt, &before, &before_dbg, step, history)?;
                    }
                    (Ok(()), false) => return fail("accepted-mismatching-select", format!("step {step}: a select of {k} items was accepted with {} columns; history {history:?}", m.cols.len())),
                    (Err(e), true) => return fail("rejected-matching-select", format!("step {step}: {e:?}; history {history:?}")),
                }
            }
            Op::SelectUnion(k, j) => {
                let head: Vec<i64> = (0..*k as i64).map(|i| base + i).collect();
                let arm: Vec<i64> = (0..*j as i64).map(|i| base + 500 + i).collect();
                let mut sel = Query::select();
                for t in &head {
                    sel.expr(Expr::val(*t));
                }
                let mut other = Query::select();
                for t in &arm {
                    other.expr(Expr::val(*t));
                }
                sel.union(UnionType::All, other.to_owned());
                // the select list that counts is the statement's own; an operand of another width makes the SQL invalid
                // anyway, so only the two clear cases are judged
                let outcome = stmt.select_from(sel.to_owned()).map(|_| ());
                match (&outcome, *k == m.cols.len(), *j == m.cols.len()) {
                    (Ok(()), false, _) => {
                        return fail("accepted-mismatching-select", format!("step {step}: a compound select whose select list has {k} items was accepted with {} columns; history {history:?}", m.cols.len()))
                    }
                    (Err(e), true, true) => return fail("rejected-matching-select", format!("step {step}: {e:?}; history {history:?}")),
                    (Err(e), false, _) => {
                        let want = Error::ColValNumMismatch { col_len: m.cols.len(), val_len: *k };
                        if *e != want {
                            return fail("wrong-error-counts", format!("step {step}: select_from error {e:?}, expected {want:?}; history {history:?}"));
                        }
                    }
                    _ => {}
                }
                match outcome {
                    Ok(()) => {
                        accepted += 1;
                        m.source = Source::SelectUnion(head, arm);
                        m.src_first_step = Some(step);
                    }
                    Err(_) => {
                        rejected += 1;
                        unchanged(&stmt, &before, &before_dbg, step, history)?;
                    }
                }
            }
            Op::Default => {
                stmt.or_default_values();
                m.default = Some(1);
            }
            Op::DefaultMany(n) => {
                stmt.or_default_values_many(*n);
                m.default = Some(*n);
            }
        }
    }
    // ---- rendered statement vs model
    for d in DIALECTS {
        let sql = guard("to_string", || with_backend!(d, b => stmt.to_string(b)))?;
        let (psql, pvals) = guard("build", || with_backend!(d, b => stmt.build(b)))?;
        verify_render(d, &sql, None, &m, history)?;
        verify_render(d, &psql, Some(&pvals), &m, history)?;
        if d == Dialect::Sqlite {
            obs.note(sql);
        }
    }
    obs.label(format!("len{}", history.len()));
    if accepted > 0 && rejected > 0 {
        obs.nontrivial(history);
        obs.label("accepted-and-rejected");
    }
    if m.redeclared() {
        obs.label("columns-redeclared");
    }
    Ok(())
}

fn unchanged(stmt: &InsertStatement, before: &InsertStatement, before_dbg: &str, step: usize, history: &[Op]) -> R {
    if stmt != before {
        return fail("rejected-call-changed-statement", format!("step {step}: statement differs (==) from its pre-call clone; history {history:?}"));
    }
    if format!("{stmt:?}") != before_dbg {
        return fail("rejected-call-changed-statement", format!("step {step}: Debug text differs from the pre-call clone; history {history:?}"));
    }
    for d in DIALECTS {
        let x = with_backend!(d, b => stmt.to_string(b));
        let y = with_backend!(d, b => before.to_string(b));
        if x != y {
            return fail("rejected-call-changed-statement", format!("step {step}: rendering differs from the pre-call clone; history {history:?}"));
        }
    }
    Ok(())
}

fn verify_render(d: Dialect, sql: &str, vals: Option<&Values>, m: &Model, history: &[Op]) -> R {
    let mode = if vals.is_some() { "build" } else { "inline" };
    let toks = match lex::lex(d, sql) {
        Ok(t) => t,
        Err(e) => return fail(format!("render-lex-error/{}", d.name()), format!("{sql:?}: {e:?}; history {history:?}")),
    };
    let t: Vec<&Tok> = toks.iter().map(|t| &t.tok).collect();
    let bad = |what: &str| -> R {
        fail(format!("render-shape/{}/{}", d.name(), what), format!("[{mode}] {sql:?} ({}) ; model {m:?}; history {history:?}", lex::show(&toks)))
    };
    let mut i = 0;
    let word = |i: usize, w: &str| t.get(i).map(|x| x.is_word(w)).unwrap_or(false);
    if !word(0, "INSERT") || !word(1, "INTO") || t.get(2) != Some(&&Tok::Ident("t".into())) {
        return bad("head");
    }
    i += 3;
    let default_form = m.default.is_some() && m.cols.is_empty() && m.source == Source::None;
    if default_form {
        let n = m.default.unwrap() as usize;
        let rest: Vec<String> = t[i..].iter().map(|x| x.show()).collect();
        let want: Vec<String> = match d {
            Dialect::Sqlite => vec!["DEFAULT".into(), "VALUES".into()],
            Dialect::Postgres => {
                let mut v = vec!["VALUES".to_string()];
                for k in 0..n {
                    if k > 0 {
                        v.push(",".into());
                    }
                    v.extend(["(".to_string(), "DEFAULT".into(), ")".into()]);
                }
                v
            }
            Dialect::Mysql => {
                let mut v = vec!["VALUES".to_string()];
                for k in 0..n {
                    if k > 0 {
                        v.push(",".into());
                    }
                    v.extend(["(".to_string(), ")".into()]);
                }
                v
            }
        };
        if n >= 1 && rest != want {
            return bad("default-values");
        }
        return Ok(());
    }
    // column list
    if t.get(i) != Some(&&Tok::LParen) {
        return bad("column-list-open");
    }
    i += 1;
    let mut cols = vec![];
    while let Some(Tok::Ident(c)) = t.get(i) {
        cols.push(c.clone());
        i += 1;
        if t.get(i) == Some(&&Tok::Comma) {
            i += 1;
        }
    }
    if t.get(i) != Some(&&Tok::RParen) {
        return bad("column-list-close");
    }
    i += 1;
    if cols != m.cols {
        return bad("column-list");
    }
    let mut param_i = 0usize;
    let cell = |tok: Option<&&Tok>, param_i: &mut usize| -> Option<i64> {
        match (tok, vals) {
            (Some(Tok::Num(n)), None) => n.parse().ok(),
            (Some(Tok::Param(_)), Some(v)) => {
                let r = match v.0.get(*param_i) {
                    Some(Value::BigInt(Some(x))) => Some(*x),
                    _ => None,
                };
                *param_i += 1;
                r
            }
            _ => None,
        }
    };
    match &m.source {
        Source::None => {
            if i != t.len() {
                return bad("trailing-tokens-without-source");
            }
        }
        Source::Values(rows) => {
            if !word(i, "VALUES") {
                return bad("values-keyword");
            }
            i += 1;
            let mut got: Vec<Vec<i64>> = vec![];
            loop {
                if t.get(i) != Some(&&Tok::LParen) {
                    return bad("row-open");
                }
                i += 1;
                let mut row = vec![];
                loop {
                    match cell(t.get(i), &mut param_i) {
                        Some(v) => row.push(v),
                        None => return bad("cell"),
                    }
                    i += 1;
                    if t.get(i) == Some(&&Tok::Comma) {
                        i += 1;
                    } else {
                        break;
                    }
                }
                if t.get(i) != Some(&&Tok::RParen) {
                    return bad("row-close");
                }
                i += 1;
                got.push(row);
                if t.get(i) == Some(&&Tok::Comma) {
                    i += 1;
                } else {
                    break;
                }
            }
            if i != t.len() {
                return bad("trailing-tokens");
            }
            if &got != rows {
                return bad("rows-differ-from-accepted-rows");
            }
            if got.iter().any(|r| r.len() != cols.len()) {
                return fail(
                    if m.redeclared() { "non-rectangular/columns-redeclared-after-rows".to_string() } else { "non-rectangular".to_string() },
                    format!("[{mode}] {}: {sql:?} has {} columns but rows of widths {:?}; history {history:?}", d.name(), cols.len(), got.iter().map(|r| r.len()).collect::<Vec<_>>()),
                );
            }
        }
        Source::SelectUnion(head, arm) => {
            let read_select = |i: &mut usize, param_i: &mut usize| -> Option<Vec<i64>> {
                if !word(*i, "SELECT") {
                    return None;
                }
                *i += 1;
                let mut got = vec![];
                while let Some(v) = cell(t.get(*i), param_i) {
                    got.push(v);
                    *i += 1;
                    if t.get(*i) == Some(&&Tok::Comma) {
                        *i += 1;
                    } else {
                        break;
                    }
                }
                Some(got)
            };
            let Some(got_head) = read_select(&mut i, &mut param_i) else { return bad("select-keyword") };
            if !word(i, "UNION") || !word(i + 1, "ALL") {
                return bad("union-keyword");
            }
            i += 2;
            let paren = t.get(i) == Some(&&Tok::LParen);
            if paren {
                i += 1;
            }
            let Some(got_arm) = read_select(&mut i, &mut param_i) else { return bad("union-operand") };
            if paren {
                if t.get(i) != Some(&&Tok::RParen) {
                    return bad("union-operand-close");
                }
                i += 1;
            }
            if i != t.len() {
                return bad("trailing-tokens");
            }
            if &got_head != head || &got_arm != arm {
                return bad("select-items-differ");
            }
            if got_head.len() != cols.len() {
                return fail(
                    if m.redeclared() { "non-rectangular/columns-redeclared-after-select".to_string() } else { "non-rectangular-select".to_string() },
                    format!("[{mode}] {}: {sql:?} has {} columns but {} select items; history {history:?}", d.name(), cols.len(), got_head.len()),
                );
            }
        }
        Source::Select(items) => {
            if !word(i, "SELECT") {
                return bad("select-keyword");
            }
            i += 1;
            let mut got = vec![];
            if i < t.len() {
                loop {
                    match cell(t.get(i), &mut param_i) {
                        Some(v) => got.push(v),
                        None => return bad("select-item"),
                    }
                    i += 1;
                    if t.get(i) == Some(&&Tok::Comma) {
                        i += 1;
                    } else {
                        break;
                    }
                }
            }
            if i != t.len() {
                return bad("trailing-tokens");
            }
            if &got != items {
                return bad("select-items-differ");
            }
            if got.len() != cols.len() {
                return fail(
                    if m.redeclared() { "non-rectangular/columns-redeclared-after-select".to_string() } else { "non-rectangular-select".to_string() },
                    format!("[{mode}] {}: {sql:?} has {} columns but {} select items; history {history:?}", d.name(), cols.len(), got.len()),
                );
            }
        }
    }
    if let Some(v) = vals {
        if param_i != v.0.len() {
            return bad("parameter-count");
        }
    }
    Ok(())
}

fn op_strategy() -> impl Strategy<Value = Op> {
    prop_oneof![
        3 => (0usize..5).prop_map(Op::Columns),
        4 => (0usize..5).prop_map(Op::Values),
        2 => (0usize..5).prop_map(Op::ValuesPanic),
        2 => proptest::collection::vec(0usize..5, 0..4).prop_map(Op::ValuesFromPanic),
        2 => (0usize..5).prop_map(Op::Select),
        2 => (0usize..4, 0usize..4).prop_map(|(k, j)| Op::SelectUnion(k, j)),
        1 => Just(Op::Default),
        1 => (0u32..4).prop_map(Op::DefaultMany),
    ]
}

pub fn run(ctx: &mut Ctx) {
    ctx.rule = "cases = call histories over columns(n) / values(w) / values_panic(w) / values_from_panic(rows) / select_from(k items) / select_from(compound select, random part) / \
or_default_values / or_default_values_many(n): all histories of length <= L over a 15-symbol alphabet (n, w, k in 0..=3) exhaustively, plus random \
histories up to length 12 with widths 0..=4; rendered for the three backends in both modes. Non-trivial = at least one accepted and one rejected call; distinct by history."
        .into();
    ctx.assumptions.push("a later call of the other source kind replaces the source (setter semantics), rows are those accepted since".into());
    ctx.domain_restrictions.push("or_default_values_many(0) renders no row; its text is not checked".into());
    let max_len = ctx.tier.pick(5, 6);
    let total = count_strings(15, max_len);
    ctx.run_indexed("histories-exhaustive", total, &nth_history, &check);
    let n = ctx.tier.pick(300_000, 3_000_000);
    ctx.run_proptest("histories-random", n, &|| proptest::collection::vec(op_strategy(), 0..13), &check);
    if let Some(p) = ctx.parts.first_mut() {
        p.exhaustive = true;
    }
    ctx.extra.insert("exhaustive_max_len".into(), serde_json::json!(max_len));
}

pub fn replay(_part: &str, case: &J, obs: &mut Obs) -> R {
    let c: Vec<Op> = from_case(case)?;
    check(&c, obs)
}
