//! C18: serialisable descriptions ("specs") of `Value`s, their construction, and the harness-side
//! notion of payload equality (the payload type's own `==`; floats: `==` or both NaN).

use sea_query::{ArrayType, Value};
use serde::{Deserialize, Serialize};

#[derive(Serialize, Deserialize, Clone, Debug, PartialEq, Eq, Hash)]
pub struct Ymd {
    pub y: i32,
    pub m: u8,
    pub d: u8,
}

/// time of day; `leap` (chrono only) puts the value into the leap second, allowed when secs % 60 == 59
#[derive(Serialize, Deserialize, Clone, Debug, PartialEq, Eq, Hash)]
pub struct Tm {
    pub secs: u32,
    pub nanos: u32,
    pub leap: bool,
}

impl Tm {
    pub fn new(secs: u32, nanos: u32, leap: bool) -> Tm {
        let secs = secs % 86_400;
        Tm { secs, nanos: nanos % 1_000_000_000, leap: leap && secs % 60 == 59 }
    }
}

/// an instant: unix seconds + nanoseconds
#[derive(Serialize, Deserialize, Clone, Debug, PartialEq, Eq, Hash)]
pub struct Inst {
    pub secs: i64,
    pub nanos: u32,
}

#[derive(Serialize, Deserialize, Clone, Debug, PartialEq, Eq, Hash)]
pub struct Dec {
    pub lo: u32,
    pub mid: u32,
    pub hi: u32,
    pub neg: bool,
    pub scale: u32,
}

#[derive(Serialize, Deserialize, Clone, Debug, PartialEq, Eq, Hash)]
pub struct BigDec {
    /// optional '-' followed by decimal digits
    pub digits: String,
    pub scale: i64,
}

#[derive(Serialize, Deserialize, Clone, Debug, PartialEq, Eq, Hash)]
pub enum Ip {
    V4(u32, u8),
    V6(u64, u64, u8),
}

/// JSON payload description. `F` holds f64 bits (non-finite becomes null), `O` inserts members in order
/// (a repeated key overwrites), `Raw` is parsed from text (invalid text becomes null).
#[derive(Serialize, Deserialize, Clone, Debug, PartialEq, Eq, Hash)]
pub enum JS {
    Null,
    Bool(bool),
    I(i64),
    U(u64),
    F(u64),
    S(String),
    A(Vec<JS>),
    O(Vec<(String, JS)>),
    Raw(String),
}

macro_rules! arr_types {
    ($($n:ident),*) => {
        #[derive(Serialize, Deserialize, Clone, Copy, Debug, PartialEq, Eq, Hash)]
        pub enum ArrTy { $($n),* }
        pub const ARR_TYPES: &[ArrTy] = &[$(ArrTy::$n),*];
        impl ArrTy {
            pub fn to_sq(self) -> ArrayType { match self { $(ArrTy::$n => ArrayType::$n),* } }
        }
    };
}
arr_types!(
    Bool, TinyInt, SmallInt, Int, BigInt, TinyUnsigned, SmallUnsigned, Unsigned, BigUnsigned, Float, Double, String,
    Char, Bytes, Json, ChronoDate, ChronoTime, ChronoDateTime, ChronoDateTimeUtc, ChronoDateTimeLocal,
    ChronoDateTimeWithTimeZone, TimeDate, TimeTime, TimeDateTime, TimeDateTimeWithTimeZone, Uuid, Decimal, BigDecimal,
    IpNetwork, MacAddress
);

#[derive(Serialize, Deserialize, Clone, Debug, PartialEq, Eq, Hash)]
pub enum Spec {
    Bool(Option<bool>),
    TinyInt(Option<i8>),
    SmallInt(Option<i16>),
    Int(Option<i32>),
    BigInt(Option<i64>),
    TinyUnsigned(Option<u8>),
    SmallUnsigned(Option<u16>),
    Unsigned(Option<u32>),
    BigUnsigned(Option<u64>),
    /// f32 bit pattern
    Float(Option<u32>),
    /// f64 bit pattern
    Double(Option<u64>),
    String(Option<String>),
    Char(Option<char>),
    Bytes(Option<Vec<u8>>),
    Json(Option<JS>),
    ChronoDate(Option<Ymd>),
    ChronoTime(Option<Tm>),
    ChronoDateTime(Option<(Ymd, Tm)>),
    ChronoDateTimeUtc(Option<Inst>),
    ChronoDateTimeLocal(Option<Inst>),
    /// instant + offset east of UTC in seconds
    ChronoDateTimeWithTimeZone(Option<(Inst, i32)>),
    TimeDate(Option<Ymd>),
    TimeTime(Option<Tm>),
    TimeDateTime(Option<(Ymd, Tm)>),
    TimeDateTimeWithTimeZone(Option<(Inst, i32)>),
    Uuid(Option<(u64, u64)>),
    Decimal(Option<Dec>),
    BigDecimal(Option<BigDec>),
    Array(ArrTy, Option<Vec<Spec>>),
    /// f32 bit patterns
    Vector(Option<Vec<u32>>),
    IpNetwork(Option<Ip>),
    MacAddress(Option<[u8; 6]>),
}

pub const N_VARIANTS: usize = 32;

impl Spec {
    /// the variant name — identical to the name of the `Value` variant that `build` produces
    pub fn tag(&self) -> &'static str {
        match self {
            Spec::Bool(_) => "Bool",
            Spec::TinyInt(_) => "TinyInt",
            Spec::SmallInt(_) => "SmallInt",
            Spec::Int(_) => "Int",
            Spec::BigInt(_) => "BigInt",
            Spec::TinyUnsigned(_) => "TinyUnsigned",
            Spec::SmallUnsigned(_) => "SmallUnsigned",
            Spec::Unsigned(_) => "Unsigned",
            Spec::BigUnsigned(_) => "BigUnsigned",
            Spec::Float(_) => "Float",
            Spec::Double(_) => "Double",
            Spec::String(_) => "String",
            Spec::Char(_) => "Char",
            Spec::Bytes(_) => "Bytes",
            Spec::Json(_) => "Json",
            Spec::ChronoDate(_) => "ChronoDate",
            Spec::ChronoTime(_) => "ChronoTime",
            Spec::ChronoDateTime(_) => "ChronoDateTime",
            Spec::ChronoDateTimeUtc(_) => "ChronoDateTimeUtc",
            Spec::ChronoDateTimeLocal(_) => "ChronoDateTimeLocal",
            Spec::ChronoDateTimeWithTimeZone(_) => "ChronoDateTimeWithTimeZone",
            Spec::TimeDate(_) => "TimeDate",
            Spec::TimeTime(_) => "TimeTime",
            Spec::TimeDateTime(_) => "TimeDateTime",
            Spec::TimeDateTimeWithTimeZone(_) => "TimeDateTimeWithTimeZone",
            Spec::Uuid(_) => "Uuid",
            Spec::Decimal(_) => "Decimal",
            Spec::BigDecimal(_) => "BigDecimal",
            Spec::Array(..) => "Array",
            Spec::Vector(_) => "Vector",
            Spec::IpNetwork(_) => "IpNetwork",
            Spec::MacAddress(_) => "MacAddress",
        }
    }

    pub fn is_null(&self) -> bool {
        match self {
            Spec::Bool(None)
            | Spec::TinyInt(None)
            | Spec::SmallInt(None)
            | Spec::Int(None)
            | Spec::BigInt(None)
            | Spec::TinyUnsigned(None)
            | Spec::SmallUnsigned(None)
            | Spec::Unsigned(None)
            | Spec::BigUnsigned(None)
            | Spec::Float(None)
            | Spec::Double(None)
            | Spec::String(None)
            | Spec::Char(None)
            | Spec::Bytes(None)
            | Spec::Json(None)
            | Spec::ChronoDate(None)
            | Spec::ChronoTime(None)
            | Spec::ChronoDateTime(None)
            | Spec::ChronoDateTimeUtc(None)
            | Spec::ChronoDateTimeLocal(None)
            | Spec::ChronoDateTimeWithTimeZone(None)
            | Spec::TimeDate(None)
            | Spec::TimeTime(None)
            | Spec::TimeDateTime(None)
            | Spec::TimeDateTimeWithTimeZone(None)
            | Spec::Uuid(None)
            | Spec::Decimal(None)
            | Spec::BigDecimal(None)
            | Spec::Array(_, None)
            | Spec::Vector(None)
            | Spec::IpNetwork(None)
            | Spec::MacAddress(None) => true,
            _ => false,
        }
    }
}

// ---------------------------------------------------------------------------------------------
// payload constructors (each call allocates afresh: "constructed independently")

pub fn mk_json(j: &JS) -> serde_json::Value {
    use serde_json::Value as V;
    match j {
        JS::Null => V::Null,
        JS::Bool(b) => V::Bool(*b),
        JS::I(i) => V::Number((*i).into()),
        JS::U(u) => V::Number((*u).into()),
        JS::F(bits) => serde_json::Number::from_f64(f64::from_bits(*bits)).map(V::Number).unwrap_or(V::Null),
        JS::S(s) => V::String(s.clone()),
        JS::A(v) => V::Array(v.iter().map(mk_json).collect()),
        JS::O(m) => {
            let mut map = serde_json::Map::new();
            for (k, v) in m {
                map.insert(k.clone(), mk_json(v));
            }
            V::Object(map)
        }
        JS::Raw(t) => serde_json::from_str(t).unwrap_or(V::Null),
    }
}

fn clamp_y(y: i32) -> i32 {
    y.clamp(-9999, 9999)
}

pub fn mk_cdate(d: &Ymd) -> chrono::NaiveDate {
    chrono::NaiveDate::from_ymd_opt(clamp_y(d.y), (d.m.clamp(1, 12)) as u32, (d.d.clamp(1, 28)) as u32).unwrap()
}

pub fn mk_ctime(t: &Tm) -> chrono::NaiveTime {
    let t = Tm::new(t.secs, t.nanos, t.leap);
    chrono::NaiveTime::from_num_seconds_from_midnight_opt(t.secs, t.nanos + if t.leap { 1_000_000_000 } else { 0 })
        .unwrap()
}

fn clamp_inst(i: &Inst) -> (i64, u32) {
    (i.secs.clamp(-100_000_000_000, 100_000_000_000), i.nanos % 1_000_000_000)
}

pub fn mk_cutc(i: &Inst) -> chrono::DateTime<chrono::Utc> {
    let (s, n) = clamp_inst(i);
    chrono::DateTime::<chrono::Utc>::from_timestamp(s, n).unwrap()
}

fn clamp_off(o: i32) -> i32 {
    o.clamp(-86_399, 86_399)
}

pub fn mk_cfixed(i: &Inst, off: i32) -> chrono::DateTime<chrono::FixedOffset> {
    mk_cutc(i).with_timezone(&chrono::FixedOffset::east_opt(clamp_off(off)).unwrap())
}

pub fn mk_tdate(d: &Ymd) -> time::Date {
    let m = time::Month::try_from(d.m.clamp(1, 12)).unwrap();
    time::Date::from_calendar_date(clamp_y(d.y), m, d.d.clamp(1, 28)).unwrap()
}

pub fn mk_ttime(t: &Tm) -> time::Time {
    let t = Tm::new(t.secs, t.nanos, false);
    time::Time::from_hms_nano((t.secs / 3600) as u8, ((t.secs / 60) % 60) as u8, (t.secs % 60) as u8, t.nanos).unwrap()
}

pub fn mk_toff(i: &Inst, off: i32) -> time::OffsetDateTime {
    let (s, n) = clamp_inst(i);
    time::OffsetDateTime::from_unix_timestamp_nanos(s as i128 * 1_000_000_000 + n as i128)
        .unwrap()
        .to_offset(time::UtcOffset::from_whole_seconds(clamp_off(off)).unwrap())
}

pub fn mk_uuid(u: &(u64, u64)) -> uuid::Uuid {
    uuid::Uuid::from_u128(((u.0 as u128) << 64) | u.1 as u128)
}

pub fn mk_dec(d: &Dec) -> rust_decimal::Decimal {
    let mut x = rust_decimal::Decimal::from_parts(d.lo, d.mid, d.hi, d.neg, d.scale.min(28));
    if d.neg && d.lo == 0 && d.mid == 0 && d.hi == 0 {
        x.set_sign_negative(true); // a negative zero
    }
    x
}

pub fn mk_bigdec(d: &BigDec) -> bigdecimal::BigDecimal {
    use bigdecimal::num_bigint::BigInt;
    let n = BigInt::parse_bytes(d.digits.as_bytes(), 10).unwrap_or_else(|| BigInt::from(0));
    bigdecimal::BigDecimal::new(n, d.scale.clamp(-200, 200))
}

pub fn mk_ip(ip: &Ip) -> ipnetwork::IpNetwork {
    use std::net::{IpAddr, Ipv4Addr, Ipv6Addr};
    match ip {
        Ip::V4(a, p) => ipnetwork::IpNetwork::new(IpAddr::V4(Ipv4Addr::from(*a)), (*p).min(32)).unwrap(),
        Ip::V6(h, l, p) => {
            ipnetwork::IpNetwork::new(IpAddr::V6(Ipv6Addr::from(((*h as u128) << 64) | *l as u128)), (*p).min(128)).unwrap()
        }
    }
}

pub fn mk_vec(v: &[u32]) -> pgvector::Vector {
    pgvector::Vector::from(v.iter().map(|b| f32::from_bits(*b)).collect::<Vec<f32>>())
}

/// Build the sea-query value. Every call allocates new boxes / strings / vectors.
pub fn build(s: &Spec) -> Value {
    fn bx<T>(o: Option<T>) -> Option<Box<T>> {
        o.map(Box::new)
    }
    match s {
        Spec::Bool(v) => Value::Bool(*v),
        Spec::TinyInt(v) => Value::TinyInt(*v),
        Spec::SmallInt(v) => Value::SmallInt(*v),
        Spec::Int(v) => Value::Int(*v),
        Spec::BigInt(v) => Value::BigInt(*v),
        Spec::TinyUnsigned(v) => Value::TinyUnsigned(*v),
        Spec::SmallUnsigned(v) => Value::SmallUnsigned(*v),
        Spec::Unsigned(v) => Value::Unsigned(*v),
        Spec::BigUnsigned(v) => Value::BigUnsigned(*v),
        Spec::Float(v) => Value::Float(v.map(f32::from_bits)),
        Spec::Double(v) => Value::Double(v.map(f64::from_bits)),
        Spec::String(v) => Value::String(bx(v.as_ref().map(|s| s.chars().collect::<String>()))),
        Spec::Char(v) => Value::Char(*v),
        Spec::Bytes(v) => Value::Bytes(bx(v.as_ref().map(|b| b.iter().copied().collect::<Vec<u8>>()))),
        Spec::Json(v) => Value::Json(bx(v.as_ref().map(mk_json))),
        Spec::ChronoDate(v) => Value::ChronoDate(bx(v.as_ref().map(mk_cdate))),
        Spec::ChronoTime(v) => Value::ChronoTime(bx(v.as_ref().map(mk_ctime))),
        Spec::ChronoDateTime(v) => Value::ChronoDateTime(bx(v.as_ref().map(|(d, t)| mk_cdate(d).and_time(mk_ctime(t))))),
        Spec::ChronoDateTimeUtc(v) => Value::ChronoDateTimeUtc(bx(v.as_ref().map(mk_cutc))),
        Spec::ChronoDateTimeLocal(v) => {
            Value::ChronoDateTimeLocal(bx(v.as_ref().map(|i| mk_cutc(i).with_timezone(&chrono::Local))))
        }
        Spec::ChronoDateTimeWithTimeZone(v) => {
            Value::ChronoDateTimeWithTimeZone(bx(v.as_ref().map(|(i, o)| mk_cfixed(i, *o))))
        }
        Spec::TimeDate(v) => Value::TimeDate(bx(v.as_ref().map(mk_tdate))),
        Spec::TimeTime(v) => Value::TimeTime(bx(v.as_ref().map(mk_ttime))),
        Spec::TimeDateTime(v) => {
            Value::TimeDateTime(bx(v.as_ref().map(|(d, t)| time::PrimitiveDateTime::new(mk_tdate(d), mk_ttime(t)))))
        }
        Spec::TimeDateTimeWithTimeZone(v) => {
            Value::TimeDateTimeWithTimeZone(bx(v.as_ref().map(|(i, o)| mk_toff(i, *o))))
        }
        Spec::Uuid(v) => Value::Uuid(bx(v.as_ref().map(mk_uuid))),
        Spec::Decimal(v) => Value::Decimal(bx(v.as_ref().map(mk_dec))),
        Spec::BigDecimal(v) => Value::BigDecimal(bx(v.as_ref().map(mk_bigdec))),
        Spec::Array(t, v) => Value::Array(t.to_sq(), bx(v.as_ref().map(|e| e.iter().map(build).collect::<Vec<Value>>()))),
        Spec::Vector(v) => Value::Vector(bx(v.as_ref().map(|e| mk_vec(e)))),
        Spec::IpNetwork(v) => Value::IpNetwork(bx(v.as_ref().map(mk_ip))),
        Spec::MacAddress(v) => Value::MacAddress(bx(v.map(mac_address::MacAddress::new))),
    }
}

// ---------------------------------------------------------------------------------------------
// harness-side payload equality

fn feq32(a: u32, b: u32) -> bool {
    let (x, y) = (f32::from_bits(a), f32::from_bits(b));
    (x.is_nan() && y.is_nan()) || x == y
}

fn feq64(a: u64, b: u64) -> bool {
    let (x, y) = (f64::from_bits(a), f64::from_bits(b));
    (x.is_nan() && y.is_nan()) || x == y
}

fn oeq<T>(a: &Option<T>, b: &Option<T>, f: impl Fn(&T, &T) -> bool) -> bool {
    match (a, b) {
        (None, None) => true,
        (Some(x), Some(y)) => f(x, y),
        _ => false,
    }
}

/// `Some(eq)` when both specs name the same variant: are the payloads equal under the payload type's
/// own `==` (floats: `==` or both NaN)? `None` for different variants.
pub fn payload_eq(a: &Spec, b: &Spec) -> Option<bool> {
    use Spec as S;
    Some(match (a, b) {
        (S::Bool(x), S::Bool(y)) => x == y,
        (S::TinyInt(x), S::TinyInt(y)) => x == y,
        (S::SmallInt(x), S::SmallInt(y)) => x == y,
        (S::Int(x), S::Int(y)) => x == y,
        (S::BigInt(x), S::BigInt(y)) => x == y,
        (S::TinyUnsigned(x), S::TinyUnsigned(y)) => x == y,
        (S::SmallUnsigned(x), S::SmallUnsigned(y)) => x == y,
        (S::Unsigned(x), S::Unsigned(y)) => x == y,
        (S::BigUnsigned(x), S::BigUnsigned(y)) => x == y,
        (S::Float(x), S::Float(y)) => oeq(x, y, |p, q| feq32(*p, *q)),
        (S::Double(x), S::Double(y)) => oeq(x, y, |p, q| feq64(*p, *q)),
        (S::String(x), S::String(y)) => x == y,
        (S::Char(x), S::Char(y)) => x == y,
        (S::Bytes(x), S::Bytes(y)) => x == y,
        (S::Json(x), S::Json(y)) => oeq(x, y, |p, q| mk_json(p) == mk_json(q)),
        (S::ChronoDate(x), S::ChronoDate(y)) => oeq(x, y, |p, q| mk_cdate(p) == mk_cdate(q)),
        (S::ChronoTime(x), S::ChronoTime(y)) => oeq(x, y, |p, q| mk_ctime(p) == mk_ctime(q)),
        (S::ChronoDateTime(x), S::ChronoDateTime(y)) => {
            oeq(x, y, |p, q| mk_cdate(&p.0).and_time(mk_ctime(&p.1)) == mk_cdate(&q.0).and_time(mk_ctime(&q.1)))
        }
        (S::ChronoDateTimeUtc(x), S::ChronoDateTimeUtc(y)) => oeq(x, y, |p, q| mk_cutc(p) == mk_cutc(q)),
        (S::ChronoDateTimeLocal(x), S::ChronoDateTimeLocal(y)) => oeq(x, y, |p, q| mk_cutc(p) == mk_cutc(q)),
        (S::ChronoDateTimeWithTimeZone(x), S::ChronoDateTimeWithTimeZone(y)) => {
            oeq(x, y, |p, q| mk_cfixed(&p.0, p.1) == mk_cfixed(&q.0, q.1))
        }
        (S::TimeDate(x), S::TimeDate(y)) => oeq(x, y, |p, q| mk_tdate(p) == mk_tdate(q)),
        (S::TimeTime(x), S::TimeTime(y)) => oeq(x, y, |p, q| mk_ttime(p) == mk_ttime(q)),
        (S::TimeDateTime(x), S::TimeDateTime(y)) => oeq(x, y, |p, q| {
            time::PrimitiveDateTime::new(mk_tdate(&p.0), mk_ttime(&p.1))
                == time::PrimitiveDateTime::new(mk_tdate(&q.0), mk_ttime(&q.1))
        }),
        (S::TimeDateTimeWithTimeZone(x), S::TimeDateTimeWithTimeZone(y)) => {
            oeq(x, y, |p, q| mk_toff(&p.0, p.1) == mk_toff(&q.0, q.1))
        }
        (S::Uuid(x), S::Uuid(y)) => oeq(x, y, |p, q| mk_uuid(p) == mk_uuid(q)),
        (S::Decimal(x), S::Decimal(y)) => oeq(x, y, |p, q| mk_dec(p) == mk_dec(q)),
        (S::BigDecimal(x), S::BigDecimal(y)) => oeq(x, y, |p, q| mk_bigdec(p) == mk_bigdec(q)),
        (S::Array(tx, x), S::Array(ty, y)) => {
            tx == ty
                && oeq(x, y, |p, q| {
                    p.len() == q.len() && p.iter().zip(q.iter()).all(|(e, f)| payload_eq(e, f) == Some(true))
                })
        }
        (S::Vector(x), S::Vector(y)) => {
            oeq(x, y, |p, q| p.len() == q.len() && p.iter().zip(q.iter()).all(|(e, f)| feq32(*e, *f)))
        }
        (S::IpNetwork(x), S::IpNetwork(y)) => oeq(x, y, |p, q| mk_ip(p) == mk_ip(q)),
        (S::MacAddress(x), S::MacAddress(y)) => x == y,
        _ => return None,
    })
}

fn zero_sign_free(v: &serde_json::Value) -> serde_json::Value {
    use serde_json::Value as V;
    match v {
        V::Number(n) if n.is_f64() && n.as_f64() == Some(0.0) => V::Number(serde_json::Number::from_f64(0.0).unwrap()),
        V::Array(a) => V::Array(a.iter().map(zero_sign_free).collect()),
        V::Object(m) => V::Object(m.iter().map(|(k, v)| (k.clone(), zero_sign_free(v))).collect()),
        other => other.clone(),
    }
}

/// Signature classification only (never a verdict): the two specs have equal payloads, and the only
/// thing that makes the built values unequal is the sign of a float zero inside a JSON payload.
pub fn json_differs_only_in_zero_sign(a: &Spec, b: &Spec) -> bool {
    match (a, b) {
        (Spec::Json(Some(x)), Spec::Json(Some(y))) => {
            let (x, y) = (mk_json(x), mk_json(y));
            x.to_string() != y.to_string() && zero_sign_free(&x).to_string() == zero_sign_free(&y).to_string()
        }
        (Spec::Array(ta, Some(x)), Spec::Array(tb, Some(y))) if ta == tb && x.len() == y.len() => {
            let mut any = false;
            for (e, f) in x.iter().zip(y.iter()) {
                if json_differs_only_in_zero_sign(e, f) {
                    any = true;
                } else if build(e) != build(f) {
                    return false;
                }
            }
            any
        }
        _ => false,
    }
}

/// the same classification for two sequences of values (tuples, `Values`)
pub fn seq_differs_only_in_json_zero_sign(a: &[Spec], b: &[Spec]) -> bool {
    let mut any = false;
    if a.len() != b.len() {
        return false;
    }
    for (e, f) in a.iter().zip(b.iter()) {
        if json_differs_only_in_zero_sign(e, f) {
            any = true;
        } else if build(e) != build(f) {
            return false;
        }
    }
    any
}

pub const SIG_JSON_ZERO_SIGN: &str = "equal-payload-unequal/json-zero-sign";

/// A variant-independent rendering of the payload; equal keys under different variants mean
/// "differs only in variant" (used for the non-triviality rule only, never for a verdict).
pub fn payload_key(s: &Spec) -> String {
    fn num_f(x: f64) -> String {
        if x.is_finite() && x.fract() == 0.0 && x.abs() < 1e15 {
            format!("{}", x as i64)
        } else {
            format!("{x:?}")
        }
    }
    if s.is_null() {
        return "null".into();
    }
    match s {
        Spec::Bool(Some(v)) => v.to_string(),
        Spec::TinyInt(Some(v)) => v.to_string(),
        Spec::SmallInt(Some(v)) => v.to_string(),
        Spec::Int(Some(v)) => v.to_string(),
        Spec::BigInt(Some(v)) => v.to_string(),
        Spec::TinyUnsigned(Some(v)) => v.to_string(),
        Spec::SmallUnsigned(Some(v)) => v.to_string(),
        Spec::Unsigned(Some(v)) => v.to_string(),
        Spec::BigUnsigned(Some(v)) => v.to_string(),
        Spec::Float(Some(v)) => num_f(f32::from_bits(*v) as f64),
        Spec::Double(Some(v)) => num_f(f64::from_bits(*v)),
        Spec::String(Some(v)) => v.clone(),
        Spec::Char(Some(v)) => v.to_string(),
        Spec::Bytes(Some(v)) => String::from_utf8_lossy(v).into_owned(),
        Spec::Json(Some(v)) => match mk_json(v) {
            serde_json::Value::String(s) => s,
            other => other.to_string(),
        },
        Spec::ChronoDate(Some(d)) | Spec::TimeDate(Some(d)) => format!("{}-{}-{}", d.y, d.m, d.d),
        Spec::ChronoTime(Some(t)) | Spec::TimeTime(Some(t)) => format!("{}.{}", t.secs, t.nanos),
        Spec::ChronoDateTime(Some((d, t))) | Spec::TimeDateTime(Some((d, t))) => {
            format!("{}-{}-{}T{}.{}", d.y, d.m, d.d, t.secs, t.nanos)
        }
        Spec::ChronoDateTimeUtc(Some(i)) | Spec::ChronoDateTimeLocal(Some(i)) => format!("@{}.{}", i.secs, i.nanos),
        Spec::ChronoDateTimeWithTimeZone(Some((i, _))) | Spec::TimeDateTimeWithTimeZone(Some((i, _))) => {
            format!("@{}.{}", i.secs, i.nanos)
        }
        Spec::Uuid(Some(u)) => mk_uuid(u).to_string(),
        Spec::Decimal(Some(d)) => mk_dec(d).normalize().to_string(),
        Spec::BigDecimal(Some(d)) => mk_bigdec(d).normalized().to_string(),
        Spec::Array(_, Some(v)) => format!("[{}]", v.iter().map(payload_key).collect::<Vec<_>>().join(",")),
        Spec::Vector(Some(v)) => {
            format!("[{}]", v.iter().map(|b| num_f(f32::from_bits(*b) as f64)).collect::<Vec<_>>().join(","))
        }
        Spec::IpNetwork(Some(ip)) => mk_ip(ip).to_string(),
        Spec::MacAddress(Some(m)) => mac_address::MacAddress::new(*m).to_string(),
        _ => "null".into(),
    }
}
