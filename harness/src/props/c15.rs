//! C15 — take, clone and clear behave as value operations on builders.
//!
//! Cases are CALL HISTORIES (`Vec<Step<Call>>`): public builder calls with `take()`, `clone()` /
//! `to_owned()` and the clear / reset calls inserted anywhere. A history is interpreted against the real
//! builder; the reference model of a statement is "the statement built by replaying, on a fresh builder,
//! the setter calls that logically make it up" — i.e. the same history WITHOUT certain calls:
//!
//!  * `take()`: the taken value `==` the clone made just before (types with `PartialEq`; both share `Rc`
//!    lineage), has the same `Debug` text and renders identically (to_string and build, three backends);
//!    it also prints / renders like the replay of the calls made since the last take. For query statements
//!    (`SelectStatement`, `WindowStatement`) the left-over `== Type::new()`, prints and renders like it, and
//!    the rest of the history continues on it exactly as on a fresh statement (checked against the replay
//!    of only the later calls).
//!  * `clone()` / `to_owned()`: equal to the source, same `Debug` text and renderings. One side is then
//!    frozen (which one is part of the case) while the history goes on with the other; at the end every
//!    frozen value must still print and render exactly as when it was frozen (deep-copy semantics). The
//!    same is required of every taken value.
//!  * `clear_x` / `reset_x`: the statement prints and renders like the replay of the history with the calls
//!    that fed clause x removed, everything else untouched.
//!
//! Independently built statements are compared by `Debug` text and renderings only (`SeaRc<dyn Iden>`
//! equality looks at vtable pointers). A rendering that panics (incomplete statement, feature a backend
//! does not support) is an outcome like any other: both sides must panic with the same message.

use crate::runner::*;
use crate::util::*;
use proptest::prelude::*;
use serde::de::DeserializeOwned;
use serde::{Deserialize, Serialize};
use serde_json::{json, Value as J};
use std::collections::{BTreeMap, BTreeSet};
use std::fmt::Debug;
use std::hash::Hash;
use std::panic::{catch_unwind, AssertUnwindSafe};

pub mod args;
pub mod ddl;
pub mod select;

#[derive(Serialize, Deserialize, Clone, Debug, PartialEq, Eq, Hash)]
pub enum Step<C> {
    Call(C),
    Take,
    /// `clone()`; with `swap` the history continues on the clone and the source is the frozen side
    Clone { swap: bool },
    /// `to_owned()` through a `&mut` reference, as at the end of every builder chain
    ToOwned { swap: bool },
    /// clear / reset call by index into `Machine::CLEARS`
    Clear(u8),
}

/// One statement type: how to call its builder, what feeds which clause, how to observe it.
pub trait Machine: Sized {
    type S: Clone + Debug;
    type Call: Clone + Debug + Serialize + DeserializeOwned + Hash + Send + Sync + 'static;
    const NAME: &'static str;
    /// (method name, `Debug` field name of the clause it empties)
    const CLEARS: &'static [(&'static str, &'static str)];
    /// query statement: the left-over of take() must equal a newly constructed statement
    const LEFTOVER_NEW: bool;
    /// fields that no public call can make non-default (excluded from the coverage goal)
    const UNREACHABLE: &'static [&'static str] = &[];

    fn new() -> Self;
    fn stmt(&self) -> &Self::S;
    fn stmt_mut(&mut self) -> &mut Self::S;
    /// perform one setter call
    fn apply(&mut self, c: &Self::Call);
    /// constructor-like calls replace the whole statement (the replay then starts from them)
    fn is_ctor(_c: &Self::Call) -> bool {
        false
    }
    fn take(&mut self) -> Self::S;
    fn to_owned_via_ref(s: &mut Self::S) -> Self::S;
    fn clear(&mut self, op: usize);
    /// `Debug` field name of the clause this call feeds
    fn field_of(c: &Self::Call) -> &'static str;
    /// `==` where the type has it
    fn eq(a: &Self::S, b: &Self::S) -> Option<bool>;
    /// named renderings (text or "PANIC: message")
    fn renders(s: &Self::S) -> Vec<(String, String)>;
    /// split the Debug text into (field, text) pairs
    fn fields(dbg: &str) -> Option<Vec<(String, String)>> {
        top_fields(dbg)
    }
}

pub fn outcome(f: impl FnOnce() -> String) -> String {
    match catch_unwind(AssertUnwindSafe(f)) {
        Ok(s) => s,
        Err(p) => format!("PANIC: {}", panic_message(p)),
    }
}

/// Split `Name { a: v, b: v }` (non-pretty derived `Debug`) at the top level.
pub fn top_fields(dbg: &str) -> Option<Vec<(String, String)>> {
    let open = dbg.find(" { ")?;
    if !dbg.ends_with(" }") || open + 3 > dbg.len() - 2 {
        return None;
    }
    let body = &dbg[open + 3..dbg.len() - 2];
    let mut parts = vec![];
    let mut depth = 0i32;
    let mut in_str = false;
    let mut esc = false;
    let mut start = 0usize;
    let bytes = body.as_bytes();
    let mut i = 0;
    while i < bytes.len() {
        let c = bytes[i];
        if in_str {
            if esc {
                esc = false;
            } else if c == b'\\' {
                esc = true;
            } else if c == b'"' {
                in_str = false;
            }
        } else {
            match c {
                b'"' => in_str = true,
                b'(' | b'[' | b'{' => depth += 1,
                b')' | b']' | b'}' => depth -= 1,
                b',' if depth == 0 && bytes.get(i + 1) == Some(&b' ') => {
                    parts.push(&body[start..i]);
                    start = i + 2;
                    i += 1;
                }
                _ => {}
            }
        }
        i += 1;
    }
    if in_str || depth != 0 {
        return None;
    }
    parts.push(&body[start..]);
    let mut out = vec![];
    for p in parts {
        let (k, v) = p.split_once(": ")?;
        out.push((k.to_string(), v.to_string()));
    }
    Some(out)
}

/// flatten one nested struct-valued field: `outer.inner`
pub fn flatten_field(fields: Vec<(String, String)>, which: &str) -> Option<Vec<(String, String)>> {
    let mut out = vec![];
    for (k, v) in fields {
        if k == which {
            for (k2, v2) in top_fields(&v)? {
                out.push((format!("{which}.{k2}"), v2));
            }
        } else {
            out.push((k, v));
        }
    }
    Some(out)
}

#[derive(Clone, PartialEq, Debug)]
pub struct Snap {
    pub dbg: String,
    pub renders: Vec<(String, String)>,
}

fn snap<M: Machine>(s: &M::S) -> Snap {
    Snap { dbg: outcome(|| format!("{s:?}")), renders: M::renders(s) }
}

/// first difference between two snapshots as (aspect, human detail)
fn diff<M: Machine>(a: &Snap, b: &Snap) -> Option<(String, String)> {
    if a.dbg != b.dbg {
        let field = match (M::fields(&a.dbg), M::fields(&b.dbg)) {
            (Some(fa), Some(fb)) if fa.len() == fb.len() => {
                fa.iter().zip(fb.iter()).find(|(x, y)| x != y).map(|(x, y)| (x.0.clone(), format!("{}: {}  <>  {}: {}", x.0, x.1, y.0, y.1)))
            }
            _ => None,
        };
        return Some(match field {
            Some((f, d)) => (format!("debug/{f}"), d),
            None => ("debug".to_string(), format!("{}  <>  {}", a.dbg, b.dbg)),
        });
    }
    for (x, y) in a.renders.iter().zip(b.renders.iter()) {
        if x != y {
            return Some((format!("render/{}", x.0), format!("{}: {:?}  <>  {:?}", x.0, x.1, y.1)));
        }
    }
    if a.renders.len() != b.renders.len() {
        return Some(("render/count".into(), String::new()));
    }
    None
}

fn same<M: Machine>(what: &str, a: &Snap, b: &Snap, step: usize) -> R {
    match diff::<M>(a, b) {
        None => Ok(()),
        Some((aspect, detail)) => fail(format!("{}/{what}/{aspect}", M::NAME), format!("step {step}: {what}: {detail}")),
    }
}

/// the reference model: a fresh builder with only these setter calls
fn replay_calls<M: Machine>(calls: &[M::Call]) -> Result<M, Stop> {
    guard("model-replay", || {
        let mut m = M::new();
        for c in calls {
            m.apply(c);
        }
        m
    })
}

struct Frozen<S> {
    what: String,
    at: usize,
    s: S,
    snap: Snap,
}

/// names of the fields whose Debug text differs from the baseline's
fn non_default<M: Machine>(dbg: &str, base: &[(String, String)]) -> Option<Vec<String>> {
    match M::fields(dbg) {
        Some(f) if f.len() == base.len() && f.iter().zip(base.iter()).all(|(x, y)| x.0 == y.0) => Some(f.into_iter().zip(base.iter()).filter(|(x, y)| x.1 != y.1).map(|(x, _)| x.0).collect()),
        _ => None,
    }
}

pub fn reachable_fields<M: Machine>() -> Vec<String> {
    let base = M::new();
    let dbg = format!("{:?}", base.stmt());
    M::fields(&dbg).unwrap_or_default().into_iter().map(|f| f.0).filter(|f| !M::UNREACHABLE.contains(&f.as_str())).collect()
}

pub fn check_history<M: Machine>(steps: &Vec<Step<M::Call>>, obs: &mut Obs) -> R {
    let mut m = M::new();
    let base_dbg = format!("{:?}", m.stmt());
    let Some(base_fields) = M::fields(&base_dbg) else {
        return fail(format!("{}/harness/debug-splitter", M::NAME), format!("cannot split {base_dbg}"));
    };
    let n_reachable = base_fields.iter().filter(|f| !M::UNREACHABLE.contains(&f.0.as_str())).count();
    let threshold = n_reachable.min(8);
    // calls that make up the current statement; None = unknown (left-over of a schema statement's take)
    let mut applied: Option<Vec<M::Call>> = Some(vec![]);
    let mut frozen: Vec<Frozen<M::S>> = vec![];
    let mut covered: BTreeSet<String> = BTreeSet::new();
    let mut best = 0usize;
    let mut ops: BTreeSet<&'static str> = BTreeSet::new();
    let split_failed = std::cell::Cell::new(false);
    let observe = |dbg: &str, covered: &mut BTreeSet<String>, best: &mut usize| match non_default::<M>(dbg, &base_fields) {
        Some(nd) => {
            *best = (*best).max(nd.len());
            covered.extend(nd);
        }
        None => split_failed.set(true),
    };
    for (i, st) in steps.iter().enumerate() {
        match st {
            Step::Call(c) => {
                guard("builder-call", || m.apply(c))?;
                if M::is_ctor(c) {
                    applied = Some(vec![c.clone()]);
                } else if let Some(a) = &mut applied {
                    a.push(c.clone());
                }
            }
            Step::Take => {
                ops.insert("take");
                let before = guard("clone", || m.stmt().clone())?;
                let before_snap = snap::<M>(&before);
                observe(&before_snap.dbg, &mut covered, &mut best);
                let taken = guard("take", || m.take())?;
                let taken_snap = snap::<M>(&taken);
                if M::eq(&taken, &before) == Some(false) {
                    let why = diff::<M>(&taken_snap, &before_snap).map(|d| d.0).unwrap_or_else(|| "eq-only".into());
                    return fail(format!("{}/take/taken-ne-clone-before/{why}", M::NAME), format!("step {i}: taken != clone made just before: {:?} vs {:?}", taken_snap.dbg, before_snap.dbg));
                }
                same::<M>("take/taken-vs-clone-before", &taken_snap, &before_snap, i)?;
                if let Some(a) = &applied {
                    let model = replay_calls::<M>(a)?;
                    same::<M>("take/taken-vs-replay", &taken_snap, &snap::<M>(model.stmt()), i)?;
                }
                if M::LEFTOVER_NEW {
                    let fresh = M::new();
                    let left = snap::<M>(m.stmt());
                    let fresh_snap = snap::<M>(fresh.stmt());
                    if M::eq(m.stmt(), fresh.stmt()) == Some(false) {
                        let why = diff::<M>(&left, &fresh_snap).map(|d| d.0).unwrap_or_else(|| "eq-only".into());
                        return fail(format!("{}/take/left-over-ne-new/{why}", M::NAME), format!("step {i}: left-over {:?}", left.dbg));
                    }
                    same::<M>("take/left-over-vs-new", &left, &fresh_snap, i)?;
                    applied = Some(vec![]);
                } else {
                    applied = None;
                }
                frozen.push(Frozen { what: "taken".into(), at: i, s: taken, snap: taken_snap });
                frozen.push(Frozen { what: "clone-before-take".into(), at: i, s: before, snap: before_snap });
            }
            Step::Clone { swap } | Step::ToOwned { swap } => {
                let to_owned = matches!(st, Step::ToOwned { .. });
                let opname = if to_owned { "to_owned" } else { "clone" };
                ops.insert(opname);
                let c = if to_owned { guard("to_owned", || M::to_owned_via_ref(m.stmt_mut()))? } else { guard("clone", || m.stmt().clone())? };
                let c_snap = snap::<M>(&c);
                let src_snap = snap::<M>(m.stmt());
                observe(&src_snap.dbg, &mut covered, &mut best);
                if M::eq(&c, m.stmt()) == Some(false) {
                    let why = diff::<M>(&c_snap, &src_snap).map(|d| d.0).unwrap_or_else(|| "eq-only".into());
                    return fail(format!("{}/{opname}/ne-source/{why}", M::NAME), format!("step {i}: clone != source: {:?} vs {:?}", c_snap.dbg, src_snap.dbg));
                }
                same::<M>(&format!("{opname}/vs-source"), &c_snap, &src_snap, i)?;
                if *swap {
                    let src = std::mem::replace(m.stmt_mut(), c);
                    frozen.push(Frozen { what: format!("source-of-{opname}"), at: i, s: src, snap: src_snap });
                } else {
                    frozen.push(Frozen { what: opname.to_string(), at: i, s: c, snap: c_snap });
                }
            }
            Step::Clear(op) => {
                if M::CLEARS.is_empty() {
                    continue;
                }
                let op = *op as usize % M::CLEARS.len();
                let (name, field) = M::CLEARS[op];
                ops.insert(name);
                let before_dbg = outcome(|| format!("{:?}", m.stmt()));
                observe(&before_dbg, &mut covered, &mut best);
                guard(name, || m.clear(op))?;
                if let Some(a) = &mut applied {
                    a.retain(|c| M::field_of(c) != field);
                    let model = replay_calls::<M>(a)?;
                    same::<M>(&format!("{name}/vs-replay-without-{field}-calls"), &snap::<M>(m.stmt()), &snap::<M>(model.stmt()), i)?;
                }
            }
        }
    }
    let n = steps.len();
    if let Some(a) = &applied {
        let model = replay_calls::<M>(a)?;
        same::<M>("final/vs-replay", &snap::<M>(m.stmt()), &snap::<M>(model.stmt()), n)?;
    }
    for f in &frozen {
        let now = snap::<M>(&f.s);
        if let Some((aspect, detail)) = diff::<M>(&now, &f.snap) {
            return fail(
                format!("{}/shared-state/{}/{aspect}", M::NAME, f.what),
                format!("the {} of step {} changed after later calls on the other side: {detail}", f.what, f.at),
            );
        }
    }
    obs.label(format!("{}/len{}", M::NAME, (n / 8) * 8));
    for o in &ops {
        obs.label(format!("{}/op/{o}", M::NAME));
    }
    for f in &covered {
        obs.label(format!("nd/{}/{f}", M::NAME));
    }
    if split_failed.get() {
        // coverage accounting only: the verdicts above never depend on the splitter
        obs.label(format!("{}/debug-split-failed", M::NAME));
    }
    if !ops.is_empty() && best >= threshold {
        obs.nontrivial(&(M::NAME, steps));
        obs.label(format!("{}/nontrivial", M::NAME));
        obs.note(format!("{} non-default fields at a take/clone/clear point; final Debug: {}", best, outcome(|| format!("{:?}", m.stmt()))));
    }
    Ok(())
}

// ------------------------------------------------------------------------------------ generators

pub fn history<C: Debug + Clone + 'static>(call: BoxedStrategy<C>, clears: usize, max_len: usize, value_op_weight: u32) -> BoxedStrategy<Vec<Step<C>>> {
    let w = value_op_weight;
    let step = if clears > 0 {
        prop_oneof![
            (100 - 4 * w) => call.prop_map(Step::Call),
            w => Just(Step::Take),
            w => any::<bool>().prop_map(|swap| Step::Clone { swap }),
            w => any::<bool>().prop_map(|swap| Step::ToOwned { swap }),
            w => (0..clears as u8).prop_map(Step::Clear),
        ]
        .boxed()
    } else {
        prop_oneof![
            (100 - 3 * w) => call.prop_map(Step::Call),
            w => Just(Step::Take),
            w => any::<bool>().prop_map(|swap| Step::Clone { swap }),
            w => any::<bool>().prop_map(|swap| Step::ToOwned { swap }),
        ]
        .boxed()
    };
    proptest::collection::vec(step, 0..=max_len).boxed()
}

/// Bounded-exhaustive family: every full history (one call per field), with no call or exactly one call
/// left out, every value operation inserted at every position, followed by a fixed tail of further calls.
#[derive(Clone)]
pub struct Family<C> {
    pub fulls: Vec<Vec<C>>,
    pub tail: Vec<C>,
    pub ops: Vec<Step<C>>,
}

impl<C: Clone> Family<C> {
    pub fn new(fulls: Vec<Vec<C>>, tail: Vec<C>, clears: usize) -> Self {
        let mut ops = vec![Step::Take, Step::Clone { swap: false }, Step::Clone { swap: true }, Step::ToOwned { swap: false }, Step::ToOwned { swap: true }];
        for k in 0..clears {
            ops.push(Step::Clear(k as u8));
        }
        Family { fulls, tail, ops }
    }
    fn per_full(&self, full: &[C]) -> u64 {
        // omitted = none: positions 0..=len ; omitted = one call: positions 0..=len-1
        let l = full.len() as u64;
        (self.ops.len() as u64) * ((l + 1) + l * l)
    }
    pub fn total(&self) -> u64 {
        self.fulls.iter().map(|f| self.per_full(f)).sum()
    }
    pub fn nth(&self, mut i: u64) -> Vec<Step<C>> {
        for full in &self.fulls {
            let n = self.per_full(full);
            if i >= n {
                i -= n;
                continue;
            }
            let l = full.len() as u64;
            let op = &self.ops[(i % self.ops.len() as u64) as usize];
            let mut j = i / self.ops.len() as u64;
            let base: Vec<C> = if j <= l {
                full.to_vec()
            } else {
                j -= l + 1;
                let omit = (j / l) as usize;
                j %= l;
                full.iter().enumerate().filter(|(k, _)| *k != omit).map(|(_, c)| c.clone()).collect()
            };
            let pos = j as usize;
            let mut h: Vec<Step<C>> = base[..pos].iter().cloned().map(Step::Call).collect();
            h.push(op.clone());
            h.extend(base[pos..].iter().cloned().map(Step::Call));
            h.extend(self.tail.iter().cloned().map(Step::Call));
            return h;
        }
        vec![]
    }
}

// --------------------------------------------------------------------------------------- driver

struct Plan {
    quick: u64,
    thorough: u64,
}

fn run_machine<M: Machine>(ctx: &mut Ctx, calls: &(dyn Fn() -> BoxedStrategy<M::Call> + Sync), family: Family<M::Call>, max_len: usize, w: u32, plan: Plan)
where
    M::Call: Send,
{
    let fam = family;
    ctx.run_indexed(&format!("{}-positions", M::NAME), fam.total(), &|i| fam.nth(i), &|h: &Vec<Step<M::Call>>, obs: &mut Obs| check_history::<M>(h, obs));
    let n = ctx.tier.pick(plan.quick, plan.thorough);
    ctx.run_proptest(&format!("{}-random", M::NAME), n, &|| history(calls(), M::CLEARS.len(), max_len, w), &|h: &Vec<Step<M::Call>>, obs: &mut Obs| check_history::<M>(h, obs));
}

fn coverage_of<M: Machine>(labels: &BTreeMap<String, u64>, out: &mut BTreeMap<String, J>, missing: &mut Vec<String>) {
    let base = M::new();
    let dbg = format!("{:?}", base.stmt());
    let mut per = serde_json::Map::new();
    for (f, _) in M::fields(&dbg).unwrap_or_default() {
        let n = labels.get(&format!("nd/{}/{f}", M::NAME)).copied().unwrap_or(0);
        if M::UNREACHABLE.contains(&f.as_str()) {
            per.insert(f, json!({"cases_non_default": n, "reachable": false}));
        } else {
            if n == 0 {
                missing.push(format!("{}.{f}", M::NAME));
            }
            per.insert(f, json!(n));
        }
    }
    out.insert(M::NAME.to_string(), J::Object(per));
}

pub fn run(ctx: &mut Ctx) {
    ctx.rule = "cases = builder call histories (every public setter of the statement type, arguments generated) with take / clone / to_owned / \
clear_selects / from_clear / reset_limit / reset_offset / clear_order_by inserted anywhere, for SelectStatement, WindowStatement, ColumnDef, \
Table{Create,Alter,Drop,Rename,Truncate}Statement, IndexCreateStatement, ForeignKeyCreateStatement, TableForeignKey, TableIndex. \
'<type>-positions' parts are bounded-exhaustive: every 'one call per field' history, complete or with exactly one call left out, with each value \
operation at each position. Non-trivial = at some take/clone/clear point at least min(8, number of fields of the type that public calls can set) \
fields differ from a newly constructed statement (field-wise comparison of Debug text); distinct by history. coverage.per_field_coverage counts, \
for every field of every type, the cases in which it was non-default at such a point."
        .into();
    ctx.assumptions.push("the reference model of a statement is the replay, on a fresh builder, of the setter calls that logically make it up (the same history without the calls that were taken away or cleared); independently built statements are compared by Debug text and by to_string/build on the three backends, `==` only between values sharing Rc lineage".into());
    ctx.assumptions.push("'query statements' (left-over of take() equals a new statement) = SelectStatement and WindowStatement; for schema statements nothing is required of the left-over".into());
    ctx.assumptions.push("a rendering that panics is compared by its panic message".into());
    ctx.domain_restrictions.push("the doc-hidden and_or_where / add_order_by entry points are not called; identifiers are plain names; TableSample percentages are finite".into());
    ctx.domain_restrictions.push("TableCreateStatement.partitions cannot be set through the public API (TablePartition is an empty enum)".into());

    select::run(ctx);
    ddl::run(ctx);

    // per-field coverage over all parts
    let mut labels: BTreeMap<String, u64> = BTreeMap::new();
    for p in &ctx.parts {
        for (k, v) in &p.stats.labels {
            if k.starts_with("nd/") {
                *labels.entry(k.clone()).or_default() += v;
            }
        }
    }
    let mut per: BTreeMap<String, J> = BTreeMap::new();
    let mut missing = vec![];
    select::coverage(&labels, &mut per, &mut missing);
    ddl::coverage(&labels, &mut per, &mut missing);
    ctx.extra.insert("per_field_coverage".into(), json!(per));
    ctx.extra.insert("fields_never_non_default".into(), json!(missing));
    if !missing.is_empty() {
        ctx.note_inconclusive(format!("generator health: fields never non-default at a take/clone/clear point: {missing:?}"));
    }
}

pub fn replay(part: &str, case: &J, obs: &mut Obs) -> R {
    let ty = part.split('-').next().unwrap_or("");
    if ty == select::SelectM::NAME {
        return check_history::<select::SelectM>(&from_case(case)?, obs);
    }
    ddl::replay(ty, case, obs)
}
