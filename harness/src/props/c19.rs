//! C19 — derived identifiers spell the documented names.
//!
//! The property quantifies over *programs*. The check generates Rust source containing many type
//! definitions that use `#[derive(Iden)]`, `#[derive(IdenStatic)]` and `#[enum_def]`, compiles it against
//! the working tree of the repository (`SQV_REPO`, default `/repo`), runs it and compares every printed
//! name with an expectation computed here, by an implementation that shares no code with the derive:
//!
//! * `split_words` / `snake` / `pascal` — heck's *documented* word-boundary rules, re-implemented
//!   (cross-checked against the `heck` crate; a name on which the two disagree is discarded);
//! * attribute semantics from the crate docs and `sea-query-derive/tests/pass*`;
//! * `quote_own` — identifier quoting: the closing quote character is doubled.
//!
//! Build mechanics: one `cargo build` of a tiny crate with a path dependency on the repository gives
//! `libsea_query-*.rlib` (and the proc-macro) in `$SQV_ROOT/.work/gen/c19/target`; every generated program
//! is then compiled with `rustc --extern sea_query=<that rlib>`, which is what cargo would run, but
//! without cargo's target-dir lock, so that batches and isolated single-type programs compile in parallel.

use crate::runner::*;
use proptest::prelude::*;
use proptest::strategy::{Union, ValueTree};
use proptest::test_runner::{Config, RngSeed, TestRunner};
use serde::{Deserialize, Serialize};
use serde_json::{json, Value as J};
use std::collections::{BTreeMap, BTreeSet};
use std::path::{Path, PathBuf};
use std::process::{Command, Stdio};
use std::sync::atomic::{AtomicUsize, Ordering};
use std::sync::Mutex;
use std::time::{Duration, Instant};

// ------------------------------------------------------------------------------------------------
// Specs
// ------------------------------------------------------------------------------------------------

#[derive(Serialize, Deserialize, Clone, Copy, Debug, PartialEq, Eq, Hash, PartialOrd, Ord)]
pub enum Kind {
    /// `#[derive(Iden)] enum`
    IdenEnum,
    /// `#[derive(Clone, Copy, IdenStatic)] enum`
    StaticEnum,
    /// `#[derive(Iden)] struct X;`
    IdenUnit,
    /// `#[derive(Clone, Copy, IdenStatic)] struct X;`
    StaticUnit,
    /// `#[enum_def(..)] struct X { .. }`
    EnumDef,
}

impl Kind {
    fn tag(self) -> &'static str {
        match self {
            Kind::IdenEnum => "iden-enum",
            Kind::StaticEnum => "static-enum",
            Kind::IdenUnit => "iden-unit-struct",
            Kind::StaticUnit => "static-unit-struct",
            Kind::EnumDef => "enum_def",
        }
    }
    fn is_static(self) -> bool {
        matches!(self, Kind::StaticEnum | Kind::StaticUnit | Kind::EnumDef)
    }
    fn is_unit(self) -> bool {
        matches!(self, Kind::IdenUnit | Kind::StaticUnit)
    }
}

/// `#[iden = ".."]` (list == false) or `#[iden(rename = "..")]` (list == true)
#[derive(Serialize, Deserialize, Clone, Debug, PartialEq, Eq, Hash)]
pub struct Ren {
    pub text: String,
    pub list: bool,
}

#[derive(Serialize, Deserialize, Clone, Debug, PartialEq, Eq, Hash)]
pub enum VAttr {
    None,
    /// `#[iden = ".."]` / `#[iden(rename = "..")]`
    Rename(Ren),
    /// `#[method = "m"]` / `#[iden(method = "m")]`; `text` is what the method returns
    Method(Ren),
    /// `#[iden(flatten)]` on `V(Inner)` (field == None) or `V { field: Inner }`
    Flatten { field: Option<String>, inner: Box<TypeSpec> },
}

#[derive(Serialize, Deserialize, Clone, Debug, PartialEq, Eq, Hash)]
pub enum Fields {
    Unit,
    Tuple(u8),
    Named(u8),
}

#[derive(Serialize, Deserialize, Clone, Debug, PartialEq, Eq, Hash)]
pub struct VariantSpec {
    pub name: String,
    pub fields: Fields,
    pub attr: VAttr,
    /// unrelated attributes around the iden attribute (0 none, 1 doc comment before, 2 `#[allow]` before,
    /// 3 `#[allow]` after, 4 `#[doc]` before and `#[allow]` after)
    pub deco: u8,
}

#[derive(Serialize, Deserialize, Clone, Debug, PartialEq, Eq, Hash)]
pub struct TypeSpec {
    pub kind: Kind,
    pub name: String,
    /// container attribute of enums and unit structs
    pub container: Option<Ren>,
    pub deco: u8,
    /// enums
    pub variants: Vec<VariantSpec>,
    /// enum_def: field names, and the macro arguments
    pub fields: Vec<String>,
    pub prefix: Option<String>,
    pub suffix: Option<String>,
    pub table_name: Option<String>,
}

// ------------------------------------------------------------------------------------------------
// Independent oracle: word splitting per heck's documented rules (ASCII identifiers)
// ------------------------------------------------------------------------------------------------

/// heck's documentation: underscores (and every non-alphanumeric character) are word boundaries and are
/// dropped; a lowercase→uppercase transition is a boundary ("HelloWorld" = Hello|World); a run of uppercase
/// letters is one word except that its last letter starts the next word when lowercase follows
/// ("XMLHttpRequest" = XML|Http|Request); digits are uncased and never create a boundary themselves
/// (`abc123DEF456` = abc123|DEF456, `ABC123DEF456` one word).
pub fn split_words(name: &str) -> Vec<String> {
    let mut words = vec![];
    for seg in name.split(|c: char| !c.is_ascii_alphanumeric()) {
        if seg.is_empty() {
            continue;
        }
        let ch: Vec<char> = seg.chars().collect();
        let mut start = 0usize;
        // case of the last cased character of the word being collected: Some(true) = uppercase
        let mut last: Option<bool> = None;
        for i in 0..ch.len() {
            let c = ch[i];
            if i > start && c.is_ascii_uppercase() {
                let boundary = match last {
                    Some(false) => true,
                    Some(true) => i + 1 < ch.len() && ch[i + 1].is_ascii_lowercase(),
                    None => false,
                };
                if boundary {
                    words.push(ch[start..i].iter().collect());
                    start = i;
                    last = None;
                }
            }
            if c.is_ascii_uppercase() {
                last = Some(true);
            } else if c.is_ascii_lowercase() {
                last = Some(false);
            }
        }
        words.push(ch[start..].iter().collect());
    }
    words
}

pub fn snake(name: &str) -> String {
    split_words(name).iter().map(|w| w.to_ascii_lowercase()).collect::<Vec<_>>().join("_")
}

pub fn pascal(name: &str) -> String {
    split_words(name)
        .iter()
        .map(|w| {
            let mut it = w.chars();
            let first = it.next().map(|c| c.to_ascii_uppercase()).into_iter();
            first.chain(it.map(|c| c.to_ascii_lowercase())).collect::<String>()
        })
        .collect()
}

fn heck_agrees_snake(name: &str) -> bool {
    use heck::ToSnakeCase;
    name.to_snake_case() == snake(name)
}
fn heck_agrees_pascal(name: &str) -> bool {
    use heck::ToPascalCase;
    name.to_pascal_case() == pascal(name)
}

/// (style name, opening quote, closing quote): MySQL quotes identifiers with backticks, Postgres and SQLite
/// with double quotes; the fourth style is the two-character form `Quote::from(('[', ']'))`.
pub const STYLES: [(&str, char, char); 4] = [("mysql", '`', '`'), ("pg", '"', '"'), ("sqlite", '"', '"'), ("bracket", '[', ']')];

pub fn quote_own(name: &str, l: char, r: char) -> String {
    let mut s = String::new();
    s.push(l);
    for c in name.chars() {
        s.push(c);
        if c == r {
            s.push(c);
        }
    }
    s.push(r);
    s
}

/// What `write!(s, <text>)` does with `text` when it is (wrongly) used as a format string without arguments:
/// `{{` and `}}` collapse, any other brace is a compile error.
fn format_string_model(text: &str) -> Result<String, ()> {
    let ch: Vec<char> = text.chars().collect();
    let mut out = String::new();
    let mut i = 0;
    while i < ch.len() {
        match ch[i] {
            '{' | '}' => {
                if i + 1 < ch.len() && ch[i + 1] == ch[i] {
                    out.push(ch[i]);
                    i += 2;
                } else {
                    return Err(());
                }
            }
            c => {
                out.push(c);
                i += 1;
            }
        }
    }
    Ok(out)
}

// ------------------------------------------------------------------------------------------------
// Expected items of a type
// ------------------------------------------------------------------------------------------------

#[derive(Clone, Debug)]
pub enum Expect {
    Name(String),
    /// the docs and the property text give different readings for this item; counted, never reported
    Undecided(String),
    /// own snake/pascal implementation and heck disagree on the source name
    Discard(String),
}

#[derive(Clone, Debug)]
pub struct Item {
    /// human-readable path, e.g. `HTTPServer` or `Creation>Date`
    pub path: String,
    /// Rust expression (relative to the type's module) that constructs the value
    pub ctor: String,
    pub expect: Expect,
    /// which sentence of the property decides the name
    pub rule: &'static str,
    /// does an attribute (or an enum_def argument) take part
    pub has_attr: bool,
    /// is the source name multi-word / acronym / digit / underscore
    pub shaped: bool,
    /// Some(..) when the name comes from the rename of a unit struct and contains a brace:
    /// the prediction of the format-string model (candidate defect F9)
    pub fmt_model: Option<Result<String, ()>>,
    /// kind of the type that finally spells the name (differs from the top type under flatten)
    pub leaf_kind: Kind,
}

fn shaped_name(name: &str) -> bool {
    let sn = snake(name);
    sn != name.to_ascii_lowercase() || name.chars().any(|c| c.is_ascii_digit() || c == '_') || {
        let ups = name.chars().filter(|c| c.is_ascii_uppercase()).count();
        ups >= 2
    }
}

pub fn value_type_name(ty: &TypeSpec) -> String {
    match ty.kind {
        Kind::EnumDef => format!(
            "{}{}{}",
            ty.prefix.clone().unwrap_or_default(),
            ty.name,
            ty.suffix.clone().unwrap_or_else(|| "Iden".to_string())
        ),
        _ => ty.name.clone(),
    }
}

fn named_field(i: usize) -> &'static str {
    ["a", "s", "q"][i % 3]
}

fn table_name_of(ty: &TypeSpec) -> (Expect, bool, Option<Result<String, ()>>) {
    match &ty.container {
        Some(r) => {
            let fm = if ty.kind.is_unit() && r.text.contains(|c| c == '{' || c == '}') {
                Some(format_string_model(&r.text))
            } else {
                None
            };
            (Expect::Name(r.text.clone()), true, fm)
        }
        None => {
            if heck_agrees_snake(&ty.name) {
                (Expect::Name(snake(&ty.name)), false, None)
            } else {
                (Expect::Discard("heck-disagrees/snake".into()), false, None)
            }
        }
    }
}

pub fn items(ty: &TypeSpec) -> Vec<Item> {
    let tn = value_type_name(ty);
    let mut out = vec![];
    match ty.kind {
        Kind::IdenUnit | Kind::StaticUnit => {
            let (expect, has_attr, fmt_model) = table_name_of(ty);
            out.push(Item {
                path: ty.name.clone(),
                ctor: tn.clone(),
                expect,
                rule: if has_attr { "unit-struct-rename" } else { "unit-struct-snake" },
                has_attr,
                shaped: shaped_name(&ty.name),
                fmt_model,
                leaf_kind: ty.kind,
            });
        }
        Kind::EnumDef => {
            let (expect, has_attr) = match &ty.table_name {
                Some(t) => (Expect::Name(t.clone()), true),
                None => {
                    if heck_agrees_snake(&ty.name) {
                        (Expect::Name(snake(&ty.name)), false)
                    } else {
                        (Expect::Discard("heck-disagrees/snake".into()), false)
                    }
                }
            };
            out.push(Item {
                path: "Table".into(),
                ctor: format!("{tn}::Table"),
                expect,
                rule: if has_attr { "enum_def-table_name" } else { "enum_def-table-snake" },
                has_attr: has_attr || ty.prefix.is_some() || ty.suffix.is_some(),
                shaped: shaped_name(&ty.name),
                fmt_model: None,
                leaf_kind: ty.kind,
            });
            for f in &ty.fields {
                let variant = pascal(f);
                // docs: field `foo` gives variant `Foo` whose identifier is "foo" (the field as written);
                // property text: the identifier is the snake_case of the variant's name. Decided only where
                // both readings give the same string.
                let expect = if !heck_agrees_pascal(f) || !heck_agrees_snake(&variant) {
                    Expect::Discard("heck-disagrees/pascal".into())
                } else if snake(&variant) == *f {
                    Expect::Name(f.clone())
                } else {
                    Expect::Undecided("enum_def-field-not-a-snake-case-fixed-point".into())
                };
                out.push(Item {
                    path: variant.clone(),
                    ctor: format!("{tn}::{variant}"),
                    expect,
                    rule: "enum_def-field",
                    has_attr: ty.prefix.is_some() || ty.suffix.is_some(),
                    shaped: shaped_name(f),
                    fmt_model: None,
                    leaf_kind: ty.kind,
                });
            }
        }
        Kind::IdenEnum | Kind::StaticEnum => {
            for (vi, v) in ty.variants.iter().enumerate() {
                let plain_ctor = match &v.fields {
                    Fields::Unit => format!("{tn}::{}", v.name),
                    Fields::Tuple(n) => format!(
                        "{tn}::{}({})",
                        v.name,
                        (0..*n).map(|_| "Default::default()").collect::<Vec<_>>().join(", ")
                    ),
                    Fields::Named(n) => format!(
                        "{tn}::{} {{ {} }}",
                        v.name,
                        (0..*n as usize).map(|i| format!("{}: Default::default()", named_field(i))).collect::<Vec<_>>().join(", ")
                    ),
                };
                match &v.attr {
                    VAttr::Flatten { field, inner } => {
                        for (j, it) in items(inner).into_iter().enumerate() {
                            let val = format!("__n{vi}::__v{j}()");
                            let ctor = match field {
                                None => format!("{tn}::{}({val})", v.name),
                                Some(f) => format!("{tn}::{} {{ {f}: {val} }}", v.name),
                            };
                            out.push(Item {
                                path: format!("{}>{}", v.name, it.path),
                                ctor,
                                expect: it.expect,
                                rule: "flatten",
                                has_attr: true,
                                shaped: it.shaped || shaped_name(&v.name),
                                fmt_model: it.fmt_model,
                                leaf_kind: it.leaf_kind,
                            });
                        }
                    }
                    VAttr::Rename(r) => out.push(Item {
                        path: v.name.clone(),
                        ctor: plain_ctor,
                        expect: Expect::Name(r.text.clone()),
                        rule: if r.list { "rename-list" } else { "rename-eq" },
                        has_attr: true,
                        shaped: shaped_name(&v.name),
                        fmt_model: None,
                        leaf_kind: ty.kind,
                    }),
                    VAttr::Method(r) => out.push(Item {
                        path: v.name.clone(),
                        ctor: plain_ctor,
                        expect: Expect::Name(r.text.clone()),
                        rule: if r.list { "method-list" } else { "method-eq" },
                        has_attr: true,
                        shaped: shaped_name(&v.name),
                        fmt_model: None,
                        leaf_kind: ty.kind,
                    }),
                    VAttr::None => {
                        if v.name == "Table" {
                            let (expect, has_attr, _) = table_name_of(ty);
                            out.push(Item {
                                path: v.name.clone(),
                                ctor: plain_ctor,
                                expect,
                                rule: if has_attr { "table-container-rename" } else { "table-snake-of-type" },
                                has_attr,
                                shaped: shaped_name(&ty.name),
                                fmt_model: None,
                                leaf_kind: ty.kind,
                            });
                        } else {
                            let expect = if heck_agrees_snake(&v.name) {
                                Expect::Name(snake(&v.name))
                            } else {
                                Expect::Discard("heck-disagrees/snake".into())
                            };
                            out.push(Item {
                                path: v.name.clone(),
                                ctor: plain_ctor,
                                expect,
                                rule: "variant-snake",
                                has_attr: false,
                                shaped: shaped_name(&v.name),
                                fmt_model: None,
                                leaf_kind: ty.kind,
                            });
                        }
                    }
                }
            }
        }
    }
    out
}

fn has_braces(ty: &TypeSpec) -> bool {
    let b = |s: &str| s.contains(|c| c == '{' || c == '}');
    ty.container.as_ref().map_or(false, |r| b(&r.text))
        || ty.variants.iter().any(|v| match &v.attr {
            VAttr::Rename(r) | VAttr::Method(r) => b(&r.text),
            VAttr::Flatten { inner, .. } => has_braces(inner),
            VAttr::None => false,
        })
}

/// A named flatten field called `s` inside an enum (the derive's generated arm is `Self::V{s} => s.unquoted(s)`).
fn has_flatten_field_s(ty: &TypeSpec) -> bool {
    ty.variants.iter().any(|v| match &v.attr {
        VAttr::Flatten { field, inner } => field.as_deref() == Some("s") || has_flatten_field_s(inner),
        _ => false,
    })
}

fn rename_flatten_field_s(ty: &TypeSpec) -> TypeSpec {
    let mut t = ty.clone();
    for v in &mut t.variants {
        if let VAttr::Flatten { field, inner } = &mut v.attr {
            if field.as_deref() == Some("s") {
                *field = Some("s_".to_string());
            }
            **inner = rename_flatten_field_s(inner);
        }
    }
    t
}

// ------------------------------------------------------------------------------------------------
// Rendering of programs
// ------------------------------------------------------------------------------------------------

fn lit(s: &str) -> String {
    // Debug formatting of str is a valid Rust string literal
    format!("{s:?}")
}

fn deco_before(d: u8, ind: &str) -> String {
    match d {
        1 => format!("{ind}/// documented item\n"),
        2 => format!("{ind}#[allow(dead_code)]\n"),
        4 => format!("{ind}#[doc = \"x\"]\n"),
        _ => String::new(),
    }
}
fn deco_after(d: u8, ind: &str) -> String {
    match d {
        3 | 4 => format!("{ind}#[allow(dead_code)]\n"),
        _ => String::new(),
    }
}

fn ren_attr(r: &Ren) -> String {
    if r.list {
        format!("#[iden(rename = {})]", lit(&r.text))
    } else {
        format!("#[iden = {}]", lit(&r.text))
    }
}

fn method_name(vi: usize) -> String {
    format!("{}{}", ["custom_to_string", "label_of", "m", "ident_text"][vi % 4], vi)
}

fn field_type(kind: Kind, i: usize) -> &'static str {
    if kind.is_static() {
        ["i32", "bool", "u8"][i % 3]
    } else {
        ["String", "i32", "Option<u8>"][i % 3]
    }
}

/// The definition of one type (without the modules of its flattened inner types).
pub fn render_def(ty: &TypeSpec, ind: &str) -> String {
    let mut s = String::new();
    match ty.kind {
        Kind::EnumDef => {
            let mut args = vec![];
            if let Some(p) = &ty.prefix {
                args.push(format!("prefix = {}", lit(p)));
            }
            if let Some(p) = &ty.suffix {
                args.push(format!("suffix = {}", lit(p)));
            }
            if let Some(p) = &ty.table_name {
                args.push(format!("table_name = {}", lit(p)));
            }
            if args.is_empty() {
                s += &format!("{ind}#[enum_def]\n");
            } else {
                s += &format!("{ind}#[enum_def({})]\n", args.join(", "));
            }
            s += &format!("{ind}pub struct {} {{\n", ty.name);
            for (i, f) in ty.fields.iter().enumerate() {
                s += &format!("{ind}    pub {f}: {},\n", ["i32", "String", "Option<u8>", "Vec<u8>"][i % 4]);
            }
            s += &format!("{ind}}}\n");
        }
        Kind::IdenUnit | Kind::StaticUnit => {
            s += &deco_before(ty.deco, ind);
            s += &format!(
                "{ind}#[derive({})]\n",
                if ty.kind == Kind::IdenUnit { "Iden" } else { "Clone, Copy, IdenStatic" }
            );
            if let Some(r) = &ty.container {
                s += &format!("{ind}{}\n", ren_attr(r));
            }
            s += &deco_after(ty.deco, ind);
            s += &format!("{ind}pub struct {};\n", ty.name);
        }
        Kind::IdenEnum | Kind::StaticEnum => {
            s += &deco_before(ty.deco, ind);
            s += &format!(
                "{ind}#[derive({})]\n",
                if ty.kind == Kind::IdenEnum { "Iden" } else { "Clone, Copy, IdenStatic" }
            );
            if let Some(r) = &ty.container {
                s += &format!("{ind}{}\n", ren_attr(r));
            }
            s += &deco_after(ty.deco, ind);
            s += &format!("{ind}pub enum {} {{\n", ty.name);
            let vind = format!("{ind}    ");
            let mut methods = vec![];
            for (vi, v) in ty.variants.iter().enumerate() {
                s += &deco_before(v.deco, &vind);
                match &v.attr {
                    VAttr::None => {}
                    VAttr::Rename(r) => s += &format!("{vind}{}\n", ren_attr(r)),
                    VAttr::Method(r) => {
                        let m = method_name(vi);
                        if r.list {
                            s += &format!("{vind}#[iden(method = {})]\n", lit(&m));
                        } else {
                            s += &format!("{vind}#[method = {}]\n", lit(&m));
                        }
                        methods.push((vi, m, r.text.clone()));
                    }
                    VAttr::Flatten { .. } => s += &format!("{vind}#[iden(flatten)]\n"),
                }
                s += &deco_after(v.deco, &vind);
                match &v.attr {
                    VAttr::Flatten { field, inner } => {
                        let it = format!("__n{vi}::{}", value_type_name(inner));
                        match field {
                            None => s += &format!("{vind}{}({it}),\n", v.name),
                            Some(f) => s += &format!("{vind}{} {{ {f}: {it} }},\n", v.name),
                        }
                    }
                    _ => match &v.fields {
                        Fields::Unit => s += &format!("{vind}{},\n", v.name),
                        Fields::Tuple(n) => {
                            let tys: Vec<&str> = (0..*n as usize).map(|i| field_type(ty.kind, i + vi)).collect();
                            s += &format!("{vind}{}({}),\n", v.name, tys.join(", "));
                        }
                        Fields::Named(n) => {
                            let fs: Vec<String> =
                                (0..*n as usize).map(|i| format!("{}: {}", named_field(i), field_type(ty.kind, i + vi))).collect();
                            s += &format!("{vind}{} {{ {} }},\n", v.name, fs.join(", "));
                        }
                    },
                }
            }
            s += &format!("{ind}}}\n");
            if !methods.is_empty() {
                s += &format!("{ind}impl {} {{\n", ty.name);
                for (vi, m, text) in methods {
                    if ty.kind == Kind::StaticEnum {
                        s += &format!("{vind}pub fn {m}(&self) -> &'static str {{ {} }}\n", lit(&text));
                    } else if vi % 2 == 0 {
                        s += &format!("{vind}pub fn {m}(&self) -> &str {{ {} }}\n", lit(&text));
                    } else {
                        s += &format!("{vind}pub fn {m}(&self) -> String {{ {}.to_string() }}\n", lit(&text));
                    }
                }
                s += &format!("{ind}}}\n");
            }
        }
    }
    s
}

/// Full definition including the modules of flattened inner types (what a human needs to reproduce).
pub fn render_tree(ty: &TypeSpec, ind: &str) -> String {
    let mut s = String::new();
    for (vi, v) in ty.variants.iter().enumerate() {
        if let VAttr::Flatten { inner, .. } = &v.attr {
            s += &format!("{ind}pub mod __n{vi} {{\n{ind}    use sea_query::{{enum_def, Iden, IdenStatic}};\n");
            s += &render_tree(inner, &format!("{ind}    "));
            s += &format!("{ind}}}\n");
        }
    }
    s += &render_def(ty, ind);
    let tn = value_type_name(ty);
    for (j, it) in items(ty).iter().enumerate() {
        s += &format!("{ind}pub fn __v{j}() -> {tn} {{ {} }}\n", it.ctor);
    }
    s
}

fn expected_literal(it: &Item, ty: &TypeSpec) -> String {
    match &it.expect {
        Expect::Name(n) => n.clone(),
        // only used for the Alias side of the fast-path comparison, which is skipped for these items
        _ => ty.name.clone(),
    }
}

const PRELUDE: &str = r#"#![allow(warnings)]
use sea_query::{Alias, Iden, IdenStatic, MysqlQueryBuilder, PostgresQueryBuilder, Quote, QuotedBuilder, SqliteQueryBuilder};

fn esc(s: &str) -> String {
    let mut o = String::from("\"");
    for c in s.chars() {
        match c {
            '"' => o.push_str("\\\""),
            '\\' => o.push_str("\\\\"),
            c if (c as u32) < 0x20 => o.push_str(&format!("\\u{:04x}", c as u32)),
            c => o.push(c),
        }
    }
    o.push('"');
    o
}

fn arr(v: &[String]) -> String {
    format!("[{}]", v.iter().map(|s| esc(s)).collect::<Vec<_>>().join(","))
}

pub fn emit<I: Iden>(t: usize, i: usize, x: &I, as_str: Option<&str>, name: &str) {
    let quotes: [Quote; 4] = [
        MysqlQueryBuilder.quote(),
        PostgresQueryBuilder.quote(),
        SqliteQueryBuilder.quote(),
        Quote::from(('[', ']')),
    ];
    let s = Iden::to_string(x);
    let mut p = vec![];
    let mut a = vec![];
    for q in quotes {
        let mut o = String::new();
        Iden::prepare(x, &mut o, q);
        p.push(o);
        let mut o = String::new();
        Iden::prepare(&Alias::new(name), &mut o, q);
        a.push(o);
    }
    println!(
        "C19>{{\"t\":{},\"i\":{},\"s\":{},\"p\":{},\"a\":{},\"as\":{}}}",
        t,
        i,
        esc(&s),
        arr(&p),
        arr(&a),
        match as_str {
            Some(v) => esc(v),
            None => "null".to_string(),
        }
    );
}

pub fn emit_static<I: IdenStatic>(t: usize, i: usize, x: &I, name: &str) {
    emit(t, i, x, Some(IdenStatic::as_str(x)), name)
}
"#;

/// A complete program for the given (id, type) pairs.
pub fn render_program(types: &[(usize, &TypeSpec)]) -> String {
    render_program_mapped(types).0
}

/// The program and, per type id, the (first, last) 1-based source line of its module.
pub fn render_program_mapped(types: &[(usize, &TypeSpec)]) -> (String, Vec<(usize, usize, usize)>) {
    let mut s = String::from(PRELUDE);
    let mut map = vec![];
    let mut line = 1 + s.matches('\n').count();
    for (id, ty) in types {
        let before = s.len();
        s += &format!("\npub mod t{id} {{\n    use sea_query::{{enum_def, Iden, IdenStatic}};\n");
        s += &render_tree(ty, "    ");
        s += "    pub fn __run() {\n";
        for (j, it) in items(ty).iter().enumerate() {
            let name = lit(&expected_literal(it, ty));
            if ty.kind.is_static() {
                s += &format!("        crate::emit_static({id}, {j}, &__v{j}(), {name});\n");
            } else {
                s += &format!("        crate::emit({id}, {j}, &__v{j}(), None, {name});\n");
            }
        }
        s += "    }\n}\n";
        let n = s[before..].matches('\n').count();
        map.push((*id, line, line + n));
        line += n;
    }
    s += "\nfn main() {\n";
    for (id, _) in types {
        s += &format!("    t{id}::__run();\n");
    }
    s += "    println!(\"C19>done\");\n}\n";
    (s, map)
}

/// Source lines of `src/main.rs` that rustc's diagnostics point at.
fn error_lines(stderr: &str) -> BTreeSet<usize> {
    let mut out = BTreeSet::new();
    for part in stderr.split("src/main.rs:").skip(1) {
        let digits: String = part.chars().take_while(|c| c.is_ascii_digit()).collect();
        if let Ok(n) = digits.parse::<usize>() {
            out.insert(n);
        }
    }
    out
}

// ------------------------------------------------------------------------------------------------
// Building and running generated programs
// ------------------------------------------------------------------------------------------------

#[derive(Clone, Debug)]
pub struct Tool {
    pub repo: String,
    pub rlib: PathBuf,
    pub deps: PathBuf,
    pub gen_root: PathBuf,
}

fn repo_path() -> String {
    std::env::var("SQV_REPO").unwrap_or_else(|_| "/repo".to_string())
}

enum Proc {
    Done { ok: bool, stdout: String, stderr: String },
    Timeout,
    Spawn(String),
}

fn run_with_timeout(mut cmd: Command, limit: Duration) -> Proc {
    cmd.stdin(Stdio::null()).stdout(Stdio::piped()).stderr(Stdio::piped());
    let mut child = match cmd.spawn() {
        Ok(c) => c,
        Err(e) => return Proc::Spawn(e.to_string()),
    };
    let mut so = child.stdout.take().unwrap();
    let mut se = child.stderr.take().unwrap();
    let t1 = std::thread::spawn(move || {
        let mut b = Vec::new();
        let _ = std::io::Read::read_to_end(&mut so, &mut b);
        String::from_utf8_lossy(&b).to_string()
    });
    let t2 = std::thread::spawn(move || {
        let mut b = Vec::new();
        let _ = std::io::Read::read_to_end(&mut se, &mut b);
        String::from_utf8_lossy(&b).to_string()
    });
    let start = Instant::now();
    let status = loop {
        match child.try_wait() {
            Ok(Some(st)) => break Some(st),
            Ok(None) => {
                if start.elapsed() > limit {
                    let _ = child.kill();
                    let _ = child.wait();
                    break None;
                }
                std::thread::sleep(Duration::from_millis(5));
            }
            Err(_) => break None,
        }
    };
    let stdout = t1.join().unwrap_or_default();
    let stderr = t2.join().unwrap_or_default();
    match status {
        Some(st) => Proc::Done { ok: st.success(), stdout, stderr },
        None => Proc::Timeout,
    }
}

fn write_if_changed(p: &Path, content: &str) -> std::io::Result<()> {
    if std::fs::read_to_string(p).ok().as_deref() == Some(content) {
        return Ok(());
    }
    std::fs::write(p, content)
}

fn cargo_toml(name: &str, repo: &str) -> String {
    format!(
        "[package]\nname = \"{name}\"\nversion = \"0.0.0\"\nedition = \"2021\"\npublish = false\n\n[workspace]\n\n[dependencies]\n\
sea-query = {{ path = \"{repo}\", default-features = false, features = [\"derive\", \"attr\", \"backend-mysql\", \"backend-postgres\", \"backend-sqlite\"] }}\n"
    )
}

/// Build sea-query (with its derive crate) from the working tree once; returns where the rlib is.
pub fn ensure_base(root: &Path) -> Result<Tool, String> {
    static CACHE: Mutex<Option<Result<Tool, String>>> = Mutex::new(None);
    let mut g = CACHE.lock().unwrap();
    if let Some(r) = &*g {
        return r.clone();
    }
    let r = build_base(root);
    *g = Some(r.clone());
    r
}

fn build_base(root: &Path) -> Result<Tool, String> {
    let repo = repo_path();
    let gen_root = root.join(".work/gen/c19");
    let base = gen_root.join(format!("base-{:08x}", fingerprint(&repo) as u32));
    std::fs::create_dir_all(base.join("src")).map_err(|e| e.to_string())?;
    std::fs::create_dir_all(base.join(".cargo")).map_err(|e| e.to_string())?;
    write_if_changed(&base.join("Cargo.toml"), &cargo_toml("c19base", &repo)).map_err(|e| e.to_string())?;
    write_if_changed(&base.join(".cargo/config.toml"), "[net]\noffline = true\n").map_err(|e| e.to_string())?;
    write_if_changed(&base.join("src/main.rs"), "fn main() { let _ = sea_query::Alias::new(\"x\"); }\n").map_err(|e| e.to_string())?;
    if !base.join("Cargo.lock").exists() {
        // pinned versions: the repository's lock file (a scratch worktree has none: fall back to /repo's)
        if std::fs::copy(Path::new(&repo).join("Cargo.lock"), base.join("Cargo.lock")).is_err() {
            let _ = std::fs::copy("/repo/Cargo.lock", base.join("Cargo.lock"));
        }
    }
    let target = gen_root.join("target");
    let mut cmd = Command::new("cargo");
    cmd.arg("build").arg("--message-format=json").current_dir(&base).env("CARGO_TARGET_DIR", &target).env("CARGO_NET_OFFLINE", "true");
    match run_with_timeout(cmd, Duration::from_secs(1200)) {
        Proc::Done { ok: true, stdout, .. } => {
            let mut rlib = None;
            for line in stdout.lines() {
                let Ok(j) = serde_json::from_str::<J>(line) else { continue };
                if j["reason"] != "compiler-artifact" {
                    continue;
                }
                for f in j["filenames"].as_array().cloned().unwrap_or_default() {
                    if let Some(f) = f.as_str() {
                        let p = Path::new(f);
                        let n = p.file_name().map(|x| x.to_string_lossy().to_string()).unwrap_or_default();
                        if n.starts_with("libsea_query-") && n.ends_with(".rlib") {
                            rlib = Some(p.to_path_buf());
                        }
                    }
                }
            }
            let rlib = rlib.ok_or("cargo did not report the sea_query rlib")?;
            let deps = rlib.parent().unwrap().to_path_buf();
            Ok(Tool { repo, rlib, deps, gen_root })
        }
        Proc::Done { stderr, .. } => {
            let tail: Vec<&str> = stderr.lines().rev().take(30).collect();
            Err(format!(
                "cargo build of sea-query (derive, attr) from {repo} failed:\n{}",
                tail.into_iter().rev().collect::<Vec<_>>().join("\n")
            ))
        }
        Proc::Timeout => Err("cargo build of sea-query timed out after 1200 s".into()),
        Proc::Spawn(e) => Err(format!("cannot start cargo: {e}")),
    }
}

#[derive(Serialize, Deserialize, Clone, Debug, PartialEq, Eq, Default)]
pub struct Line {
    pub s: String,
    pub p: Vec<String>,
    pub a: Vec<String>,
    #[serde(rename = "as")]
    pub as_str: Option<String>,
}

pub enum Outcome {
    Lines(BTreeMap<(usize, usize), Line>),
    CompileFail(String),
    RunFail(String),
    Inconclusive(String),
}

fn clip(s: &str, n: usize) -> String {
    if s.chars().count() <= n {
        s.to_string()
    } else {
        let t: String = s.chars().take(n).collect();
        format!("{t}…")
    }
}

/// Write `src` as a crate under `dir` (so that a human can `cargo run` it) and compile + run it.
pub fn build_and_run(tool: &Tool, dir: &Path, src: &str) -> Outcome {
    if let Err(e) = std::fs::create_dir_all(dir.join("src")).and_then(|_| std::fs::create_dir_all(dir.join(".cargo"))) {
        return Outcome::Inconclusive(format!("cannot create {}: {e}", dir.display()));
    }
    let _ = std::fs::write(dir.join("Cargo.toml"), cargo_toml("c19prog", &tool.repo));
    let _ = std::fs::write(dir.join(".cargo/config.toml"), "[net]\noffline = true\n");
    let main = dir.join("src/main.rs");
    if let Err(e) = std::fs::write(&main, src) {
        return Outcome::Inconclusive(format!("cannot write {}: {e}", main.display()));
    }
    let bin = dir.join("prog");
    let _ = std::fs::remove_file(&bin);
    let mut cmd = Command::new("rustc");
    cmd.current_dir(dir)
        .args(["--edition", "2021", "--crate-name", "c19prog", "--crate-type", "bin"])
        .args(["-C", "opt-level=0", "-C", "debuginfo=0", "-A", "warnings"])
        .arg("-L")
        .arg(format!("dependency={}", tool.deps.display()))
        .arg("--extern")
        .arg(format!("sea_query={}", tool.rlib.display()))
        .arg(&main)
        .arg("-o")
        .arg(&bin);
    match run_with_timeout(cmd, Duration::from_secs(600)) {
        Proc::Done { ok: true, .. } => {}
        Proc::Done { stderr, .. } => return Outcome::CompileFail(stderr.replace(&dir.display().to_string(), "<prog>")),
        Proc::Timeout => return Outcome::Inconclusive(format!("rustc timed out (600 s) on {}", main.display())),
        Proc::Spawn(e) => return Outcome::Inconclusive(format!("cannot start rustc: {e}")),
    }
    let r = run_with_timeout(Command::new(&bin), Duration::from_secs(120));
    let _ = std::fs::remove_file(&bin);
    match r {
        Proc::Done { ok, stdout, stderr } => {
            let mut map = BTreeMap::new();
            let mut done = false;
            for l in stdout.lines() {
                let Some(rest) = l.strip_prefix("C19>") else { continue };
                if rest == "done" {
                    done = true;
                    continue;
                }
                let Ok(j) = serde_json::from_str::<J>(rest) else {
                    return Outcome::Inconclusive(format!("unparsable output line {rest:?}"));
                };
                let (Some(t), Some(i)) = (j["t"].as_u64(), j["i"].as_u64()) else {
                    return Outcome::Inconclusive(format!("output line without indices {rest:?}"));
                };
                let Ok(line) = serde_json::from_value::<Line>(j) else {
                    return Outcome::Inconclusive(format!("output line of unexpected shape {rest:?}"));
                };
                map.insert((t as usize, i as usize), line);
            }
            if !ok || !done {
                return Outcome::RunFail(clip(&stderr.replace(&dir.display().to_string(), "<prog>"), 1500));
            }
            Outcome::Lines(map)
        }
        Proc::Timeout => Outcome::Inconclusive(format!("generated program {} did not finish within 120 s", bin.display())),
        Proc::Spawn(e) => Outcome::Inconclusive(format!("cannot start generated program: {e}")),
    }
}

// ------------------------------------------------------------------------------------------------
// Cases and the comparison
// ------------------------------------------------------------------------------------------------

#[derive(Serialize, Deserialize, Clone, Debug, Default)]
pub enum Observed {
    Line(Line),
    /// the single-type program does not compile; `without_s`: does it compile once a flatten field `s` is renamed
    CompileFail { stderr: String, without_s: Option<bool> },
    RunFail(String),
    #[default]
    Missing,
}

#[derive(Serialize, Deserialize, Clone, Debug)]
pub struct Case {
    pub ty: TypeSpec,
    /// index into `items(ty)`; None = the case is about the whole type (compile / run failure)
    pub item: Option<usize>,
    /// what the program printed when the case was found (a replay observes again)
    #[serde(default)]
    pub observed: Observed,
}

pub const SIG_F9: &str = "unit-struct/rename-used-as-format-string";
pub const SIG_FIELD_S: &str = "flatten/named-field-s-shadows-writer";

fn leaf_tag(it: &Item) -> String {
    format!("{}/{}", it.leaf_kind.tag(), it.rule)
}

/// Pure comparison of one observation with the expectation.
pub fn check(c: &Case, obs: &mut Obs) -> R {
    let its = items(&c.ty);
    let src = || render_tree(&c.ty, "");
    match (&c.item, &c.observed) {
        (None, Observed::CompileFail { stderr, without_s }) => {
            obs.label("whole-type/compile-fail");
            if its.iter().any(|it| matches!(it.fmt_model, Some(Err(())))) {
                return fail(
                    SIG_F9,
                    format!(
                        "the program does not compile: the rename of a unit struct is pasted into `write!(s, <rename>)` as a format string\n{}\nrustc: {}",
                        src(),
                        clip(stderr, 600)
                    ),
                );
            }
            if has_flatten_field_s(&c.ty) && *without_s == Some(true) {
                return fail(
                    SIG_FIELD_S,
                    format!(
                        "the program does not compile, and compiles once the flattened field `s` is renamed: the generated arm \
`Self::V {{ s }} => s.unquoted(s)` shadows the writer argument\n{}\nrustc: {}",
                        src(),
                        clip(stderr, 600)
                    ),
                );
            }
            fail(
                format!("compile-fail/{}", c.ty.kind.tag()),
                format!("well-formed program does not compile\n{}\nrustc: {}", src(), clip(stderr, 1200)),
            )
        }
        (None, Observed::RunFail(e)) => {
            obs.label("whole-type/run-fail");
            fail(format!("run-fail/{}", c.ty.kind.tag()), format!("generated program failed at run time\n{}\nstderr: {}", src(), clip(e, 800)))
        }
        (None, _) => discard("whole-type case without failure"),
        (Some(i), o) => {
            let Some(it) = its.get(*i) else { return discard("item index out of range") };
            let line = match o {
                Observed::Line(l) => l,
                Observed::Missing => {
                    return fail(format!("missing-output/{}", c.ty.kind.tag()), format!("no output for item {}\n{}", it.path, src()))
                }
                Observed::CompileFail { .. } | Observed::RunFail(_) => return discard("item of a type that did not build"),
            };
            obs.label(format!("kind/{}", c.ty.kind.tag()));
            obs.label(format!("rule/{}", it.rule));
            let expected = match &it.expect {
                Expect::Name(n) => n.clone(),
                Expect::Undecided(w) => {
                    obs.label("undecided-item");
                    return undecided(w.clone());
                }
                Expect::Discard(w) => return discard(w.clone()),
            };
            let ctx_txt = |what: &str, exp: &str, got: &str| {
                format!("{what}: item `{}` ({}) expected {:?}, observed {:?}\n{}", it.path, it.rule, exp, got, src())
            };
            // 1. the name
            if line.s != expected {
                if let Some(Ok(m)) = &it.fmt_model {
                    if line.s == *m {
                        return fail(SIG_F9, ctx_txt("to_string() (rename was used as a format string)", &expected, &line.s));
                    }
                }
                return fail(format!("name/{}", leaf_tag(it)), ctx_txt("to_string()", &expected, &line.s));
            }
            // 2. as_str for IdenStatic
            if c.ty.kind.is_static() {
                match &line.as_str {
                    Some(a) if *a == expected => {}
                    other => {
                        return fail(
                            format!("as_str/{}", leaf_tag(it)),
                            ctx_txt("IdenStatic::as_str()", &expected, other.as_deref().unwrap_or("<none>")),
                        )
                    }
                }
            }
            // 3. the last sentence: the derive's prepare() equals the general quoting of the same name
            if line.p.len() != STYLES.len() || line.a.len() != STYLES.len() {
                return fail(format!("missing-output/{}", c.ty.kind.tag()), "prepare lines missing");
            }
            for (k, (style, l, r)) in STYLES.iter().enumerate() {
                if line.p[k] != line.a[k] {
                    return fail(
                        format!("fastpath-vs-general/{}", it.leaf_kind.tag()),
                        ctx_txt(&format!("prepare() under {style} vs Alias::new(name).prepare()"), &line.a[k], &line.p[k]),
                    );
                }
                let own = quote_own(&expected, *l, *r);
                if line.p[k] != own {
                    return fail(
                        format!("prepare/{}", it.leaf_kind.tag()),
                        ctx_txt(&format!("prepare() under {style} vs quoting computed by the harness"), &own, &line.p[k]),
                    );
                }
            }
            let needs_doubling = expected.contains(|ch| ch == '"' || ch == '`' || ch == ']');
            if needs_doubling {
                obs.label("name-needs-quote-doubling");
            }
            if has_braces(&c.ty) {
                obs.label("type-has-brace-rename");
            }
            if it.has_attr || it.shaped {
                obs.nontrivial(&(c.ty.kind, it.rule, &it.path, &expected, &c.ty.name));
                if it.has_attr {
                    obs.label("item-with-attribute");
                }
                if it.shaped {
                    obs.label("item-with-shaped-name");
                }
                obs.note(format!(
                    "{}item `{}`: expected {:?}, observed to_string {:?}, prepare {:?}, as_str {:?}",
                    render_def(&c.ty, ""),
                    it.path,
                    expected,
                    line.s,
                    line.p,
                    line.as_str
                ));
            }
            Ok(())
        }
    }
}

/// Cases of one type from the output of a program that contained it under id `id`.
fn cases_from_lines(ty: &TypeSpec, id: usize, lines: &BTreeMap<(usize, usize), Line>) -> Vec<Case> {
    (0..items(ty).len())
        .map(|j| Case {
            ty: ty.clone(),
            item: Some(j),
            observed: match lines.get(&(id, j)) {
                Some(l) => Observed::Line(l.clone()),
                None => Observed::Missing,
            },
        })
        .collect()
}

static DIR_SEQ: AtomicUsize = AtomicUsize::new(0);

/// Compile and run one type alone; returns its cases (or one whole-type case), or Err(inconclusive).
pub fn observe_single(tool: &Tool, run_dir: &Path, ty: &TypeSpec) -> Result<Vec<Case>, String> {
    let n = DIR_SEQ.fetch_add(1, Ordering::SeqCst);
    let dir = run_dir.join(format!("single-{n}"));
    let r = match build_and_run(tool, &dir, &render_program(&[(0, ty)])) {
        Outcome::Lines(l) => Ok(cases_from_lines(ty, 0, &l)),
        Outcome::CompileFail(stderr) => {
            // attribute the failure to the innermost type that fails on its own
            for v in &ty.variants {
                if let VAttr::Flatten { inner, .. } = &v.attr {
                    let r = observe_single(tool, run_dir, inner)?;
                    if r.iter().any(|c| c.item.is_none()) {
                        let _ = std::fs::remove_dir_all(&dir);
                        return Ok(r);
                    }
                }
            }
            let stderr = clip(&stderr, 2500);
            let without_s = if has_flatten_field_s(ty) {
                let alt = rename_flatten_field_s(ty);
                match build_and_run(tool, &dir, &render_program(&[(0, &alt)])) {
                    Outcome::Lines(_) => Some(true),
                    Outcome::Inconclusive(e) => return Err(e),
                    _ => Some(false),
                }
            } else {
                None
            };
            Ok(vec![Case { ty: ty.clone(), item: None, observed: Observed::CompileFail { stderr, without_s } }])
        }
        Outcome::RunFail(e) => Ok(vec![Case { ty: ty.clone(), item: None, observed: Observed::RunFail(e) }]),
        Outcome::Inconclusive(e) => Err(e),
    };
    let _ = std::fs::remove_dir_all(&dir);
    r
}

fn first_failure(cases: &[Case], known: &dyn Fn(&str) -> bool) -> Option<String> {
    for c in cases {
        let mut o = Obs::default();
        if let Err(Stop::Fail { sig, .. }) = check(c, &mut o) {
            if !known(&sig) {
                return Some(sig);
            }
        }
    }
    None
}

// ------------------------------------------------------------------------------------------------
// Generators
// ------------------------------------------------------------------------------------------------

const WORDS: &[&str] = &[
    "Id", "Name", "First", "Last", "User", "Email", "Asset", "Font", "Size", "Char", "Glyph", "Key", "Http", "Server", "Utf", "Value",
    "Item", "Date", "Zone", "Level", "One", "Two", "Creation", "Info", "Io", "Db", "Order", "Group", "Index", "Type", "Foo", "Bar",
];
const ACRONYMS: &[&str] = &["HTTP", "XML", "URL", "ID", "IO", "DB", "SQL", "UTF", "API", "TABLE"];
const LETTERS: &[&str] = &["A", "B", "X", "Q", "Z", "E"];
const LOWERS: &[&str] = &["foo", "bar", "id", "name", "x", "y", "http", "utf", "col", "key", "a", "b", "v", "table"];
const DIGITS: &[&str] = &["1", "2", "8", "16", "32", "64", "007", "2D", "3d", "1st", "0"];
const UNDERS: &[&str] = &["_", "__"];

const KEYWORDS: &[&str] = &[
    "as", "break", "const", "continue", "crate", "else", "enum", "extern", "false", "fn", "for", "if", "impl", "in", "let", "loop", "match",
    "mod", "move", "mut", "pub", "ref", "return", "self", "Self", "static", "struct", "super", "trait", "true", "type", "unsafe", "use",
    "where", "while", "async", "await", "dyn", "abstract", "become", "box", "do", "final", "macro", "override", "priv", "typeof", "unsized",
    "virtual", "yield", "try", "gen", "union", "_",
];
/// names the generated code itself relies on
const RESERVED: &[&str] = &[
    "Iden", "IdenStatic", "Table", "String", "Option", "Vec", "Default", "Box", "Some", "None", "Ok", "Err", "Clone", "Copy", "Debug", "Eq",
    "PartialEq", "Hash", "Alias", "Quote", "Write", "Sized", "Send", "Sync", "Drop", "Fn", "FnMut", "FnOnce", "From", "Into", "Iterator",
    "ToString", "AsRef", "AsMut", "Result", "Ord", "PartialOrd", "Extend", "IntoIterator", "ToOwned", "TryFrom", "TryInto", "FromIterator",
    "i32", "u8", "bool", "str", "char", "enum_def",
];

fn valid_ident(s: &str) -> bool {
    let mut it = s.chars();
    let Some(f) = it.next() else { return false };
    (f == '_' || f.is_ascii_alphabetic())
        && s.chars().all(|c| c == '_' || c.is_ascii_alphanumeric())
        && s.chars().any(|c| c.is_ascii_alphanumeric())
        && !s.starts_with("__")
        && !KEYWORDS.contains(&s)
        && !RESERVED.contains(&s)
}

fn sel(pool: &'static [&'static str]) -> BoxedStrategy<String> {
    proptest::sample::select(pool).prop_map(|s| s.to_string()).boxed()
}

/// identifiers from PascalCase words, acronyms, digits, underscores, single letters, lowercase words
fn ident_strategy(type_name: bool) -> BoxedStrategy<String> {
    let first = if type_name {
        prop_oneof![6 => sel(WORDS), 3 => sel(ACRONYMS), 1 => sel(LETTERS), 1 => sel(LOWERS)].boxed()
    } else {
        prop_oneof![6 => sel(WORDS), 3 => sel(ACRONYMS), 2 => sel(LETTERS), 2 => sel(LOWERS)].boxed()
    };
    let rest = prop_oneof![6 => sel(WORDS), 3 => sel(ACRONYMS), 2 => sel(LETTERS), 2 => sel(LOWERS), 3 => sel(DIGITS), 2 => sel(UNDERS)];
    (proptest::bool::weighted(0.08), first, proptest::collection::vec(rest, 0..=3))
        .prop_map(|(lead, f, rest)| {
            let mut s = String::new();
            if lead {
                s.push('_');
            }
            s += &f;
            for r in rest {
                s += &r;
            }
            if !valid_ident(&s) {
                s.push('Q');
            }
            s
        })
        .boxed()
}

const FIELD_PARTS: &[&str] = &[
    "id", "name", "first", "last", "foo", "bar", "x", "y", "utf8", "a1b", "col2", "http", "size", "w", "created", "at", "font", "key",
];
/// field names on which the docs' reading (the field as written) and the property's reading (snake_case of
/// the variant) differ, or which are not conventional snake_case
const ODD_FIELDS: &[&str] = &["foo_1", "fooBar", "_x", "x_", "a__b", "HTTPServer", "Foo", "foo_1st", "user_ID", "utf_8"];

fn field_name_strategy() -> BoxedStrategy<String> {
    prop_oneof![
        9 => proptest::collection::vec(sel(FIELD_PARTS), 1..=3).prop_map(|v| v.join("_")),
        1 => sel(ODD_FIELDS),
    ]
    .boxed()
}

const PLAIN_RENAMES: &[&str] = &["my_id", "name", "user", "EMail", "surname", "something_else", "another_name", "x", "_", "A1", "Table", "tbl_2"];
const NASTY_RENAMES: &[&str] = &[
    "first name", " lead", "trail ", "q\"r", "\"", "\"\"", "a\"", "\"quoted\"", "EM`ail", "`", "Hel`lo", "a]b", "[x]", "it's", "a\\b",
    "public.user", "100%", "é", "名前", "", "1abc", "a-b", "tab\there", "line\nbreak", "$1", "?", "a\"b`c]d",
];
const BRACE_RENAMES: &[&str] = &["a{{b}}", "{{", "}}", "{{}}", "a{b}", "{}", "{", "}", "{0}", "x{{", "{{\"}}", "a}}b", "{:?}", "{{a}} {{b}}"];
const RENAME_CHARS: &[char] = &[
    'a', 'b', 'z', 'A', 'Z', '0', '9', '_', ' ', '"', '`', '\'', '\\', ']', '[', '.', 'é', '-', '%',
];
const BRACE_CHARS: &[char] = &['a', 'b', '_', '{', '}', '{', '}', '"', ' ', '0'];

fn rename_text(braces: bool) -> BoxedStrategy<String> {
    let free = proptest::collection::vec(proptest::sample::select(RENAME_CHARS), 0..8).prop_map(|v| v.into_iter().collect::<String>());
    if braces {
        let bfree = proptest::collection::vec(proptest::sample::select(BRACE_CHARS), 1..7).prop_map(|v| v.into_iter().collect::<String>());
        prop_oneof![2 => sel(PLAIN_RENAMES), 2 => sel(NASTY_RENAMES), 5 => sel(BRACE_RENAMES), 3 => bfree, 1 => free].boxed()
    } else {
        prop_oneof![4 => sel(PLAIN_RENAMES), 4 => sel(NASTY_RENAMES), 3 => free].boxed()
    }
}

fn ren_strategy(braces: bool) -> BoxedStrategy<Ren> {
    (rename_text(braces), any::<bool>()).prop_map(|(text, list)| Ren { text, list }).boxed()
}

const FLATTEN_FIELDS: &[&str] = &["info", "first", "inner", "delegated", "q", "value", "x", "f", "self_", "write"];
/// isolated part only: `s` is the name of the writer argument in the derive's generated `unquoted`
const FLATTEN_FIELDS_ISOLATED: &[&str] = &["info", "first", "inner", "delegated", "q", "value", "x", "f", "s", "s"];

const ANY_KINDS: &[Kind] = &[Kind::IdenEnum, Kind::StaticEnum, Kind::IdenUnit, Kind::StaticUnit, Kind::EnumDef];
const STATIC_KINDS: &[Kind] = &[Kind::StaticEnum, Kind::StaticUnit, Kind::EnumDef];

fn vattr_strategy(kind: Kind, depth: u32, braces: bool) -> BoxedStrategy<VAttr> {
    let mut opts: Vec<(u32, BoxedStrategy<VAttr>)> = vec![
        (10, Just(VAttr::None).boxed()),
        (6, ren_strategy(braces).prop_map(VAttr::Rename).boxed()),
        (2, ren_strategy(braces).prop_map(VAttr::Method).boxed()),
    ];
    if depth > 0 {
        let inner_kinds = if kind == Kind::StaticEnum { STATIC_KINDS } else { ANY_KINDS };
        opts.push((
            3,
            (proptest::option::weighted(0.5, sel(if braces { FLATTEN_FIELDS_ISOLATED } else { FLATTEN_FIELDS })), type_strategy(depth - 1, braces, inner_kinds))
                .prop_map(|(field, inner)| VAttr::Flatten { field, inner: Box::new(inner) })
                .boxed(),
        ));
    }
    Union::new_weighted(opts).boxed()
}

fn fields_strategy() -> BoxedStrategy<Fields> {
    prop_oneof![6 => Just(Fields::Unit), 2 => (1u8..=2).prop_map(Fields::Tuple), 2 => (1u8..=2).prop_map(Fields::Named)].boxed()
}

fn variant_strategy(kind: Kind, depth: u32, braces: bool) -> BoxedStrategy<VariantSpec> {
    (ident_strategy(false), fields_strategy(), vattr_strategy(kind, depth, braces), 0u8..6)
        .prop_map(|(name, fields, attr, deco)| VariantSpec { name, fields, attr, deco: if deco > 4 { 0 } else { deco } })
        .boxed()
}

const PREFIXES: &[&str] = &["", "Enum", "P", "My_", "X1"];
const SUFFIXES: &[&str] = &["", "Def", "Iden", "_S", "2"];
const TABLE_NAMES: &[&str] = &["HelloTable", "hello", "user_2", "T", "_t", "order", "Foo_Bar", "HTTP", "table"];

fn kind_strategy(kind: Kind, depth: u32, braces: bool) -> BoxedStrategy<TypeSpec> {
    match kind {
        Kind::IdenEnum | Kind::StaticEnum => (
            ident_strategy(true),
            proptest::option::weighted(0.3, ren_strategy(braces)),
            0u8..5,
            proptest::option::weighted(0.7, variant_strategy(kind, depth, braces)),
            proptest::collection::vec(variant_strategy(kind, depth, braces), 1..=5),
        )
            .prop_map(move |(name, container, deco, table, vars)| {
                let mut variants = vec![];
                if let Some(mut t) = table {
                    t.name = "Table".to_string();
                    variants.push(t);
                }
                let mut seen = BTreeSet::new();
                seen.insert("Table".to_string());
                for v in vars {
                    if seen.insert(v.name.clone()) {
                        variants.push(v);
                    }
                }
                TypeSpec { kind, name, container, deco, variants, fields: vec![], prefix: None, suffix: None, table_name: None }
            })
            .boxed(),
        Kind::IdenUnit | Kind::StaticUnit => (ident_strategy(true), proptest::option::weighted(0.5, ren_strategy(braces)), 0u8..5)
            .prop_map(move |(name, container, deco)| TypeSpec {
                kind,
                name,
                container,
                deco,
                variants: vec![],
                fields: vec![],
                prefix: None,
                suffix: None,
                table_name: None,
            })
            .boxed(),
        Kind::EnumDef => (
            ident_strategy(true),
            proptest::collection::vec(field_name_strategy(), 0..=5),
            proptest::option::weighted(0.35, sel(PREFIXES)),
            proptest::option::weighted(0.35, sel(SUFFIXES)),
            proptest::option::weighted(0.4, sel(TABLE_NAMES)),
        )
            .prop_map(move |(name, fs, prefix, mut suffix, table_name)| {
                let mut seen = BTreeSet::new();
                seen.insert("Table".to_string());
                let mut fields = vec![];
                let mut raw = BTreeSet::new();
                for f in fs {
                    let p = pascal(&f);
                    // the generated variant must be a fresh, legal identifier; the field itself must be unique
                    // (a field on which heck and the harness disagree about PascalCase cannot be referred to: dropped)
                    if valid_ident(&p)
                        && p.chars().next().map_or(false, |c| c.is_ascii_alphabetic())
                        && !KEYWORDS.contains(&f.as_str())
                        && heck_agrees_pascal(&f)
                    {
                        if raw.insert(f.clone()) && seen.insert(p) {
                            fields.push(f);
                        }
                    }
                }
                if prefix.clone().unwrap_or_default().is_empty() && suffix.as_deref() == Some("") {
                    // the enum would get the struct's own name
                    suffix = None;
                }
                TypeSpec { kind, name, container: None, deco: 0, variants: vec![], fields, prefix, suffix, table_name }
            })
            .boxed(),
    }
}

pub fn type_strategy(depth: u32, braces: bool, kinds: &'static [Kind]) -> BoxedStrategy<TypeSpec> {
    let opts: Vec<(u32, BoxedStrategy<TypeSpec>)> = kinds
        .iter()
        .map(|k| {
            let w = match k {
                Kind::IdenEnum => 4,
                Kind::StaticEnum => 3,
                Kind::IdenUnit | Kind::StaticUnit => 1,
                Kind::EnumDef => 2,
            };
            (w, kind_strategy(*k, depth, braces))
        })
        .collect();
    Union::new_weighted(opts).boxed()
}

/// brace part: every type carries at least one rename with a brace
fn brace_type_strategy() -> BoxedStrategy<TypeSpec> {
    const KINDS: &[Kind] = &[Kind::IdenEnum, Kind::StaticEnum, Kind::IdenUnit, Kind::StaticUnit];
    (type_strategy(1, true, KINDS), sel(BRACE_RENAMES), any::<bool>())
        .prop_map(|(mut ty, forced, list)| {
            if !has_braces(&ty) {
                if ty.kind.is_unit() {
                    ty.container = Some(Ren { text: forced, list });
                } else if let Some(v) = ty.variants.iter_mut().find(|v| !matches!(v.attr, VAttr::Flatten { .. })) {
                    v.attr = VAttr::Rename(Ren { text: forced, list });
                } else {
                    ty.container = Some(Ren { text: forced, list });
                }
            }
            ty
        })
        .boxed()
}

fn part_strategy(part: &str) -> BoxedStrategy<TypeSpec> {
    if part == "isolated" {
        brace_type_strategy()
    } else {
        type_strategy(2, false, ANY_KINDS)
    }
}

fn new_tree(strat: &BoxedStrategy<TypeSpec>, seed: u64) -> Box<dyn ValueTree<Value = TypeSpec>> {
    let mut cfg = Config::default();
    cfg.rng_seed = RngSeed::Fixed(seed);
    cfg.failure_persistence = None;
    let mut r = TestRunner::new(cfg);
    strat.new_tree(&mut r).unwrap()
}

/// Smaller variants of a type, biggest reductions first (used to minimise a failing type).
fn candidates(ty: &TypeSpec) -> Vec<TypeSpec> {
    let mut out: Vec<TypeSpec> = vec![];
    let mut push = |t: TypeSpec| {
        if t != *ty && !out.contains(&t) {
            out.push(t);
        }
    };
    // a flattened inner type on its own
    for v in &ty.variants {
        if let VAttr::Flatten { inner, .. } = &v.attr {
            push((**inner).clone());
        }
    }
    if ty.variants.len() > 1 {
        for i in 0..ty.variants.len() {
            let mut t = ty.clone();
            t.variants.remove(i);
            push(t);
        }
    }
    for i in 0..ty.fields.len() {
        let mut t = ty.clone();
        t.fields.remove(i);
        push(t);
    }
    for (vi, v) in ty.variants.iter().enumerate() {
        if let VAttr::Flatten { field, inner } = &v.attr {
            for c in candidates(inner) {
                if c.kind.is_static() || ty.kind != Kind::StaticEnum {
                    let mut t = ty.clone();
                    t.variants[vi].attr = VAttr::Flatten { field: field.clone(), inner: Box::new(c) };
                    push(t);
                }
            }
            if field.is_some() {
                let mut t = ty.clone();
                t.variants[vi].attr = VAttr::Flatten { field: None, inner: inner.clone() };
                push(t);
            }
        }
        if v.attr != VAttr::None {
            let mut t = ty.clone();
            t.variants[vi].attr = VAttr::None;
            push(t);
        }
        if v.fields != Fields::Unit {
            let mut t = ty.clone();
            t.variants[vi].fields = Fields::Unit;
            push(t);
        }
        if v.deco != 0 {
            let mut t = ty.clone();
            t.variants[vi].deco = 0;
            push(t);
        }
    }
    if ty.container.is_some() {
        let mut t = ty.clone();
        t.container = None;
        push(t);
    }
    if ty.deco != 0 {
        let mut t = ty.clone();
        t.deco = 0;
        push(t);
    }
    for k in 0..3 {
        let mut t = ty.clone();
        let f = match k {
            0 => &mut t.prefix,
            1 => &mut t.suffix,
            _ => &mut t.table_name,
        };
        if f.is_some() {
            *f = None;
            push(t);
        }
    }
    // shorter strings and names
    let shorter = |s: &str| -> Vec<String> {
        let ch: Vec<char> = s.chars().collect();
        if ch.len() < 2 || ch.len() > 10 {
            return vec![];
        }
        (0..ch.len()).map(|i| ch.iter().enumerate().filter(|(j, _)| *j != i).map(|(_, c)| *c).collect()).collect()
    };
    if let Some(r) = &ty.container {
        for x in shorter(&r.text) {
            let mut t = ty.clone();
            t.container = Some(Ren { text: x, list: r.list });
            push(t);
        }
    }
    for (vi, v) in ty.variants.iter().enumerate() {
        match &v.attr {
            VAttr::Rename(r) | VAttr::Method(r) => {
                for x in shorter(&r.text) {
                    let mut t = ty.clone();
                    let nr = Ren { text: x, list: r.list };
                    t.variants[vi].attr = if matches!(v.attr, VAttr::Rename(_)) { VAttr::Rename(nr) } else { VAttr::Method(nr) };
                    push(t);
                }
            }
            _ => {}
        }
        if v.name != "Table" {
            let simple = format!("V{vi}");
            if v.name != simple && !ty.variants.iter().any(|o| o.name == simple) {
                let mut t = ty.clone();
                t.variants[vi].name = simple;
                push(t);
            }
        }
    }
    if ty.name != "T" {
        let mut t = ty.clone();
        t.name = "T".to_string();
        push(t);
    }
    out
}

/// Greedy minimisation: repeatedly replace the type by its first candidate that still fails with `sig`
/// (candidates are compiled alone, 16 at a time). Returns the minimal type and its cases.
fn reduce(tool: &Tool, run_dir: &Path, start: &TypeSpec, sig: &str) -> Option<(TypeSpec, Vec<Case>)> {
    let hits = |cs: &[Case]| {
        cs.iter().any(|c| {
            let mut o = Obs::default();
            matches!(check(c, &mut o), Err(Stop::Fail { sig: s, .. }) if s == sig)
        })
    };
    let mut cur = start.clone();
    let mut cur_cases = observe_single(tool, run_dir, &cur).ok()?;
    if !hits(&cur_cases) {
        return None;
    }
    for _round in 0..60 {
        let cands = candidates(&cur);
        let mut found = None;
        for chunk in cands.chunks(SHARDS) {
            let res = par_map(chunk, &|_, c| observe_single(tool, run_dir, c).ok().filter(|cs| hits(cs)));
            if let Some((i, cs)) = res.into_iter().enumerate().find_map(|(i, r)| r.map(|cs| (i, cs))) {
                found = Some((chunk[i].clone(), cs));
                break;
            }
        }
        match found {
            Some((t, cs)) => {
                cur = t;
                cur_cases = cs;
            }
            None => break,
        }
    }
    Some((cur, cur_cases))
}

// ------------------------------------------------------------------------------------------------
// Hand-written corner types (docs and test-suite examples, boundary names)
// ------------------------------------------------------------------------------------------------

fn ty(kind: Kind, name: &str) -> TypeSpec {
    TypeSpec {
        kind,
        name: name.to_string(),
        container: None,
        deco: 0,
        variants: vec![],
        fields: vec![],
        prefix: None,
        suffix: None,
        table_name: None,
    }
}
fn var(name: &str, attr: VAttr) -> VariantSpec {
    VariantSpec { name: name.to_string(), fields: Fields::Unit, attr, deco: 0 }
}
fn ren(text: &str, list: bool) -> Ren {
    Ren { text: text.to_string(), list }
}

pub fn corner_types() -> Vec<TypeSpec> {
    let mut v = vec![];
    for kind in [Kind::IdenEnum, Kind::StaticEnum] {
        // lib.rs docs / tests: Character, User, Custom, Something
        let mut t = ty(kind, "Character");
        t.variants = ["Table", "Id", "FontId", "FontSize"].iter().map(|n| var(n, VAttr::None)).collect();
        v.push(t);
        for list in [false, true] {
            let mut t = ty(kind, "Custom");
            t.container = Some(ren("user", list));
            t.variants = vec![
                var("Table", VAttr::None),
                var("Id", VAttr::Rename(ren("my_id", list))),
                var("FirstName", VAttr::Rename(ren("name", list))),
                var("LastName", VAttr::Rename(ren("surname", list))),
                VariantSpec { name: "Email".into(), fields: Fields::Tuple(1), attr: VAttr::Rename(ren("EM`ail", list)), deco: 1 },
                VariantSpec { name: "Custom".into(), fields: Fields::Tuple(1), attr: VAttr::Method(ren("", list)), deco: 1 },
            ];
            v.push(t);
        }
        let mut t = ty(kind, "Something");
        t.variants = vec![
            var("Table", VAttr::Rename(ren("something_else", false))),
            var("Id", VAttr::None),
            var("AssetName", VAttr::None),
            var("UserId", VAttr::None),
        ];
        v.push(t);
        // every name plain except one that contains the closing quote of one style
        for q in ["q\"r", "q`r", "q]r"] {
            let mut t = ty(kind, "HTTPServer");
            t.variants = vec![var("Table", VAttr::None), var("Utf8Char", VAttr::None), var("A1B", VAttr::Rename(ren(q, true)))];
            v.push(t);
            let mut t = ty(kind, "XMLHttpRequest");
            t.container = Some(ren(q, false));
            t.variants = vec![var("Table", VAttr::None), var("Foo_Bar", VAttr::None), var("_x", VAttr::None), var("ABcDE", VAttr::None)];
            v.push(t);
        }
        // 3-level flatten from the test suite
        let unit_kind = if kind == Kind::IdenEnum { Kind::IdenUnit } else { Kind::StaticUnit };
        let mut second = ty(kind, "SecondLevel");
        second.variants = vec![
            var("LevelTwo", VAttr::None),
            var("Third", VAttr::Flatten { field: None, inner: Box::new(ty(unit_kind, "LevelThree")) }),
            var("UserId", VAttr::None),
        ];
        let mut first = ty(kind, "FirstLevel");
        first.variants = vec![var("LevelOne", VAttr::None), var("Second", VAttr::Flatten { field: None, inner: Box::new(second) })];
        let mut asset = ty(kind, "Asset");
        asset.variants = vec![
            var("Table", VAttr::None),
            var("Id", VAttr::None),
            var("AssetName", VAttr::None),
            var("First", VAttr::Flatten { field: Some("first".into()), inner: Box::new(first) }),
        ];
        v.push(asset);
    }
    for kind in [Kind::IdenUnit, Kind::StaticUnit] {
        v.push(ty(kind, "Glyph"));
        v.push(ty(kind, "SomeType"));
        for (text, list) in [("another_name", false), ("Hel`lo", true), ("a\"b", false), ("", true), ("a]b", true)] {
            let mut t = ty(kind, "CustomName");
            t.container = Some(ren(text, list));
            v.push(t);
        }
    }
    let mut t = ty(Kind::EnumDef, "Character");
    t.fields = vec!["foo".into()];
    v.push(t);
    let mut t = ty(Kind::EnumDef, "Hello");
    t.fields = vec!["name".into()];
    t.table_name = Some("HelloTable".into());
    v.push(t);
    let mut t = ty(Kind::EnumDef, "Hello");
    t.fields = vec!["name".into(), "first_name".into()];
    t.prefix = Some("Enum".into());
    t.suffix = Some("".into());
    v.push(t);
    let mut t = ty(Kind::EnumDef, "HTTPServer");
    t.fields = vec!["id".into(), "utf8_char".into()];
    t.suffix = Some("Def".into());
    v.push(t);
    v
}

/// hand-written types for the isolated part (braces in renames, flattened field `s`)
pub fn isolated_corner_types() -> Vec<TypeSpec> {
    let mut v = vec![];
    for kind in [Kind::IdenUnit, Kind::StaticUnit] {
        for (text, list) in [("a{{b}}", false), ("a{b}", true), ("{}", false)] {
            let mut t = ty(kind, "Weird");
            t.container = Some(ren(text, list));
            v.push(t);
        }
    }
    for kind in [Kind::IdenEnum, Kind::StaticEnum] {
        let mut t = ty(kind, "Braces");
        t.container = Some(ren("t{{x}}", false));
        t.variants = vec![
            var("Table", VAttr::None),
            var("Open", VAttr::Rename(ren("{", true))),
            var("Pair", VAttr::Rename(ren("{}", false))),
            var("Doubled", VAttr::Rename(ren("a{{b}}", true))),
            var("Custom", VAttr::Method(ren("{0}", false))),
        ];
        v.push(t);
        let mut t = ty(kind, "Outer");
        let mut inner = ty(kind, "Inner");
        inner.variants = vec![var("UserId", VAttr::None)];
        t.variants = vec![var("Table", VAttr::None), var("Held", VAttr::Flatten { field: Some("s".into()), inner: Box::new(inner) })];
        v.push(t);
    }
    v
}

// ------------------------------------------------------------------------------------------------
// The run
// ------------------------------------------------------------------------------------------------

fn par_map<T: Sync, U: Send>(inputs: &[T], f: &(dyn Fn(usize, &T) -> U + Sync)) -> Vec<U> {
    let next = AtomicUsize::new(0);
    let out: Mutex<Vec<(usize, U)>> = Mutex::new(Vec::new());
    std::thread::scope(|sc| {
        for _ in 0..SHARDS.min(inputs.len().max(1)) {
            sc.spawn(|| loop {
                let i = next.fetch_add(1, Ordering::SeqCst);
                if i >= inputs.len() {
                    break;
                }
                let u = f(i, &inputs[i]);
                out.lock().unwrap().push((i, u));
            });
        }
    });
    let mut v = out.into_inner().unwrap();
    v.sort_by_key(|x| x.0);
    v.into_iter().map(|x| x.1).collect()
}

struct GenType {
    ty: TypeSpec,
    /// seed of the value tree the type is the root of (None for hand-written types); kept for diagnostics
    #[allow(dead_code)]
    seed: Option<u64>,
}

enum BatchResult {
    Done(Vec<Vec<Case>>),
    /// the batch does not build; the types rustc's diagnostics point at (positions in the batch)
    Failed(BTreeSet<usize>),
}

/// Build and run one program made of `idxs`; on a compile error name the types the diagnostics point at.
fn observe_batch(tool: &Tool, dir: &Path, types: &[GenType], idxs: &[usize], inconclusive: &Mutex<Vec<String>>) -> BatchResult {
    let progs: Vec<(usize, &TypeSpec)> = idxs.iter().map(|&i| (i, &types[i].ty)).collect();
    let (src, map) = render_program_mapped(&progs);
    let r = build_and_run(tool, dir, &src);
    let _ = std::fs::remove_dir_all(dir);
    match r {
        Outcome::Lines(lines) => BatchResult::Done(idxs.iter().map(|&i| cases_from_lines(&types[i].ty, i, &lines)).collect()),
        Outcome::Inconclusive(e) => {
            inconclusive.lock().unwrap().push(e);
            BatchResult::Done(idxs.iter().map(|_| vec![]).collect())
        }
        Outcome::CompileFail(stderr) => {
            let lines = error_lines(&stderr);
            let hit: BTreeSet<usize> =
                map.iter().enumerate().filter(|(_, (_, a, b))| lines.range(*a..=*b).next().is_some()).map(|(k, _)| k).collect();
            BatchResult::Failed(hit)
        }
        Outcome::RunFail(_) => BatchResult::Failed(BTreeSet::new()),
    }
}

/// Observe a set of types: whole batches first. A batch that does not build is attributed to single types:
/// the types named by the compiler's diagnostics are compiled alone and the rest of the batch together; if
/// that still fails (or nothing is named) every type of the batch is compiled alone. Cases per type, in order.
fn observe_types(
    tool: &Tool,
    run_dir: &Path,
    part: &str,
    types: &[GenType],
    batch_size: usize,
    inconclusive: &Mutex<Vec<String>>,
) -> Vec<Vec<Case>> {
    let batches: Vec<Vec<usize>> = (0..types.len()).collect::<Vec<_>>().chunks(batch_size.max(1)).map(|c| c.to_vec()).collect();
    let mut out: Vec<Vec<Case>> = (0..types.len()).map(|_| vec![]).collect();
    let mut singles: Vec<usize> = vec![];
    let mut rests: Vec<Vec<usize>> = vec![];
    let first = par_map(&batches, &|b, idxs| observe_batch(tool, &run_dir.join(format!("{part}-b{b}")), types, idxs, inconclusive));
    for (b, r) in first.into_iter().enumerate() {
        match r {
            BatchResult::Done(v) => {
                for (k, cs) in v.into_iter().enumerate() {
                    out[batches[b][k]] = cs;
                }
            }
            BatchResult::Failed(hit) => {
                if hit.is_empty() || hit.len() == batches[b].len() {
                    singles.extend(batches[b].iter().copied());
                } else {
                    singles.extend(hit.iter().map(|&k| batches[b][k]));
                    rests.push(batches[b].iter().enumerate().filter(|(k, _)| !hit.contains(k)).map(|(_, &i)| i).collect());
                }
            }
        }
    }
    let had_failed_batch = !singles.is_empty();
    let second = par_map(&rests, &|b, idxs| observe_batch(tool, &run_dir.join(format!("{part}-r{b}")), types, idxs, inconclusive));
    for (b, r) in second.into_iter().enumerate() {
        match r {
            BatchResult::Done(v) => {
                for (k, cs) in v.into_iter().enumerate() {
                    out[rests[b][k]] = cs;
                }
            }
            BatchResult::Failed(_) => singles.extend(rests[b].iter().copied()),
        }
    }
    singles.sort();
    let res = par_map(&singles, &|_, &i| observe_single(tool, run_dir, &types[i].ty));
    let mut any_failed = false;
    for (k, r) in res.into_iter().enumerate() {
        match r {
            Ok(cs) => {
                any_failed |= cs.iter().any(|c| c.item.is_none());
                out[singles[k]] = cs;
            }
            Err(e) => inconclusive.lock().unwrap().push(e),
        }
    }
    if had_failed_batch && !any_failed {
        inconclusive.lock().unwrap().push(format!("part {part}: a batch does not build although each of its types builds alone"));
    }
    out
}

fn run_part(ctx: &mut Ctx, tool: &Tool, run_dir: &Path, part: &str, types: Vec<GenType>, batch_size: usize) {
    let inconclusive = Mutex::new(Vec::new());
    let t0 = Instant::now();
    let mut per_type = if batch_size <= 1 {
        par_map(&types, &|_, g| match observe_single(tool, run_dir, &g.ty) {
            Ok(c) => c,
            Err(e) => {
                inconclusive.lock().unwrap().push(e);
                vec![]
            }
        })
    } else {
        observe_types(tool, run_dir, part, &types, batch_size, &inconclusive)
    };
    let observe_s = t0.elapsed().as_secs_f64();
    // minimise the first failing type of each unknown signature (at most 3)
    let mut shrunk_sigs: BTreeSet<String> = BTreeSet::new();
    let mut front: Vec<Case> = vec![];
    for (i, g) in types.iter().enumerate() {
        if shrunk_sigs.len() >= 3 {
            break;
        }
        let known = |s: &str| ctx.is_known(s) || shrunk_sigs.contains(s);
        let Some(sig) = first_failure(&per_type[i], &known) else { continue };
        shrunk_sigs.insert(sig.clone());
        if let Some((_, mut cs)) = reduce(tool, run_dir, &g.ty, &sig) {
            // the minimal type replaces the original one; failing item first
            per_type[i] = vec![];
            cs.sort_by_key(|c| {
                let mut o = Obs::default();
                !matches!(check(c, &mut o), Err(Stop::Fail { .. }))
            });
            front.extend(cs);
        }
    }
    let n_types = types.len();
    let mut cases = front;
    cases.extend(per_type.into_iter().flatten());
    ctx.run_list(part, &cases, &check);
    for e in inconclusive.into_inner().unwrap() {
        ctx.note_inconclusive(format!("part {part}: {e}"));
    }
    ctx.extra.insert(format!("{part}_types"), json!(n_types));
    ctx.extra.insert(format!("{part}_observe_s"), json!((observe_s * 10.0).round() / 10.0));
}

/// type i of a part is the root of the value tree seeded with seeds[i] (strategies are not Sync: one per chunk)
fn generate(part: &str, seeds: &[u64]) -> Vec<GenType> {
    let chunks: Vec<&[u64]> = seeds.chunks(64).collect();
    par_map(&chunks, &|_, c| {
        let strat = part_strategy(part);
        c.iter().map(|s| GenType { ty: new_tree(&strat, *s).current(), seed: Some(*s) }).collect::<Vec<_>>()
    })
    .into_iter()
    .flatten()
    .collect()
}

pub fn run(ctx: &mut Ctx) {
    ctx.rule = "inputs: generated Rust programs. Each type is an enum or unit struct deriving Iden / IdenStatic, or a struct under \
#[enum_def]; type, variant and field names are built from PascalCase words, acronyms (HTTPServer), digits (Utf8Char, A1B), underscores \
(Foo_Bar, _x), single letters and lowercase words; optional #[iden = ..] / #[iden(rename = ..)] / #[method = ..] / #[iden(method = ..)] / \
#[iden(flatten)] (nesting <= 2) attributes, container renames, unrelated attributes around them, unit/tuple/named variants, enum_def \
prefix/suffix/table_name; rename strings with spaces, both quote characters, brackets, non-ASCII text, the empty string, and (part \
'isolated', one program per type) braces and a flattened field named `s`. One evaluation = one (type, variant/field) pair: to_string, as_str and prepare under 4 quote \
styles compared with the harness's own snake_case / attribute / quote-doubling oracle and with Alias::new(name).prepare. Non-trivial = \
the pair involves an attribute (or enum_def argument) or a multi-word / acronym / digit / underscore name; distinct by (kind, rule, \
variant path, expected name, type name)."
        .into();
    ctx.assumptions.push("generated programs are compiled with rustc against the rlib that `cargo build` produced from SQV_REPO (default /repo) with features derive, attr, backend-*; this is the command cargo itself would run".into());
    ctx.assumptions.push("snake_case / PascalCase expectations follow heck's documented word-boundary rules, implemented independently and cross-checked against heck 0.4 (disagreement = discard)".into());
    ctx.assumptions.push("a compile or run timeout is reported as inconclusive, never as a violation".into());
    ctx.domain_restrictions.push("identifiers are ASCII; Rust keywords, names starting with `__` and names used by the generated scaffolding are excluded".into());
    ctx.domain_restrictions.push("at most one iden/method attribute per item; container attributes are renames only (others are documented compile errors)".into());
    ctx.domain_restrictions.push("enum_def: table_name is a legal identifier; a field whose name is not a fixed point of snake_case(PascalCase(field)) is compiled and run but its name is counted as undecided (docs say the field name, the property text says snake_case of the variant)".into());
    ctx.domain_restrictions.push("modules import sea_query::{Iden, IdenStatic, enum_def} as the crate's examples do".into());

    let tool = match ensure_base(&ctx.root) {
        Ok(t) => t,
        Err(e) => {
            ctx.note_inconclusive(e);
            return;
        }
    };
    // scratch directory of this process; leftovers of processes that no longer exist are removed
    if let Ok(rd) = std::fs::read_dir(&tool.gen_root) {
        for e in rd.flatten() {
            let name = e.file_name().to_string_lossy().to_string();
            if let Some(pid) = name.strip_prefix("run-").and_then(|r| r.rsplit('-').next()).and_then(|p| p.parse::<u32>().ok()) {
                if !Path::new(&format!("/proc/{pid}")).exists() {
                    let _ = std::fs::remove_dir_all(e.path());
                }
            }
        }
    }
    let run_dir = tool.gen_root.join(format!("run-s{}-{}-{}", ctx.seed, ctx.tier.name(), std::process::id()));
    let _ = std::fs::remove_dir_all(&run_dir);
    let _ = std::fs::create_dir_all(&run_dir);

    // hand-written corners
    let corners: Vec<GenType> = corner_types().into_iter().map(|ty| GenType { ty, seed: None }).collect();
    run_part(ctx, &tool, &run_dir, "corners", corners, 64);

    // batches of generated types
    let batches = ctx.tier.pick(12usize, 256usize);
    let batch_size = 150usize;
    let seeds: Vec<u64> = (0..batches * batch_size).map(|i| mix(ctx.seed, "C19", "programs", i as u64)).collect();
    let types = generate("programs", &seeds);
    run_part(ctx, &tool, &run_dir, "programs", types, batch_size);

    // isolated single-type programs with braces in rename strings
    let n = ctx.tier.pick(128usize, 2048usize);
    let seeds: Vec<u64> = (0..n).map(|i| mix(ctx.seed, "C19", "isolated", i as u64)).collect();
    let mut types: Vec<GenType> = isolated_corner_types().into_iter().map(|ty| GenType { ty, seed: None }).collect();
    types.extend(generate("isolated", &seeds));
    run_part(ctx, &tool, &run_dir, "isolated", types, 1);

    ctx.extra.insert("batches".into(), json!(batches));
    ctx.extra.insert("types_per_batch".into(), json!(batch_size));
    ctx.extra.insert("repo".into(), json!(tool.repo));
    if ctx.inconclusive.is_empty() {
        let _ = std::fs::remove_dir_all(&run_dir);
    }
}

/// Replay: the stored observation is ignored; the type of the case is compiled and run again.
pub fn replay(_part: &str, case: &J, obs: &mut Obs) -> R {
    let c: Case = from_case(case)?;
    let root = PathBuf::from(std::env::var("SQV_ROOT").unwrap_or_else(|_| "/verif".to_string()));
    let tool = match ensure_base(&root) {
        Ok(t) => t,
        Err(e) => return undecided(format!("cannot build sea-query for replay: {}", clip(&e, 200))),
    };
    let run_dir = tool.gen_root.join(format!("replay-{}", std::process::id()));
    let r = observe_single(&tool, &run_dir, &c.ty);
    let _ = std::fs::remove_dir_all(&run_dir);
    let cases = match r {
        Ok(cs) => cs,
        Err(e) => return undecided(format!("replay inconclusive: {}", clip(&e, 200))),
    };
    obs.label("replayed");
    // the stored item first, then every other item of the type
    let mut first: Vec<&Case> = cases.iter().filter(|x| x.item == c.item).collect();
    first.extend(cases.iter().filter(|x| x.item != c.item));
    let mut soft: R = Ok(());
    for x in first {
        match check(x, obs) {
            Err(f @ Stop::Fail { .. }) => return Err(f),
            Err(other) if soft.is_ok() => soft = Err(other),
            _ => {}
        }
    }
    if c.item.is_some() { soft } else { Ok(()) }
}
