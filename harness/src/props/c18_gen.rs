//! C18: the hand-built pool (aimed at the places where `eq` and `hash` could disagree) and the
//! proptest strategies for random values, siblings and tuples.

use super::spec::*;
use proptest::prelude::*;
use proptest::sample::select;

pub const F32_SPECIALS: &[u32] = &[
    0x0000_0000, // +0
    0x8000_0000, // -0
    0x3f80_0000, // 1
    0xbf80_0000, // -1
    0x7f80_0000, // +inf
    0xff80_0000, // -inf
    0x7fc0_0000, // canonical quiet NaN
    0xffc0_0000, // negative quiet NaN
    0x7fc0_0001, // quiet NaN, payload 1
    0x7f80_0001, // signalling NaN
    0xffff_ffff, // negative NaN, full payload
    0x7fff_ffff, // NaN, full payload
    0x0080_0000, // MIN_POSITIVE
    0x0000_0001, // smallest subnormal
    0x8000_0001, // -smallest subnormal
    0x7f7f_ffff, // MAX
    0x3fc0_0000, // 1.5
    0x3dcc_cccd, // 0.1
    0x4000_0000, // 2
];

pub const F64_SPECIALS: &[u64] = &[
    0x0000_0000_0000_0000,
    0x8000_0000_0000_0000,
    0x3ff0_0000_0000_0000, // 1
    0xbff0_0000_0000_0000, // -1
    0x7ff0_0000_0000_0000, // +inf
    0xfff0_0000_0000_0000, // -inf
    0x7ff8_0000_0000_0000, // canonical NaN
    0xfff8_0000_0000_0000,
    0x7ff8_0000_0000_0001,
    0x7ff0_0000_0000_0001, // signalling
    0xffff_ffff_ffff_ffff,
    0x7fff_ffff_ffff_ffff,
    0x0010_0000_0000_0000, // MIN_POSITIVE
    0x0000_0000_0000_0001,
    0x8000_0000_0000_0001,
    0x7fef_ffff_ffff_ffff, // MAX
    0x3ff8_0000_0000_0000, // 1.5
    0x3fb9_9999_9999_999a, // 0.1
    0x3fd3_3333_3333_3333, // 0.3
    0x3fd3_3333_3333_3334, // 0.1 + 0.2
    0x4000_0000_0000_0000, // 2
];

fn s(x: &str) -> String {
    x.to_string()
}
fn ymd(y: i32, m: u8, d: u8) -> Ymd {
    Ymd { y, m, d }
}
fn inst(secs: i64, nanos: u32) -> Inst {
    Inst { secs, nanos }
}
fn dec(m: u128, neg: bool, scale: u32) -> Dec {
    Dec { lo: m as u32, mid: (m >> 32) as u32, hi: (m >> 64) as u32, neg, scale }
}
fn bd(digits: &str, scale: i64) -> BigDec {
    BigDec { digits: digits.to_string(), scale }
}
fn obj(m: &[(&str, JS)]) -> JS {
    JS::O(m.iter().map(|(k, v)| (k.to_string(), v.clone())).collect())
}
fn f64b(x: f64) -> u64 {
    x.to_bits()
}
fn f32b(x: f32) -> u32 {
    x.to_bits()
}

/// All 32 variants as NULL (two array types so that "same variant, other array type" is present).
fn nulls() -> Vec<Spec> {
    vec![
        Spec::Bool(None),
        Spec::TinyInt(None),
        Spec::SmallInt(None),
        Spec::Int(None),
        Spec::BigInt(None),
        Spec::TinyUnsigned(None),
        Spec::SmallUnsigned(None),
        Spec::Unsigned(None),
        Spec::BigUnsigned(None),
        Spec::Float(None),
        Spec::Double(None),
        Spec::String(None),
        Spec::Char(None),
        Spec::Bytes(None),
        Spec::Json(None),
        Spec::ChronoDate(None),
        Spec::ChronoTime(None),
        Spec::ChronoDateTime(None),
        Spec::ChronoDateTimeUtc(None),
        Spec::ChronoDateTimeLocal(None),
        Spec::ChronoDateTimeWithTimeZone(None),
        Spec::TimeDate(None),
        Spec::TimeTime(None),
        Spec::TimeDateTime(None),
        Spec::TimeDateTimeWithTimeZone(None),
        Spec::Uuid(None),
        Spec::Decimal(None),
        Spec::BigDecimal(None),
        Spec::Array(ArrTy::Int, None),
        Spec::Array(ArrTy::BigInt, None),
        Spec::Array(ArrTy::Int, None),
        Spec::Vector(None),
        Spec::IpNetwork(None),
        Spec::MacAddress(None),
    ]
}

/// The hand-built part of the pool, as families of related values.
pub fn fixed_groups() -> Vec<Vec<Spec>> {
    let mut g: Vec<Vec<Spec>> = vec![nulls()];
    g.push(vec![Spec::Bool(Some(true)), Spec::Bool(Some(false)), Spec::Bool(Some(true))]);
    g.push([0i8, 1, -1, i8::MIN, i8::MAX].iter().map(|v| Spec::TinyInt(Some(*v))).collect());
    g.push([0i16, 1, -1, i16::MIN, i16::MAX].iter().map(|v| Spec::SmallInt(Some(*v))).collect());
    g.push([0i32, 1, -1, i32::MIN, i32::MAX, 1].iter().map(|v| Spec::Int(Some(*v))).collect());
    g.push([0i64, 1, -1, i64::MIN, i64::MAX].iter().map(|v| Spec::BigInt(Some(*v))).collect());
    g.push([0u8, 1, u8::MAX].iter().map(|v| Spec::TinyUnsigned(Some(*v))).collect());
    g.push([0u16, 1, u16::MAX].iter().map(|v| Spec::SmallUnsigned(Some(*v))).collect());
    g.push([0u32, 1, u32::MAX].iter().map(|v| Spec::Unsigned(Some(*v))).collect());
    g.push([0u64, 1, u64::MAX].iter().map(|v| Spec::BigUnsigned(Some(*v))).collect());
    g.push(F32_SPECIALS.iter().map(|b| Spec::Float(Some(*b))).collect());
    g.push(F64_SPECIALS.iter().map(|b| Spec::Double(Some(*b))).collect());
    let long: String = "x".repeat(100);
    g.push(
        ["", "a", "a", "A", "null", "1", "é", "e\u{301}", "\0", "a\0", &long, &long, "true", "[1]"]
            .iter()
            .map(|v| Spec::String(Some(s(v))))
            .collect(),
    );
    g.push(['a', 'A', '1', '\0', 'é', '\u{10ffff}', 'a'].iter().map(|v| Spec::Char(Some(*v))).collect());
    g.push(
        vec![vec![], vec![0u8], vec![97], vec![97], vec![0, 0], (0..=255u8).collect(), (0..=255u8).collect(), vec![49]]
            .into_iter()
            .map(|v| Spec::Bytes(Some(v)))
            .collect(),
    );

    // JSON: compared and hashed through serde_json::to_string
    let nested = obj(&[("a", obj(&[("x", JS::A(vec![JS::I(1), JS::I(2)])), ("y", JS::Null)])), ("b", JS::S(s("s")))]);
    let nested_perm = obj(&[("b", JS::S(s("s"))), ("a", obj(&[("y", JS::Null), ("x", JS::A(vec![JS::I(1), JS::I(2)]))]))]);
    let json = vec![
        JS::Null,
        JS::Bool(true),
        JS::Bool(false),
        JS::I(0),
        JS::U(0),
        JS::I(1),
        JS::U(1),
        JS::I(-1),
        JS::F(f64b(1.0)),
        JS::Raw(s("1e0")),
        JS::Raw(s("1.0")),
        JS::Raw(s("1")),
        JS::F(f64b(0.0)),
        JS::F(f64b(-0.0)),
        JS::Raw(s("-0")),
        JS::Raw(s("-0.0")),
        JS::Raw(s("0.0")),
        JS::U(u64::MAX),
        JS::I(i64::MIN),
        JS::F(f64b(1.5)),
        JS::F(f64b(1e300)),
        JS::S(s("")),
        JS::S(s("a")),
        JS::S(s("A")),
        JS::Raw(s("\"\\u0041\"")),
        JS::S(s("1")),
        JS::S(s("null")),
        JS::A(vec![]),
        JS::A(vec![JS::I(1)]),
        JS::A(vec![JS::F(f64b(1.0))]),
        JS::A(vec![JS::A(vec![])]),
        JS::A(vec![JS::F(f64b(0.0))]),
        JS::A(vec![JS::F(f64b(-0.0))]),
        obj(&[]),
        obj(&[("a", JS::I(1)), ("b", JS::I(2))]),
        obj(&[("b", JS::I(2)), ("a", JS::I(1))]),
        obj(&[("a", JS::I(7)), ("a", JS::I(1)), ("b", JS::I(2))]),
        JS::Raw(s(" { \"b\" : 2 , \"a\" : 1 } ")),
        obj(&[("a", JS::I(1))]),
        obj(&[("a", JS::F(f64b(1.0)))]),
        obj(&[("a", JS::F(f64b(0.0)))]),
        obj(&[("a", JS::F(f64b(-0.0)))]),
        nested,
        nested_perm,
    ];
    g.push(json.into_iter().map(|j| Spec::Json(Some(j))).collect());

    let dates = vec![ymd(1970, 1, 1), ymd(2000, 2, 28), ymd(0, 1, 1), ymd(-1, 12, 28), ymd(9999, 12, 28), ymd(1970, 1, 1)];
    let times = vec![
        Tm::new(0, 0, false),
        Tm::new(86_399, 0, false),
        Tm::new(86_399, 999_999_999, false),
        Tm::new(86_399, 0, true),
        Tm::new(43_200, 500_000_000, false),
        Tm::new(0, 0, false),
    ];
    let times_noleap: Vec<Tm> = times.iter().filter(|t| !t.leap).cloned().collect();
    g.push(dates.iter().map(|d| Spec::ChronoDate(Some(d.clone()))).collect());
    g.push(times.iter().map(|t| Spec::ChronoTime(Some(t.clone()))).collect());
    let dts = |ts: &Vec<Tm>| -> Vec<(Ymd, Tm)> {
        vec![
            (dates[0].clone(), ts[0].clone()),
            (dates[0].clone(), ts[1].clone()),
            (dates[1].clone(), ts[0].clone()),
            (dates[3].clone(), ts[2].clone()),
            (dates[0].clone(), ts[0].clone()),
        ]
    };
    g.push(dts(&times).into_iter().map(|x| Spec::ChronoDateTime(Some(x))).collect());
    let insts =
        vec![inst(0, 0), inst(-1, 0), inst(1_000_000_000, 0), inst(1_000_000_000, 999_999_999), inst(8_000_000_000, 1), inst(0, 0)];
    g.push(insts.iter().map(|i| Spec::ChronoDateTimeUtc(Some(i.clone()))).collect());
    g.push(insts.iter().map(|i| Spec::ChronoDateTimeLocal(Some(i.clone()))).collect());
    // the same instant under different offsets; and the same wall-clock time at different instants
    let zoned = vec![
        (inst(0, 0), 0),
        (inst(0, 0), 3600),
        (inst(0, 0), -3600),
        (inst(0, 0), 86_399),
        (inst(3600, 0), 0),
        (inst(-3600, 0), -3600),
        (inst(1_000_000_000, 5), 0),
        (inst(1_000_000_000, 5), 19_800),
        (inst(1_000_000_000, 5), -34_200),
        (inst(1_000_000_000, 6), 19_800),
    ];
    g.push(zoned.iter().map(|z| Spec::ChronoDateTimeWithTimeZone(Some(z.clone()))).collect());
    g.push(dates.iter().map(|d| Spec::TimeDate(Some(d.clone()))).collect());
    g.push(times_noleap.iter().map(|t| Spec::TimeTime(Some(t.clone()))).collect());
    g.push(dts(&times_noleap).into_iter().map(|x| Spec::TimeDateTime(Some(x))).collect());
    g.push(zoned.iter().map(|z| Spec::TimeDateTimeWithTimeZone(Some(z.clone()))).collect());
    g.push(
        vec![(0, 0), (u64::MAX, u64::MAX), (0, 1), (0x0123_4567_89ab_cdef, 0xfedc_ba98_7654_3210), (0, 1), (1, 0)]
            .into_iter()
            .map(|u| Spec::Uuid(Some(u)))
            .collect(),
    );

    // decimals: same number under different scales, zeros of both signs
    let max96: u128 = (1u128 << 96) - 1;
    let decs = vec![
        dec(0, false, 0),
        dec(0, false, 1),
        dec(0, true, 0),
        dec(0, true, 2),
        dec(0, false, 28),
        dec(1, false, 0),
        dec(10, false, 1),
        dec(100, false, 2),
        dec(10u128.pow(28), false, 28),
        dec(1, true, 0),
        dec(10, true, 1),
        dec(10, false, 0),
        dec(1, false, 1),
        dec(10, false, 2),
        dec(100, false, 3),
        dec(max96, false, 0),
        dec(max96, true, 0),
        dec(max96, false, 28),
        dec(15, false, 1),
        dec(15, false, 0),
        dec(150, false, 2),
        dec(1, false, 28),
    ];
    g.push(decs.into_iter().map(|d| Spec::Decimal(Some(d))).collect());
    let z40 = format!("1{}", "0".repeat(40));
    let big = "123456789012345678901234567890123456789012345678901234567890";
    let big0 = format!("{big}000");
    let bigs = vec![
        bd("0", 0),
        bd("0", 5),
        bd("0", -3),
        bd("-0", 2),
        bd("1", 0),
        bd("10", 1),
        bd("100", 2),
        bd(&z40, 40),
        bd("100", 0),
        bd("1", -2),
        bd("1000", 1),
        bd("10", -1),
        bd("-1", 0),
        bd("-10", 1),
        bd("-100", 0),
        bd("-1", -2),
        bd("1", 1),
        bd("10", 2),
        bd("100", 3),
        bd(big, 0),
        bd(big, 30),
        bd(&big0, 33),
        bd(&big0, 3),
        bd("15", 1),
        bd("15", 0),
        bd("150", 2),
        bd("150", 1),
        bd("1", 100),
        bd("1", -100),
    ];
    g.push(bigs.into_iter().map(|d| Spec::BigDecimal(Some(d))).collect());

    // arrays: array type vs elements, prefixes, nesting, element-level special cases
    let i = |v: i32| Spec::Int(Some(v));
    let arr = |t: ArrTy, v: Vec<Spec>| Spec::Array(t, Some(v));
    let arrays = vec![
        arr(ArrTy::Int, vec![i(1), i(2), i(3)]),
        arr(ArrTy::Int, vec![i(1), i(2), i(3)]),
        arr(ArrTy::BigInt, vec![i(1), i(2), i(3)]),
        arr(ArrTy::Int, vec![Spec::BigInt(Some(1)), Spec::BigInt(Some(2)), Spec::BigInt(Some(3))]),
        arr(ArrTy::Int, vec![i(1), i(2)]),
        arr(ArrTy::Int, vec![i(3), i(2), i(1)]),
        arr(ArrTy::Int, vec![]),
        arr(ArrTy::BigInt, vec![]),
        arr(ArrTy::Int, vec![Spec::Int(None)]),
        arr(ArrTy::Int, vec![Spec::Int(None), Spec::Int(None)]),
        arr(ArrTy::Float, vec![Spec::Float(Some(0x7fc0_0000))]),
        arr(ArrTy::Float, vec![Spec::Float(Some(0xffc0_0001))]),
        arr(ArrTy::Float, vec![Spec::Float(Some(0))]),
        arr(ArrTy::Float, vec![Spec::Float(Some(0x8000_0000))]),
        arr(ArrTy::Double, vec![Spec::Double(Some(F64_SPECIALS[6])), Spec::Double(Some(0))]),
        arr(ArrTy::Double, vec![Spec::Double(Some(F64_SPECIALS[10])), Spec::Double(Some(F64_SPECIALS[1]))]),
        arr(ArrTy::Int, vec![arr(ArrTy::Int, vec![i(1)]), arr(ArrTy::Int, vec![i(2)])]),
        arr(ArrTy::Int, vec![arr(ArrTy::Int, vec![i(1)]), arr(ArrTy::Int, vec![i(2)])]),
        arr(ArrTy::Int, vec![arr(ArrTy::Int, vec![i(1), i(2)])]),
        arr(ArrTy::Int, vec![arr(ArrTy::BigInt, vec![i(1)]), arr(ArrTy::Int, vec![i(2)])]),
        arr(ArrTy::Float, vec![arr(ArrTy::Float, vec![Spec::Float(Some(0x7fc0_0000))])]),
        arr(ArrTy::Float, vec![arr(ArrTy::Float, vec![Spec::Float(Some(0x7fff_ffff))])]),
        arr(ArrTy::Json, vec![Spec::Json(Some(obj(&[("a", JS::I(1)), ("b", JS::I(2))])))]),
        arr(ArrTy::Json, vec![Spec::Json(Some(obj(&[("b", JS::I(2)), ("a", JS::I(1))])))]),
        arr(ArrTy::Json, vec![Spec::Json(Some(JS::F(f64b(0.0))))]),
        arr(ArrTy::Json, vec![Spec::Json(Some(JS::F(f64b(-0.0))))]),
        arr(ArrTy::Decimal, vec![Spec::Decimal(Some(dec(10, false, 1)))]),
        arr(ArrTy::Decimal, vec![Spec::Decimal(Some(dec(100, false, 2)))]),
        arr(ArrTy::BigDecimal, vec![Spec::BigDecimal(Some(bd("1", -2)))]),
        arr(ArrTy::BigDecimal, vec![Spec::BigDecimal(Some(bd("100", 0)))]),
        arr(ArrTy::String, vec![Spec::String(Some(s("a")))]),
        arr(ArrTy::Char, vec![Spec::Char(Some('a'))]),
        arr(ArrTy::String, vec![Spec::Char(Some('a'))]),
        arr(ArrTy::ChronoDateTimeWithTimeZone, vec![Spec::ChronoDateTimeWithTimeZone(Some((inst(0, 0), 0)))]),
        arr(ArrTy::ChronoDateTimeWithTimeZone, vec![Spec::ChronoDateTimeWithTimeZone(Some((inst(0, 0), 3600)))]),
        arr(ArrTy::TimeDateTimeWithTimeZone, vec![Spec::TimeDateTimeWithTimeZone(Some((inst(0, 0), 0)))]),
        arr(ArrTy::TimeDateTimeWithTimeZone, vec![Spec::TimeDateTimeWithTimeZone(Some((inst(0, 0), -3600)))]),
        arr(ArrTy::Bool, vec![Spec::Bool(Some(true)), i(1), Spec::String(Some(s("x"))), Spec::Vector(Some(vec![0]))]),
    ];
    g.push(arrays);

    // vectors: length matters, elements compare like floats
    let vecs: Vec<Vec<u32>> = vec![
        vec![],
        vec![0],
        vec![0x8000_0000],
        vec![0x7fc0_0000],
        vec![0xffc0_0001],
        vec![0x7f80_0001, 0],
        vec![0x7fff_ffff, 0x8000_0000],
        vec![f32b(1.0), f32b(2.0)],
        vec![f32b(1.0), f32b(2.0)],
        vec![f32b(1.0), f32b(2.0), f32b(3.0)],
        vec![f32b(1.0), f32b(2.0), 0],
        vec![f32b(2.0), f32b(1.0)],
        vec![f32b(1.0)],
        vec![0x7f80_0000],
        vec![0xff80_0000],
        vec![0, 0],
    ];
    g.push(vecs.into_iter().map(|v| Spec::Vector(Some(v))).collect());
    let ips = vec![
        Ip::V4(0, 0),
        Ip::V4(0x0a00_0000, 8),
        Ip::V4(0x0a00_0001, 8),
        Ip::V4(0x0a00_0000, 24),
        Ip::V4(0x7f00_0001, 32),
        Ip::V4(0x0a00_0000, 8),
        Ip::V6(0, 0, 0),
        Ip::V6(0, 1, 128),
        Ip::V6(0, 0xffff_0a00_0000, 104),
        Ip::V6(0xfe80_0000_0000_0000, 0, 64),
        Ip::V6(0, 1, 128),
    ];
    g.push(ips.into_iter().map(|v| Spec::IpNetwork(Some(v))).collect());
    g.push(
        vec![[0u8; 6], [0xff; 6], [1, 2, 3, 4, 5, 6], [1, 2, 3, 4, 5, 6], [6, 5, 4, 3, 2, 1]]
            .into_iter()
            .map(|m| Spec::MacAddress(Some(m)))
            .collect(),
    );
    g
}

// ---------------------------------------------------------------------------------------------
// strategies (small domains, so that equal-but-not-identical values actually meet)

fn opt<T: std::fmt::Debug + Clone + 'static>(st: impl Strategy<Value = T> + 'static) -> BoxedStrategy<Option<T>> {
    prop_oneof![1 => Just(None), 9 => st.prop_map(Some)].boxed()
}

pub fn f32_bits() -> BoxedStrategy<u32> {
    prop_oneof![
        6 => select(F32_SPECIALS.to_vec()),
        2 => (-3i32..=3).prop_map(|i| (i as f32).to_bits()),
        1 => (0u32..0x40_0000).prop_map(|p| 0x7fc0_0000 | p),
        1 => any::<u32>(),
    ]
    .boxed()
}

pub fn f64_bits() -> BoxedStrategy<u64> {
    prop_oneof![
        6 => select(F64_SPECIALS.to_vec()),
        2 => (-3i32..=3).prop_map(|i| (i as f64).to_bits()),
        1 => (0u64..(1 << 51)).prop_map(|p| 0x7ff8_0000_0000_0000 | p),
        1 => any::<u64>(),
    ]
    .boxed()
}

fn small_string() -> BoxedStrategy<String> {
    prop_oneof![
        4 => select(vec!["", "a", "A", "b", "1", "null", "é", "e\u{301}", "\0", "ab"]).prop_map(|x| x.to_string()),
        1 => proptest::collection::vec(select(vec!['a', 'b', '\0', 'é', '\'', '1']), 0..5).prop_map(|v| v.into_iter().collect()),
    ]
    .boxed()
}

pub fn json_strategy() -> BoxedStrategy<JS> {
    let finite = vec![0.0f64, -0.0, 1.0, -1.0, 1.5, 2.0, 1e300, 5e-324].into_iter().map(|x| x.to_bits()).collect::<Vec<_>>();
    let leaf = prop_oneof![
        1 => Just(JS::Null),
        1 => any::<bool>().prop_map(JS::Bool),
        3 => select(vec![-1i64, 0, 1, 2, i64::MIN, i64::MAX]).prop_map(JS::I),
        2 => select(vec![0u64, 1, 2, u64::MAX]).prop_map(JS::U),
        3 => select(finite).prop_map(JS::F),
        2 => select(vec!["", "a", "b", "1", "null", "é"]).prop_map(|x| JS::S(x.to_string())),
        1 => select(vec!["1e0", "-0", "1.0", "[ ]", "{\"a\":1 , \"a\":2}", "\"\\u0061\""]).prop_map(|x| JS::Raw(x.to_string())),
    ];
    leaf.prop_recursive(3, 16, 4, |inner| {
        prop_oneof![
            proptest::collection::vec(inner.clone(), 0..4).prop_map(JS::A),
            proptest::collection::vec((select(vec!["a", "b", "c", ""]).prop_map(|k| k.to_string()), inner), 0..4).prop_map(JS::O),
        ]
    })
    .boxed()
}

fn ymd_strategy() -> BoxedStrategy<Ymd> {
    (select(vec![-9999, -1, 0, 1, 1969, 1970, 2000, 2024, 9999]), 1u8..=12, select(vec![1u8, 2, 28]))
        .prop_map(|(y, m, d)| Ymd { y, m, d })
        .boxed()
}

fn tm_strategy(leap_ok: bool) -> BoxedStrategy<Tm> {
    (
        prop_oneof![select(vec![0u32, 1, 59, 3599, 43_200, 86_399]), 0u32..86_400],
        select(vec![0u32, 1, 500_000_000, 999_999_999]),
        any::<bool>(),
    )
        .prop_map(move |(s, n, l)| Tm::new(s, n, l && leap_ok))
        .boxed()
}

fn inst_strategy() -> BoxedStrategy<Inst> {
    (
        prop_oneof![
            3 => select(vec![0i64, -1, 1, 3600, -3600, 86_399, -86_400, 951_696_000, 1_000_000_000, 8_000_000_000, -8_000_000_000]),
            1 => -10_000_000_000i64..10_000_000_000,
        ],
        select(vec![0u32, 1, 5, 999_999_999]),
    )
        .prop_map(|(secs, nanos)| Inst { secs, nanos })
        .boxed()
}

fn off_strategy() -> BoxedStrategy<i32> {
    select(vec![0, 1, 3600, -3600, 19_800, -34_200, 86_399, -86_399]).boxed()
}

fn dec_strategy() -> BoxedStrategy<Dec> {
    prop_oneof![
        6 => (0u128..200, 0u32..4, any::<bool>(), 0u32..6).prop_map(|(m, z, neg, extra)| {
            // m * 10^z with scale z + extra: the same number under different scales
            let zz = z + extra.min(3);
            dec(m * 10u128.pow(zz), neg, zz + (extra / 4))
        }),
        2 => (0u128..2000, any::<bool>(), 0u32..=28).prop_map(|(m, neg, sc)| dec(m, neg, sc)),
        1 => (any::<u32>(), any::<u32>(), any::<u32>(), any::<bool>(), 0u32..=28)
            .prop_map(|(lo, mid, hi, neg, scale)| Dec { lo, mid, hi, neg, scale }),
    ]
    .boxed()
}

fn bigdec_strategy() -> BoxedStrategy<BigDec> {
    prop_oneof![
        6 => (0u64..200, 0usize..5, any::<bool>(), -4i64..5).prop_map(|(m, z, neg, sc)| BigDec {
            digits: format!("{}{}{}", if neg { "-" } else { "" }, m, "0".repeat(z)),
            scale: z as i64 + sc,
        }),
        1 => (proptest::collection::vec(0u8..10, 1..50), any::<bool>(), -60i64..60).prop_map(|(d, neg, scale)| BigDec {
            digits: format!("{}{}", if neg { "-" } else { "" }, d.iter().map(|x| (b'0' + x) as char).collect::<String>()),
            scale,
        }),
    ]
    .boxed()
}

fn ip_strategy() -> BoxedStrategy<Ip> {
    prop_oneof![
        (prop_oneof![select(vec![0u32, 0x0a00_0000, 0x0a00_0001, 0x7f00_0001, u32::MAX]), any::<u32>()], select(vec![0u8, 8, 24, 32]))
            .prop_map(|(a, p)| Ip::V4(a, p)),
        (select(vec![0u64, 0xfe80_0000_0000_0000, u64::MAX]), select(vec![0u64, 1, 0xffff_0a00_0000, u64::MAX]), select(vec![0u8, 64, 104, 128]))
            .prop_map(|(h, l, p)| Ip::V6(h, l, p)),
    ]
    .boxed()
}

macro_rules! small_int {
    ($t:ty) => {
        prop_oneof![4 => select(vec![0 as $t, 1, 2, <$t>::MIN, <$t>::MAX]), 1 => any::<$t>()]
    };
}

/// Strategy for the non-array variant number `v` (0..=30, the order of `Spec` without `Array`).
fn leaf_of(v: usize) -> BoxedStrategy<Spec> {
    match v {
        0 => opt(any::<bool>()).prop_map(Spec::Bool).boxed(),
        1 => opt(small_int!(i8)).prop_map(Spec::TinyInt).boxed(),
        2 => opt(small_int!(i16)).prop_map(Spec::SmallInt).boxed(),
        3 => opt(small_int!(i32)).prop_map(Spec::Int).boxed(),
        4 => opt(small_int!(i64)).prop_map(Spec::BigInt).boxed(),
        5 => opt(small_int!(u8)).prop_map(Spec::TinyUnsigned).boxed(),
        6 => opt(small_int!(u16)).prop_map(Spec::SmallUnsigned).boxed(),
        7 => opt(small_int!(u32)).prop_map(Spec::Unsigned).boxed(),
        8 => opt(small_int!(u64)).prop_map(Spec::BigUnsigned).boxed(),
        9 => opt(f32_bits()).prop_map(Spec::Float).boxed(),
        10 => opt(f64_bits()).prop_map(Spec::Double).boxed(),
        11 => opt(small_string()).prop_map(Spec::String).boxed(),
        12 => opt(select(vec!['a', 'A', 'b', '1', '\0', 'é', '\u{10ffff}'])).prop_map(Spec::Char).boxed(),
        13 => opt(proptest::collection::vec(select(vec![0u8, 1, 97, 98, 255]), 0..4)).prop_map(Spec::Bytes).boxed(),
        14 => opt(json_strategy()).prop_map(Spec::Json).boxed(),
        15 => opt(ymd_strategy()).prop_map(Spec::ChronoDate).boxed(),
        16 => opt(tm_strategy(true)).prop_map(Spec::ChronoTime).boxed(),
        17 => opt((ymd_strategy(), tm_strategy(true))).prop_map(Spec::ChronoDateTime).boxed(),
        18 => opt(inst_strategy()).prop_map(Spec::ChronoDateTimeUtc).boxed(),
        19 => opt(inst_strategy()).prop_map(Spec::ChronoDateTimeLocal).boxed(),
        20 => opt((inst_strategy(), off_strategy())).prop_map(Spec::ChronoDateTimeWithTimeZone).boxed(),
        21 => opt(ymd_strategy()).prop_map(Spec::TimeDate).boxed(),
        22 => opt(tm_strategy(false)).prop_map(Spec::TimeTime).boxed(),
        23 => opt((ymd_strategy(), tm_strategy(false))).prop_map(Spec::TimeDateTime).boxed(),
        24 => opt((inst_strategy(), off_strategy())).prop_map(Spec::TimeDateTimeWithTimeZone).boxed(),
        25 => opt((select(vec![0u64, 1, u64::MAX]), prop_oneof![select(vec![0u64, 1, u64::MAX]), any::<u64>()])).prop_map(Spec::Uuid).boxed(),
        26 => opt(dec_strategy()).prop_map(Spec::Decimal).boxed(),
        27 => opt(bigdec_strategy()).prop_map(Spec::BigDecimal).boxed(),
        28 => opt(proptest::collection::vec(f32_bits(), 0..4)).prop_map(Spec::Vector).boxed(),
        29 => opt(ip_strategy()).prop_map(Spec::IpNetwork).boxed(),
        _ => opt(prop_oneof![select(vec![[0u8; 6], [0xff; 6], [1, 2, 3, 4, 5, 6]]), any::<[u8; 6]>()]).prop_map(Spec::MacAddress).boxed(),
    }
}

pub const N_LEAF: usize = 31;

/// variants whose equality is not plain bit identity get more weight
fn leaf_any() -> BoxedStrategy<Spec> {
    let rich: Vec<usize> = vec![9, 10, 14, 20, 24, 26, 27, 28];
    prop_oneof![
        1 => (0..N_LEAF).prop_flat_map(leaf_of),
        1 => select(rich).prop_flat_map(leaf_of),
    ]
    .boxed()
}

fn array_strategy() -> BoxedStrategy<Spec> {
    // elements are drawn from one leaf variant most of the time (as real arrays are), array type is free
    let elems = |depth: u32| -> BoxedStrategy<Vec<Spec>> {
        let leafs = prop_oneof![
            4 => (0..N_LEAF).prop_flat_map(|v| proptest::collection::vec(leaf_of(v), 0..4)),
            1 => proptest::collection::vec(leaf_any(), 0..4),
        ];
        if depth == 0 {
            leafs.boxed()
        } else {
            let inner = (select(ARR_TYPES.to_vec()), opt(proptest::collection::vec(leaf_of(3), 0..3))).prop_map(|(t, e)| Spec::Array(t, e));
            prop_oneof![3 => leafs, 1 => proptest::collection::vec(inner, 0..3)].boxed()
        }
    };
    (prop_oneof![2 => select(vec![ArrTy::Int, ArrTy::BigInt, ArrTy::Float]), 1 => select(ARR_TYPES.to_vec())], opt(elems(1)))
        .prop_map(|(t, e)| Spec::Array(t, e))
        .boxed()
}

/// variant number 0..32 in `Spec` order (28 = Array)
pub fn spec_of(v: usize) -> BoxedStrategy<Spec> {
    match v {
        0..=27 => leaf_of(v),
        28 => array_strategy(),
        29 => leaf_of(28),
        30 => leaf_of(29),
        _ => leaf_of(30),
    }
}

pub fn any_spec() -> BoxedStrategy<Spec> {
    prop_oneof![5 => leaf_any(), 1 => array_strategy()].boxed()
}

/// A value that is *meant* to be equal to `a` without being identical, or to differ from it only in the
/// variant. Only steers generation — the verdict always comes from `payload_eq`.
pub fn sibling(a: &Spec, k: u16) -> Spec {
    let k32 = k as u32;
    match a {
        Spec::Float(Some(b)) if f32::from_bits(*b).is_nan() => Spec::Float(Some(0x7f80_0001 | (k32 << 7) | ((k32 & 1) << 31))),
        Spec::Float(Some(b)) if *b << 1 == 0 => Spec::Float(Some(b ^ 0x8000_0000)),
        Spec::Float(Some(b)) => Spec::Double(Some((f32::from_bits(*b) as f64).to_bits())),
        Spec::Double(Some(b)) if f64::from_bits(*b).is_nan() => {
            Spec::Double(Some(0x7ff0_0000_0000_0001 | ((k as u64) << 30) | (((k & 1) as u64) << 63)))
        }
        Spec::Double(Some(b)) if *b << 1 == 0 => Spec::Double(Some(b ^ (1 << 63))),
        Spec::Double(Some(b)) => Spec::Float(Some((f64::from_bits(*b) as f32).to_bits())),
        Spec::Int(v) => {
            if k & 1 == 0 {
                Spec::BigInt(v.map(|x| x as i64))
            } else {
                Spec::Unsigned(v.map(|x| x as u32))
            }
        }
        Spec::BigInt(v) => Spec::Int(v.map(|x| x as i32)),
        Spec::TinyInt(v) => Spec::SmallInt(v.map(|x| x as i16)),
        Spec::SmallInt(v) => Spec::Int(v.map(|x| x as i32)),
        Spec::TinyUnsigned(v) => Spec::TinyInt(v.map(|x| x as i8)),
        Spec::SmallUnsigned(v) => Spec::Unsigned(v.map(|x| x as u32)),
        Spec::Unsigned(v) => Spec::BigUnsigned(v.map(|x| x as u64)),
        Spec::BigUnsigned(v) => Spec::BigInt(v.map(|x| x as i64)),
        Spec::Bool(v) => Spec::TinyInt(v.map(|x| x as i8)),
        Spec::String(Some(t)) => match (k % 3, t.chars().count()) {
            (0, 1) => Spec::Char(t.chars().next()),
            (1, _) => Spec::Bytes(Some(t.as_bytes().to_vec())),
            _ => Spec::Json(Some(JS::S(t.clone()))),
        },
        Spec::Char(v) => Spec::String(v.map(|c| c.to_string())),
        Spec::Bytes(Some(b)) => Spec::String(Some(String::from_utf8_lossy(b).into_owned())),
        Spec::Json(Some(j)) => Spec::Json(Some(json_sibling(j, k))),
        Spec::ChronoDate(v) => Spec::TimeDate(v.clone()),
        Spec::TimeDate(v) => Spec::ChronoDate(v.clone()),
        Spec::ChronoTime(v) => Spec::TimeTime(v.as_ref().map(|t| Tm::new(t.secs, t.nanos, false))),
        Spec::TimeTime(v) => Spec::ChronoTime(v.clone()),
        Spec::ChronoDateTime(v) => Spec::TimeDateTime(v.as_ref().map(|(d, t)| (d.clone(), Tm::new(t.secs, t.nanos, false)))),
        Spec::TimeDateTime(v) => Spec::ChronoDateTime(v.clone()),
        Spec::ChronoDateTimeUtc(v) => Spec::ChronoDateTimeLocal(v.clone()),
        Spec::ChronoDateTimeLocal(v) => Spec::ChronoDateTimeUtc(v.clone()),
        Spec::ChronoDateTimeWithTimeZone(Some((i, o))) => {
            if k % 4 == 0 {
                Spec::TimeDateTimeWithTimeZone(Some((i.clone(), *o)))
            } else {
                Spec::ChronoDateTimeWithTimeZone(Some((i.clone(), (*o + 1800 * (k as i32 % 7 + 1)) % 86_400)))
            }
        }
        Spec::TimeDateTimeWithTimeZone(Some((i, o))) => {
            if k % 4 == 0 {
                Spec::ChronoDateTimeWithTimeZone(Some((i.clone(), *o)))
            } else {
                Spec::TimeDateTimeWithTimeZone(Some((i.clone(), (*o - 1800 * (k as i32 % 7 + 1)) % 86_400)))
            }
        }
        Spec::Decimal(Some(d)) => {
            // rescale by one digit when the mantissa allows it
            let m = (d.lo as u128) | ((d.mid as u128) << 32) | ((d.hi as u128) << 64);
            if d.scale < 28 && m < (1u128 << 92) {
                Spec::Decimal(Some(dec(m * 10, d.neg, d.scale + 1)))
            } else if m == 0 {
                Spec::Decimal(Some(dec(0, !d.neg, (k32 % 29).min(28))))
            } else if m % 10 == 0 && d.scale > 0 {
                Spec::Decimal(Some(dec(m / 10, d.neg, d.scale - 1)))
            } else {
                Spec::BigDecimal(Some(BigDec { digits: format!("{}{}", if d.neg { "-" } else { "" }, m), scale: d.scale as i64 }))
            }
        }
        Spec::BigDecimal(Some(d)) => {
            let z = (k % 4) as usize + 1;
            Spec::BigDecimal(Some(BigDec { digits: format!("{}{}", d.digits, "0".repeat(z)), scale: d.scale + z as i64 }))
        }
        Spec::Array(t, e) => {
            let other = ARR_TYPES[(k as usize) % ARR_TYPES.len()];
            if k % 3 == 0 && other != *t {
                Spec::Array(other, e.clone())
            } else {
                Spec::Array(*t, e.as_ref().map(|v| v.iter().map(|x| sibling_same_variant(x, k)).collect()))
            }
        }
        Spec::Vector(Some(v)) => Spec::Vector(Some(v.iter().map(|b| match sibling_same_variant(&Spec::Float(Some(*b)), k) {
            Spec::Float(Some(x)) => x,
            _ => *b,
        }).collect())),
        // NULLs: the NULL of another variant
        other if other.is_null() => match other {
            Spec::Int(None) => Spec::BigInt(None),
            Spec::Float(None) => Spec::Double(None),
            Spec::Json(None) => Spec::Json(Some(JS::Null)),
            Spec::String(None) => Spec::String(Some("null".into())),
            _ => Spec::Int(None),
        },
        other => other.clone(),
    }
}

/// like `sibling`, but never leaves the variant
fn sibling_same_variant(a: &Spec, k: u16) -> Spec {
    let b = sibling(a, k);
    if b.tag() == a.tag() {
        b
    } else {
        a.clone()
    }
}

fn json_sibling(j: &JS, k: u16) -> JS {
    match j {
        JS::O(m) => {
            let mut m: Vec<(String, JS)> = m.iter().map(|(key, v)| (key.clone(), json_sibling(v, k))).collect();
            // keep "last one wins" intact: drop overwritten members before reversing
            let mut seen = std::collections::BTreeSet::new();
            let mut dedup = vec![];
            for (key, v) in m.drain(..).rev() {
                if seen.insert(key.clone()) {
                    dedup.push((key, v));
                }
            }
            JS::O(dedup)
        }
        JS::A(v) => JS::A(v.iter().map(|x| json_sibling(x, k)).collect()),
        JS::I(i) if *i >= 0 => JS::U(*i as u64),
        JS::U(u) if *u <= i64::MAX as u64 => JS::I(*u as i64),
        JS::F(b) if *b << 1 == 0 => JS::F(b ^ (1 << 63)),
        JS::F(b) => JS::Raw(format!("{:e}", f64::from_bits(*b))),
        JS::S(t) => JS::Raw(serde_json::to_string(t).unwrap_or_default()),
        other => other.clone(),
    }
}

#[derive(serde::Serialize, serde::Deserialize, Clone, Debug, PartialEq, Eq, Hash)]
pub struct PairSpec {
    pub a: Spec,
    pub b: Spec,
}

pub fn pair_strategy() -> BoxedStrategy<PairSpec> {
    prop_oneof![
        1 => (any_spec(), any_spec()).prop_map(|(a, b)| PairSpec { a, b }),
        3 => (0..N_VARIANTS).prop_flat_map(|v| (spec_of(v), spec_of(v))).prop_map(|(a, b)| PairSpec { a, b }),
        1 => any_spec().prop_map(|a| PairSpec { a: a.clone(), b: a }),
        4 => (any_spec(), any::<u16>(), any::<bool>()).prop_map(|(a, k, swap)| {
            let b = sibling(&a, k);
            if swap { PairSpec { a: b, b: a } } else { PairSpec { a, b } }
        }),
    ]
    .boxed()
}

#[derive(serde::Serialize, serde::Deserialize, Clone, Debug, PartialEq, Eq, Hash)]
pub struct TupleCase {
    pub a: Vec<Spec>,
    pub b: Vec<Spec>,
    /// use `ValueTuple::Many` even when the length is 1..=3
    pub many_a: bool,
    pub many_b: bool,
}

pub fn tuple_strategy() -> BoxedStrategy<TupleCase> {
    // per position: a value, and how the other side relates to it
    let pos = (any_spec(), 0u8..10, any::<u16>(), any_spec());
    (proptest::collection::vec(pos, 0..6), 0u8..8, 0u8..8, 0u8..10)
        .prop_map(|(ps, ma, mb, cut)| {
            let mut a = vec![];
            let mut b = vec![];
            for (x, rel, k, other) in ps {
                let y = match rel {
                    0..=3 => x.clone(),
                    4..=7 => sibling(&x, k),
                    _ => other,
                };
                a.push(x);
                b.push(y);
            }
            if cut == 0 && !b.is_empty() {
                b.pop();
            }
            let many_a = ma == 0;
            TupleCase { a, b, many_a, many_b: if mb == 0 { !many_a } else { many_a } }
        })
        .boxed()
}

#[derive(serde::Serialize, serde::Deserialize, Clone, Debug, PartialEq, Eq, Hash)]
pub struct SetCase {
    pub keys: Vec<Spec>,
}

pub fn set_strategy() -> BoxedStrategy<SetCase> {
    let same_variant = (0..N_VARIANTS).prop_flat_map(|v| proptest::collection::vec(spec_of(v), 1..10));
    let with_siblings = proptest::collection::vec((any_spec(), any::<u16>()), 1..6)
        .prop_map(|v| v.into_iter().flat_map(|(a, k)| vec![sibling(&a, k), a]).collect::<Vec<_>>());
    prop_oneof![3 => same_variant, 3 => with_siblings, 1 => proptest::collection::vec(any_spec(), 1..10)]
        .prop_map(|keys| SetCase { keys })
        .boxed()
}
