//! C20 — with `thread-safe`, every builder and statement type is `Send + Sync`.
//!
//! A property over programs x configurations; the oracle is the Rust compiler.
//!
//! * Domain: the public `struct|enum|type|union` items are *scanned from the tree* (`$SQV_REPO/src`,
//!   default `/repo`); for every item the candidate public paths `sea_query::…::Name` are tried by the
//!   compiler (a generated crate of `pub use` lines), generic items are instantiated from a small table.
//!   A few composite programs are added (`Box<dyn Iden>`, tuples of `DynIden`, user types made with
//!   `#[derive(Iden)]` / `#[enum_def]`, futures that hold a statement across an await point).
//! * Oracle: for every feature configuration a crate with one `fn t_<n>()` per type is generated, holding
//!   `_send::<T>()` and `_sync::<T>()` on separate lines, and checked with
//!   `cargo check --message-format=json` against the working tree. `E0277 … cannot be sent/shared
//!   between threads safely` on a line is a violation for that (type, configuration); any other error on
//!   a line is a domain problem (the type is dropped, counted as discarded, and the program is compiled
//!   again without it).
//! * Negative control: the same program without `thread-safe` must fail, at least at every type that the
//!   scan predicts to contain a `DynIden`; the types that fail in the control are the non-trivial ones.
//! * Dynamic companion: a generated binary (built with `thread-safe`) builds statements on one thread,
//!   renders them there, then moves / shares / awaits them on other threads and compares renderings.
//!
//! Cargo trouble (timeouts, failures without diagnostics, a tree that does not build) is reported as
//! inconclusive, never as a violation.

use crate::runner::*;
use serde::{Deserialize, Serialize};
use serde_json::{json, Value as J};
use std::collections::{BTreeMap, BTreeSet};
use std::io::Read;
use std::path::{Path, PathBuf};
use std::process::{Command, Stdio};
use std::time::{Duration, Instant};

// ------------------------------------------------------------------------------------------------
// cases

#[derive(Serialize, Deserialize, Clone, Debug, PartialEq, Eq)]
pub struct Case {
    /// cargo features of sea-query for the generated crate
    pub config: Vec<String>,
    /// display names of the asserted types (`SelectStatement`, `SeaRc<dyn Iden>`, `extension::postgres::Type`, ...)
    pub types: Vec<String>,
}

#[derive(Serialize, Deserialize, Clone, Debug, PartialEq, Eq)]
pub struct DynCase {
    pub stmt: String,
    pub mode: String,
}

const BASE: [&str; 6] = ["backend-mysql", "backend-postgres", "backend-sqlite", "derive", "attr", "tests-cfg"];

fn features(extra: &[&str]) -> Vec<String> {
    BASE.iter().chain(extra.iter()).map(|s| s.to_string()).collect()
}

/// short, stable name of a configuration (used in signatures and directory names)
pub fn config_name(features: &[String]) -> String {
    let abbr = |f: &String| -> String {
        if f == "thread-safe" {
            "ts".to_string()
        } else {
            f.strip_prefix("backend-").unwrap_or(f).to_string()
        }
    };
    if BASE.iter().all(|b| features.iter().any(|f| f == b)) {
        // the usual base (three backends, derive, attr, tests-cfg) is left out of the name
        let parts: Vec<String> = features.iter().filter(|f| !BASE.contains(&f.as_str())).map(abbr).collect();
        if parts.is_empty() {
            "plain".to_string()
        } else {
            parts.join("+")
        }
    } else {
        // reduced base: every feature is named
        let parts: Vec<String> = features.iter().map(abbr).collect();
        format!("min.{}", if parts.is_empty() { "none".to_string() } else { parts.join("+") })
    }
}

fn has(features: &[String], f: &str) -> bool {
    features.iter().any(|x| x == f)
}

// ------------------------------------------------------------------------------------------------
// scanning the tree

#[derive(Clone, Debug)]
pub struct Item {
    pub name: String,
    pub kind: String,
    pub module: Vec<String>,
    pub file: String,
    pub line: usize,
    /// names of the type parameters (lifetimes start with a quote, consts with "const ")
    pub params: Vec<String>,
    pub idents: BTreeSet<String>,
    pub cfg: Vec<String>,
}

/// blank out comments, string and char literals; newlines are kept so that line numbers survive
fn clean_source(src: &str) -> Vec<char> {
    let c: Vec<char> = src.chars().collect();
    let n = c.len();
    let mut out = c.clone();
    let blank = |out: &mut Vec<char>, a: usize, b: usize| {
        for k in a..b.min(out.len()) {
            if out[k] != '\n' {
                out[k] = ' ';
            }
        }
    };
    let is_ident = |ch: char| ch.is_alphanumeric() || ch == '_';
    let mut i = 0;
    while i < n {
        let ch = c[i];
        if ch == '/' && i + 1 < n && c[i + 1] == '/' {
            let mut j = i;
            while j < n && c[j] != '\n' {
                j += 1;
            }
            blank(&mut out, i, j);
            i = j;
        } else if ch == '/' && i + 1 < n && c[i + 1] == '*' {
            let mut depth = 1;
            let mut j = i + 2;
            while j < n && depth > 0 {
                if c[j] == '/' && j + 1 < n && c[j + 1] == '*' {
                    depth += 1;
                    j += 2;
                } else if c[j] == '*' && j + 1 < n && c[j + 1] == '/' {
                    depth -= 1;
                    j += 2;
                } else {
                    j += 1;
                }
            }
            blank(&mut out, i, j);
            i = j;
        } else if ch == '"' {
            let mut j = i + 1;
            while j < n && c[j] != '"' {
                if c[j] == '\\' {
                    j += 1;
                }
                j += 1;
            }
            blank(&mut out, i, j + 1);
            i = j + 1;
        } else if (ch == 'r' || ch == 'b') && (i == 0 || !is_ident(c[i - 1])) {
            // raw strings r"..", r#".."#, br#".."#; byte strings b".." fall through to the '"' arm
            let mut j = i;
            if c[j] == 'b' && j + 1 < n && c[j + 1] == 'r' {
                j += 1;
            }
            if c[j] == 'r' {
                let mut k = j + 1;
                let mut hashes = 0;
                while k < n && c[k] == '#' {
                    hashes += 1;
                    k += 1;
                }
                if k < n && c[k] == '"' && (hashes > 0 || j + 1 == k) {
                    // find closing quote followed by `hashes` hashes
                    let mut m = k + 1;
                    'outer: while m < n {
                        if c[m] == '"' {
                            let mut h = 0;
                            while h < hashes && m + 1 + h < n && c[m + 1 + h] == '#' {
                                h += 1;
                            }
                            if h == hashes {
                                m += 1 + hashes;
                                break 'outer;
                            }
                        }
                        m += 1;
                    }
                    blank(&mut out, i, m);
                    i = m;
                    continue;
                }
            }
            i += 1;
        } else if ch == '\'' {
            // char literal or lifetime
            if i + 1 < n && c[i + 1] == '\\' {
                let mut j = i + 2;
                while j < n && c[j] != '\'' {
                    j += 1;
                }
                blank(&mut out, i, j + 1);
                i = j + 1;
            } else if i + 2 < n && c[i + 2] == '\'' {
                blank(&mut out, i, i + 3);
                i += 3;
            } else {
                i += 1;
            }
        } else {
            i += 1;
        }
    }
    out
}

#[derive(Clone, Debug)]
struct Tok {
    t: String,
    line: usize,
}

fn tokenise(clean: &[char]) -> Vec<Tok> {
    let mut v = vec![];
    let mut line = 1;
    let n = clean.len();
    let mut i = 0;
    while i < n {
        let ch = clean[i];
        if ch == '\n' {
            line += 1;
            i += 1;
        } else if ch.is_whitespace() {
            i += 1;
        } else if ch.is_alphanumeric() || ch == '_' {
            let mut j = i;
            while j < n && (clean[j].is_alphanumeric() || clean[j] == '_') {
                j += 1;
            }
            v.push(Tok { t: clean[i..j].iter().collect(), line });
            i = j;
        } else if ch == '\'' {
            let mut j = i + 1;
            while j < n && (clean[j].is_alphanumeric() || clean[j] == '_') {
                j += 1;
            }
            v.push(Tok { t: clean[i..j].iter().collect(), line });
            i = j.max(i + 1);
        } else {
            v.push(Tok { t: ch.to_string(), line });
            i += 1;
        }
    }
    v
}

fn module_of_file(rel: &str) -> Option<Vec<String>> {
    // rel is relative to src/, e.g. "query/select.rs", "lib.rs", "backend/mod.rs"
    let p = rel.strip_suffix(".rs")?;
    let mut parts: Vec<String> = p.split('/').map(|s| s.to_string()).collect();
    match parts.last().map(|s| s.as_str()) {
        Some("lib") if parts.len() == 1 => return Some(vec![]),
        Some("main") if parts.len() == 1 => return None,
        Some("mod") => {
            parts.pop();
        }
        _ => {}
    }
    Some(parts)
}

fn scan_file(rel: &str, text: &str, out: &mut Vec<Item>) {
    let Some(base_mod) = module_of_file(rel) else { return };
    let toks = tokenise(&clean_source(text));
    let n = toks.len();
    let mut depth: i32 = 0;
    let mut mods: Vec<(String, i32)> = vec![];
    let mut i = 0;
    while i < n {
        let t = toks[i].t.as_str();
        if t == "{" {
            depth += 1;
        } else if t == "}" {
            depth -= 1;
            while mods.last().map(|m| m.1 > depth).unwrap_or(false) {
                mods.pop();
            }
        }
        let mod_depth = mods.last().map(|m| m.1).unwrap_or(0);
        if depth == mod_depth {
            if t == "mod" && i + 2 < n && toks[i + 2].t == "{" {
                mods.push((toks[i + 1].t.clone(), depth + 1));
            } else if t == "pub" && i + 2 < n {
                let (kind, name_at) = match toks[i + 1].t.as_str() {
                    k @ ("struct" | "enum" | "type" | "union" | "trait") => (k.to_string(), i + 2),
                    "unsafe" if toks[i + 2].t == "trait" => ("trait".to_string(), i + 3),
                    _ => (String::new(), 0),
                };
                if !kind.is_empty() && name_at < n {
                    let name = toks[name_at].t.clone();
                    let mut j = name_at + 1;
                    let mut idents = BTreeSet::new();
                    let mut params = vec![];
                    // generics
                    if j < n && toks[j].t == "<" {
                        let mut d = 0;
                        let mut cur: Vec<String> = vec![];
                        let mut groups: Vec<Vec<String>> = vec![];
                        while j < n {
                            let tt = toks[j].t.as_str();
                            if tt == "<" {
                                d += 1;
                                if d > 1 {
                                    cur.push(tt.into());
                                }
                            } else if tt == ">" && j > 0 && toks[j - 1].t != "-" {
                                d -= 1;
                                if d == 0 {
                                    groups.push(std::mem::take(&mut cur));
                                    j += 1;
                                    break;
                                }
                                cur.push(tt.into());
                            } else if tt == "," && d == 1 {
                                groups.push(std::mem::take(&mut cur));
                            } else {
                                cur.push(tt.into());
                            }
                            j += 1;
                        }
                        for g in groups {
                            if g.is_empty() {
                                continue;
                            }
                            if g[0].starts_with('\'') {
                                params.push(g[0].clone());
                            } else if g[0] == "const" && g.len() > 1 {
                                params.push(format!("const {}", g[1]));
                            } else {
                                params.push(g[0].clone());
                            }
                            for x in &g[1..] {
                                idents.insert(x.clone());
                            }
                        }
                    }
                    // body: up to `;` at relative depth 0, or the matching `}` of the first `{` at depth 0
                    let mut rel_depth = 0i32;
                    let mut brace_body = false;
                    while j < n {
                        let tt = toks[j].t.as_str();
                        match tt {
                            "(" | "[" => rel_depth += 1,
                            ")" | "]" => rel_depth -= 1,
                            "{" => {
                                rel_depth += 1;
                                brace_body = true;
                            }
                            "}" => {
                                rel_depth -= 1;
                                if rel_depth == 0 && brace_body {
                                    break;
                                }
                            }
                            ";" if rel_depth == 0 => break,
                            _ => {
                                if tt.chars().next().map(|c| c.is_alphabetic() || c == '_').unwrap_or(false) {
                                    idents.insert(tt.to_string());
                                }
                            }
                        }
                        j += 1;
                    }
                    // attributes in front: walk back over `#[ ... ]` groups
                    let mut cfg = vec![];
                    let mut k = i;
                    while k >= 1 && toks[k - 1].t == "]" {
                        let mut d = 0;
                        let mut m = k - 1;
                        loop {
                            if toks[m].t == "]" {
                                d += 1;
                            } else if toks[m].t == "[" {
                                d -= 1;
                                if d == 0 {
                                    break;
                                }
                            }
                            if m == 0 {
                                break;
                            }
                            m -= 1;
                        }
                        if m >= 1 && toks[m - 1].t == "#" {
                            if toks.get(m + 1).map(|t| t.t == "cfg").unwrap_or(false) {
                                cfg.push(toks[m + 1..k - 1].iter().map(|t| t.t.as_str()).collect::<Vec<_>>().join(" "));
                            }
                            k = m - 1;
                        } else {
                            break;
                        }
                    }
                    let mut module = base_mod.clone();
                    module.extend(mods.iter().map(|m| m.0.clone()));
                    out.push(Item { name, kind, module, file: format!("src/{rel}"), line: toks[i].line, params, idents, cfg });
                }
            }
        }
        i += 1;
    }
}

fn walk(dir: &Path, rel: &str, out: &mut Vec<(String, PathBuf)>) -> Result<(), String> {
    let rd = std::fs::read_dir(dir).map_err(|e| format!("{}: {e}", dir.display()))?;
    let mut entries: Vec<_> = rd.filter_map(|e| e.ok()).collect();
    entries.sort_by_key(|e| e.file_name());
    for e in entries {
        let name = e.file_name().to_string_lossy().to_string();
        let p = e.path();
        let r = if rel.is_empty() { name.clone() } else { format!("{rel}/{name}") };
        if p.is_dir() {
            walk(&p, &r, out)?;
        } else if name.ends_with(".rs") {
            out.push((r, p));
        }
    }
    Ok(())
}

/// all `pub struct|enum|type|union|trait` items at module level, merged over cfg alternatives
pub fn scan_tree(repo: &Path) -> Result<Vec<Item>, String> {
    let mut files = vec![];
    walk(&repo.join("src"), "", &mut files)?;
    let mut raw = vec![];
    for (rel, p) in files {
        let text = std::fs::read_to_string(&p).map_err(|e| format!("{}: {e}", p.display()))?;
        scan_file(&rel, &text, &mut raw);
    }
    let mut merged: BTreeMap<(Vec<String>, String), Item> = BTreeMap::new();
    for it in raw {
        let key = (it.module.clone(), it.name.clone());
        match merged.get_mut(&key) {
            Some(prev) => {
                prev.idents.extend(it.idents);
                prev.cfg.extend(it.cfg);
            }
            None => {
                merged.insert(key, it);
            }
        }
    }
    Ok(merged.into_values().collect())
}

/// names of scanned items predicted (by field mention, transitively) to contain an `Rc`-or-`Arc` identifier
fn predict_iden_bearing(items: &[Item]) -> BTreeSet<String> {
    let mut pred: BTreeSet<String> = BTreeSet::new();
    for it in items {
        if it.kind == "trait" {
            continue;
        }
        if it.idents.contains("Rc") || (it.idents.contains("dyn") && it.idents.contains("Iden")) {
            pred.insert(it.name.clone());
        }
    }
    loop {
        let mut grew = false;
        for it in items {
            if it.kind == "trait" || pred.contains(&it.name) {
                continue;
            }
            if it.idents.iter().any(|x| pred.contains(x)) {
                pred.insert(it.name.clone());
                grew = true;
            }
        }
        if !grew {
            break;
        }
    }
    pred
}

// ------------------------------------------------------------------------------------------------
// running cargo

pub struct Diag {
    pub level: String,
    pub code: Option<String>,
    pub message: String,
    pub rendered: String,
    pub target: String,
    pub line: Option<usize>,
    /// number of "required because it appears within the type" notes: distance from the offending field
    pub chain: usize,
}

pub struct CargoOut {
    pub success: bool,
    pub diags: Vec<Diag>,
    pub stderr_tail: String,
    pub finished: bool,
}

fn repo_path() -> PathBuf {
    PathBuf::from(std::env::var("SQV_REPO").unwrap_or_else(|_| "/repo".to_string()))
}

fn root_path() -> PathBuf {
    PathBuf::from(std::env::var("SQV_ROOT").unwrap_or_else(|_| "/verif".to_string()))
}

const CARGO_TIMEOUT_S: u64 = 1500;

fn run_cmd(mut cmd: Command, timeout: Duration) -> Result<(Option<i32>, String, String), String> {
    cmd.stdin(Stdio::null()).stdout(Stdio::piped()).stderr(Stdio::piped());
    let mut child = cmd.spawn().map_err(|e| format!("cannot start {:?}: {e}", cmd.get_program()))?;
    let mut so = child.stdout.take().unwrap();
    let mut se = child.stderr.take().unwrap();
    let h1 = std::thread::spawn(move || {
        let mut s = Vec::new();
        let _ = so.read_to_end(&mut s);
        String::from_utf8_lossy(&s).to_string()
    });
    let h2 = std::thread::spawn(move || {
        let mut s = Vec::new();
        let _ = se.read_to_end(&mut s);
        String::from_utf8_lossy(&s).to_string()
    });
    // the clock is used as a watchdog only; it never influences a verdict other than "inconclusive"
    let start = Instant::now();
    let status = loop {
        match child.try_wait() {
            Ok(Some(st)) => break st,
            Ok(None) => {
                if start.elapsed() > timeout {
                    let _ = child.kill();
                    let _ = child.wait();
                    return Err(format!("timeout after {} s", timeout.as_secs()));
                }
                std::thread::sleep(Duration::from_millis(50));
            }
            Err(e) => return Err(format!("wait failed: {e}")),
        }
    };
    let out = h1.join().unwrap_or_default();
    let err = h2.join().unwrap_or_default();
    Ok((status.code(), out, err))
}

fn cargo(dir: &Path, target_dir: &Path, sub: &str) -> Result<CargoOut, String> {
    let mut cmd = Command::new("cargo");
    cmd.arg(sub)
        .arg("--offline")
        .arg("--message-format=json")
        .current_dir(dir)
        .env("CARGO_TARGET_DIR", target_dir)
        .env("CARGO_NET_OFFLINE", "true")
        .env("CARGO_TERM_COLOR", "never")
        .env_remove("CARGO_BUILD_TARGET_DIR")
        .env_remove("RUSTC_WORKSPACE_WRAPPER");
    let (code, out, err) = run_cmd(cmd, Duration::from_secs(CARGO_TIMEOUT_S))?;
    let mut diags = vec![];
    let mut finished = false;
    let mut success = false;
    for l in out.lines() {
        let Ok(j) = serde_json::from_str::<J>(l) else { continue };
        match j["reason"].as_str() {
            Some("compiler-message") => {
                let m = &j["message"];
                let mut line = None;
                if let Some(spans) = m["spans"].as_array() {
                    for s in spans {
                        if s["is_primary"].as_bool() == Some(true) {
                            let f = s["file_name"].as_str().unwrap_or("");
                            if f == "src/lib.rs" || f == "src/main.rs" {
                                line = s["line_start"].as_u64().map(|x| x as usize);
                            }
                            break;
                        }
                    }
                }
                let chain = m["children"]
                    .as_array()
                    .map(|c| {
                        c.iter()
                            .filter(|x| x["message"].as_str().map(|s| s.starts_with("required because it appears within")).unwrap_or(false))
                            .count()
                    })
                    .unwrap_or(0);
                diags.push(Diag {
                    level: m["level"].as_str().unwrap_or("").to_string(),
                    code: m["code"]["code"].as_str().map(|s| s.to_string()),
                    message: m["message"].as_str().unwrap_or("").to_string(),
                    rendered: m["rendered"].as_str().unwrap_or("").to_string(),
                    target: j["target"]["name"].as_str().unwrap_or("").to_string(),
                    line,
                    chain,
                });
            }
            Some("build-finished") => {
                finished = true;
                success = j["success"].as_bool() == Some(true);
            }
            _ => {}
        }
    }
    let tail: Vec<&str> = err.lines().rev().take(12).collect();
    let stderr_tail = tail.into_iter().rev().collect::<Vec<_>>().join("\n");
    if code == Some(0) && !finished {
        success = true;
    }
    Ok(CargoOut { success: success && code == Some(0), diags, stderr_tail, finished })
}

fn write_crate(dir: &Path, pkg: &str, feats: &[String], main_file: &str, source: &str) -> Result<(), String> {
    let repo = repo_path();
    let _ = std::fs::remove_dir_all(dir);
    std::fs::create_dir_all(dir.join("src")).map_err(|e| format!("{}: {e}", dir.display()))?;
    std::fs::create_dir_all(dir.join(".cargo")).map_err(|e| e.to_string())?;
    let fl = feats.iter().map(|f| format!("\"{f}\"")).collect::<Vec<_>>().join(", ");
    let toml = format!(
        "[package]\nname = \"{pkg}\"\nversion = \"0.0.0\"\nedition = \"2021\"\npublish = false\n\n[workspace]\n\n[dependencies]\n\
sea-query = {{ path = \"{}\", default-features = false, features = [{fl}] }}\n\n[profile.dev]\ndebug = 0\nincremental = false\n",
        repo.display()
    );
    std::fs::write(dir.join("Cargo.toml"), toml).map_err(|e| e.to_string())?;
    std::fs::write(dir.join(".cargo/config.toml"), "[net]\noffline = true\n").map_err(|e| e.to_string())?;
    let lock = [repo.join("Cargo.lock"), PathBuf::from("/repo/Cargo.lock")];
    let mut copied = false;
    for l in lock {
        if l.is_file() {
            std::fs::copy(&l, dir.join("Cargo.lock")).map_err(|e| e.to_string())?;
            copied = true;
            break;
        }
    }
    if !copied {
        return Err("no Cargo.lock to copy (looked in $SQV_REPO and /repo)".into());
    }
    std::fs::write(dir.join("src").join(main_file), source).map_err(|e| e.to_string())?;
    Ok(())
}

// ------------------------------------------------------------------------------------------------
// the generated programs

#[derive(Clone, Debug)]
pub struct Entry {
    /// display name, unique
    pub name: String,
    /// scanned | composite | user | await-move | await-ref
    pub class: String,
    /// statement asserting Send (a full Rust statement)
    pub send: String,
    /// statement asserting Sync, if separate
    pub sync: Option<String>,
    /// simple names of scanned items this entry is about (for the control prediction)
    pub about: Vec<String>,
    /// true if the type arguments alone make it Iden-bearing
    pub args_bearing: bool,
}

const PRELUDE: &str = "#![allow(warnings)]\n\
fn _send<T: ?Sized + Send>() {}\n\
fn _sync<T: ?Sized + Sync>() {}\n\
fn _send_val<T: Send>(_: T) {}\n\
fn _mk<T>() -> T { unimplemented!() }\n\
async fn _yield() {}\n\
async fn _hold<T>(t: T) -> T { _yield().await; t }\n\
async fn _hold_ref<T>(t: &T) { _yield().await; let _ = t; }\n";

const USER_MOD: &str = "pub mod user {\n\
    use sea_query::Iden;\n\
    #[derive(Iden)]\n    pub enum Glyph { Table, Id, #[iden = \"img\"] Image }\n\
    #[derive(Iden)]\n    pub struct Unit;\n\
    #[sea_query::enum_def]\n    pub struct Foo { pub a: i32, pub b: String }\n\
    pub struct Manual(pub String);\n\
    impl Iden for Manual { fn unquoted(&self, s: &mut dyn std::fmt::Write) { write!(s, \"{}\", self.0).unwrap(); } }\n\
}\n";

/// instantiations for generic items (by item name); anything else falls back to `Value` per parameter
fn generic_table(name: &str) -> Option<Vec<Vec<&'static str>>> {
    match name {
        "SeaRc" => Some(vec![vec!["dyn sea_query::Iden"], vec!["sea_query::Alias"]]),
        "RcOrArc" => Some(vec![vec!["dyn sea_query::Iden"], vec!["sea_query::SelectStatement"], vec!["str"]]),
        "Result" => Some(vec![vec!["()"], vec!["sea_query::SelectStatement"]]),
        _ => None,
    }
}

fn short(p: &str) -> String {
    p.replace("sea_query::", "")
}

/// candidate public paths of an item, shortest first
fn candidates(it: &Item) -> Vec<String> {
    let mut v = vec![];
    for k in 0..=it.module.len() {
        let mut p = String::from("sea_query");
        for m in &it.module[..k] {
            p.push_str("::");
            p.push_str(m);
        }
        p.push_str("::");
        p.push_str(&it.name);
        v.push(p);
    }
    v
}

pub struct Domain {
    pub entries: Vec<Entry>,
    /// scanned items that are not reachable in this configuration: (definition path, reason)
    pub unreachable: Vec<String>,
    pub generic_fallback: Vec<String>,
}

struct Workdir {
    gen: PathBuf,
    target: PathBuf,
}

/// Phase 1: let the compiler say which candidate paths exist in this configuration.
fn resolve_paths(items: &[Item], feats: &[String], wd: &Workdir, tag: &str) -> Result<BTreeMap<usize, String>, String> {
    let dup: BTreeSet<&str> = {
        let mut seen = BTreeSet::new();
        let mut d = BTreeSet::new();
        for it in items.iter().filter(|i| i.kind != "trait") {
            if !seen.insert(it.name.as_str()) {
                d.insert(it.name.as_str());
            }
        }
        d
    };
    let mut src = String::from("#![allow(warnings)]\n");
    let mut line = 2usize;
    let mut at: BTreeMap<usize, (usize, String)> = BTreeMap::new();
    let mut n = 0;
    for (idx, it) in items.iter().enumerate() {
        if it.kind == "trait" {
            continue;
        }
        let mut c = candidates(it);
        if dup.contains(it.name.as_str()) {
            // a simple name defined twice: the short paths may name the other item; prefer the full path
            c.reverse();
        }
        for p in &c {
            src.push_str(&format!("pub use {p} as R{n};\n"));
            at.insert(line, (idx, p.clone()));
            line += 1;
            n += 1;
        }
    }
    let dir = wd.gen.join(format!("{tag}-resolve"));
    write_crate(&dir, &format!("c20_{}_resolve", sig_clean(tag).replace(['-', '.', '/', ':'], "_")), feats, "lib.rs", &src)?;
    let out = cargo(&dir, &wd.target, "check")?;
    let mut bad: BTreeSet<usize> = BTreeSet::new();
    for d in &out.diags {
        if d.level != "error" {
            continue;
        }
        if !d.target.starts_with("c20_") {
            return Err(format!("the tree does not build in configuration {}: {}", config_name(feats), first_line(&d.rendered)));
        }
        if d.message.starts_with("aborting due to") {
            continue;
        }
        // E0432 / E0433 / E0603 / E0659 …: whatever the reason, this candidate path is not usable from outside
        match d.line {
            Some(l) if at.contains_key(&l) => {
                bad.insert(l);
            }
            _ => return Err(format!("unexpected diagnostic in the path-resolution program: {}", first_line(&d.rendered))),
        }
    }
    if !out.success && bad.is_empty() {
        return Err(format!("cargo check failed without diagnostics (configuration {}):\n{}", config_name(feats), out.stderr_tail));
    }
    let mut chosen: BTreeMap<usize, String> = BTreeMap::new();
    for (l, (idx, p)) in &at {
        if bad.contains(l) {
            continue;
        }
        chosen.entry(*idx).or_insert_with(|| p.clone());
    }
    Ok(chosen)
}

fn build_domain(items: &[Item], chosen: &BTreeMap<usize, String>, feats: &[String]) -> Domain {
    let mut entries: Vec<Entry> = vec![];
    let mut unreachable = vec![];
    let mut generic_fallback = vec![];
    let mut stmt_like: Vec<(String, String, String)> = vec![]; // display, path, simple
    for (idx, it) in items.iter().enumerate() {
        if it.kind == "trait" {
            continue;
        }
        let def = {
            let mut m = it.module.clone();
            m.push(it.name.clone());
            m.join("::")
        };
        let Some(path) = chosen.get(&idx) else {
            unreachable.push(def);
            continue;
        };
        if it.params.is_empty() {
            let disp = short(path);
            entries.push(Entry {
                name: disp.clone(),
                class: "scanned".into(),
                send: format!("_send::<{path}>();"),
                sync: Some(format!("_sync::<{path}>();")),
                about: vec![it.name.clone()],
                args_bearing: false,
            });
            let n = it.name.as_str();
            if it.kind != "type"
                && (n.ends_with("Statement") || matches!(n, "WithQuery" | "Condition" | "SimpleExpr" | "Value" | "TableRef" | "ColumnDef"))
            {
                stmt_like.push((disp, path.clone(), it.name.clone()));
            }
        } else {
            let insts: Vec<Vec<String>> = match generic_table(&it.name) {
                Some(t) => t.into_iter().map(|v| v.into_iter().map(|s| s.to_string()).collect()).collect(),
                None => {
                    generic_fallback.push(def.clone());
                    vec![it
                        .params
                        .iter()
                        .map(|p| {
                            if p.starts_with('\'') {
                                "'static".to_string()
                            } else if p.starts_with("const ") {
                                "0".to_string()
                            } else {
                                "sea_query::Value".to_string()
                            }
                        })
                        .collect()]
                }
            };
            for args in insts {
                let a = args.join(", ");
                let full = format!("{path}<{a}>");
                entries.push(Entry {
                    name: short(&full),
                    class: "scanned".into(),
                    send: format!("_send::<{full}>();"),
                    sync: Some(format!("_sync::<{full}>();")),
                    about: vec![it.name.clone()],
                    args_bearing: a.contains("dyn sea_query::Iden") || a.contains("Statement"),
                });
            }
        }
    }
    // composite programs over the core identifier / expression types
    for (t, about) in [
        ("Box<dyn sea_query::Iden>", "DynIden"),
        ("&'static dyn sea_query::Iden", "DynIden"),
        ("Option<sea_query::DynIden>", "DynIden"),
        ("Vec<sea_query::DynIden>", "DynIden"),
        ("(sea_query::DynIden, sea_query::DynIden)", "DynIden"),
        ("(sea_query::DynIden, sea_query::DynIden, sea_query::DynIden)", "DynIden"),
        ("Vec<(sea_query::DynIden, sea_query::SimpleExpr)>", "SimpleExpr"),
        ("Box<sea_query::SimpleExpr>", "SimpleExpr"),
        ("std::sync::Arc<sea_query::SelectStatement>", "SelectStatement"),
        ("std::sync::Mutex<sea_query::SelectStatement>", "SelectStatement"),
        ("Vec<sea_query::Value>", "Value"),
        ("Option<Box<sea_query::Values>>", "Values"),
        // associated types of the public trait impls (no field of any struct, so the scan of definitions does not see them)
        ("<sea_query::ValueTuple as IntoIterator>::IntoIter", "ValueTuple"),
        ("<sea_query::ValueTuple as IntoIterator>::Item", "ValueTuple"),
        ("<sea_query::Values as IntoIterator>::IntoIter", "Values"),
        ("<sea_query::Values as IntoIterator>::Item", "Values"),
        ("<sea_query::DynIden as sea_query::IdenList>::IntoIter", "DynIden"),
        ("<(sea_query::DynIden, sea_query::DynIden) as sea_query::IdenList>::IntoIter", "DynIden"),
        ("<(sea_query::DynIden, sea_query::DynIden, sea_query::DynIden) as sea_query::IdenList>::IntoIter", "DynIden"),
        ("<sea_query::DynIden as std::ops::Deref>::Target", "DynIden"),
        ("<sea_query::Tokenizer as Iterator>::Item", "Tokenizer"),
    ] {
        entries.push(Entry {
            name: short(t),
            class: "composite".into(),
            send: format!("_send::<{t}>();"),
            sync: Some(format!("_sync::<{t}>();")),
            about: vec![about.to_string()],
            args_bearing: false,
        });
    }
    for (name, stmt, about) in [
        ("return-type<Values::iter>", "{ let v = _mk::<sea_query::Values>(); _send_val(v.iter()); }", "Values"),
        ("return-type<Tokenizer::iter>", "{ let t = _mk::<sea_query::Tokenizer>(); _send_val(t.iter()); }", "Tokenizer"),
        ("return-type<ValueTuple::into_iter>", "{ let t = _mk::<sea_query::ValueTuple>(); _send_val(t.into_iter()); }", "ValueTuple"),
    ] {
        entries.push(Entry { name: name.to_string(), class: "composite".into(), send: stmt.to_string(), sync: None, about: vec![about.to_string()], args_bearing: false });
    }
    if has(feats, "derive") && has(feats, "attr") {
        for t in ["user::Glyph", "user::Unit", "user::FooIden", "user::Manual"] {
            entries.push(Entry {
                name: t.to_string(),
                class: "user".into(),
                send: format!("_send::<{t}>();"),
                sync: Some(format!("_sync::<{t}>();")),
                about: vec![],
                args_bearing: false,
            });
        }
        // identifier enums generated for models whose FIELD types are not thread-safe: the identifiers are names only.
        // The model is declared on the assertion line itself, so a diagnostic from the macro expansion is attributed to this entry.
        for (name, decl, iden) in [
            (
                "user-inline::enum_def<model with Rc / Cell fields>",
                "#[sea_query::enum_def] pub struct Sess { pub a: std::rc::Rc<str>, pub b: std::cell::Cell<u32>, pub c: *const u8 }",
                "SessIden",
            ),
            (
                "user-inline::enum_def<model with a boxed trait object>",
                "#[sea_query::enum_def(prefix = \"\", suffix = \"Col\")] pub struct Job { pub id: i32, pub run: Box<dyn Fn()> }",
                "JobCol",
            ),
            (
                "user-inline::derive(Iden)<enum with renames and a method>",
                "#[derive(sea_query::Iden)] pub enum Tbl { Table, #[iden = \"a\"] A, #[method = \"m\"] B } impl Tbl { fn m(&self) -> &'static str { \"b\" } }",
                "Tbl",
            ),
        ] {
            entries.push(Entry {
                name: name.to_string(),
                class: "user".into(),
                send: format!("{{ {decl} _send::<{iden}>(); _sync::<{iden}>(); let i: sea_query::DynIden = sea_query::SeaRc::new(_mk::<{iden}>()); _send_val(move || i.to_string()); }}"),
                sync: None,
                about: vec![],
                args_bearing: false,
            });
        }
        entries.push(Entry {
            name: "spawn-closure<SeaRc::new(user::Glyph)>".into(),
            class: "user".into(),
            send: "{ let i: sea_query::DynIden = sea_query::SeaRc::new(user::Glyph::Image); _send_val(move || i.to_string()); }".into(),
            sync: None,
            about: vec!["DynIden".into()],
            args_bearing: false,
        });
    }
    for (disp, path, simple) in stmt_like {
        entries.push(Entry {
            name: format!("await-move<{disp}>"),
            class: "await-move".into(),
            send: format!("_send_val(_hold(_mk::<{path}>()));"),
            sync: None,
            about: vec![simple.clone()],
            args_bearing: false,
        });
        entries.push(Entry {
            name: format!("await-ref<{disp}>"),
            class: "await-ref".into(),
            send: format!("{{ let x = _mk::<{path}>(); _send_val(_hold_ref(&x)); }}"),
            sync: None,
            about: vec![simple],
            args_bearing: false,
        });
    }
    // display names must be unique
    let mut seen = BTreeSet::new();
    entries.retain(|e| seen.insert(e.name.clone()));
    Domain { entries, unreachable, generic_fallback }
}

#[derive(Clone, Debug, PartialEq, Eq)]
pub enum Verdict {
    Pass,
    /// what = "not-Send" | "not-Sync" | "not-Send+not-Sync"; detail is the compiler's message; chain = note depth
    NotThreadSafe { what: String, detail: String, chain: usize },
    /// the assertion does not type-check for another reason (domain problem)
    Dropped(String),
}

fn first_line(s: &str) -> String {
    s.lines().next().unwrap_or("").to_string()
}

/// Phase 2: compile the assertion program; iterate while lines fail for reasons other than Send/Sync.
fn assert_program(entries: &[Entry], feats: &[String], wd: &Workdir, tag: &str, with_user: bool) -> Result<Vec<Verdict>, String> {
    let mut dropped: BTreeMap<usize, String> = BTreeMap::new();
    for iter in 0..6 {
        let mut src = String::from(PRELUDE);
        if with_user {
            src.push_str(USER_MOD);
        }
        let mut line = src.lines().count() + 1;
        let mut at: BTreeMap<usize, (usize, &'static str)> = BTreeMap::new();
        for (i, e) in entries.iter().enumerate() {
            if dropped.contains_key(&i) {
                continue;
            }
            src.push_str(&format!("pub fn t_{i}() {{\n"));
            line += 1;
            src.push_str(&format!("    {}\n", e.send));
            at.insert(line, (i, "Send"));
            line += 1;
            if let Some(s) = &e.sync {
                src.push_str(&format!("    {s}\n"));
                at.insert(line, (i, "Sync"));
                line += 1;
            }
            src.push_str("}\n");
            line += 1;
        }
        let dir = wd.gen.join(format!("{tag}-assert-{iter}"));
        let pkg = format!("c20_{}_assert_{iter}", sig_clean(tag).replace(['-', '.', '/', ':'], "_"));
        write_crate(&dir, &pkg, feats, "lib.rs", &src)?;
        let out = cargo(&dir, &wd.target, "check")?;
        let mut ts: BTreeMap<usize, (bool, bool, String, usize)> = BTreeMap::new();
        let mut other: BTreeMap<usize, String> = BTreeMap::new();
        let mut n_err = 0;
        for d in &out.diags {
            if d.level != "error" {
                continue;
            }
            if !d.target.starts_with("c20_") {
                return Err(format!("the tree does not build in configuration {}: {}", config_name(feats), first_line(&d.rendered)));
            }
            if d.message.starts_with("aborting due to") || d.message.starts_with("could not compile") {
                continue;
            }
            n_err += 1;
            let Some((i, which)) = d.line.and_then(|l| at.get(&l).copied()) else {
                return Err(format!("diagnostic outside the assertion lines: {}", d.rendered));
            };
            let send = d.message.contains("cannot be sent between threads safely");
            let sync = d.message.contains("cannot be shared between threads safely");
            let e0277 = d.code.as_deref() == Some("E0277") || d.message.starts_with("future cannot be sent between threads safely");
            if e0277 && (send || sync) {
                let ent = ts.entry(i).or_insert((false, false, String::new(), usize::MAX));
                // a future that is not Send because it holds `&T` reports `T` "cannot be shared": keep the line's meaning
                let is_send_line = which == "Send" && entries[i].sync.is_some();
                if entries[i].sync.is_none() {
                    if entries[i].class == "await-ref" {
                        ent.1 = true;
                    } else {
                        ent.0 = true;
                    }
                } else if is_send_line {
                    ent.0 = true;
                } else {
                    ent.1 = true;
                }
                if ent.2.is_empty() {
                    ent.2 = d.rendered.clone();
                }
                ent.3 = ent.3.min(d.chain);
            } else {
                other.entry(i).or_insert_with(|| {
                    format!("{}: {}", d.code.clone().unwrap_or_else(|| "error".into()), first_line(&d.message))
                });
            }
        }
        if !out.success && n_err == 0 {
            return Err(format!("cargo check failed without diagnostics (configuration {}):\n{}", config_name(feats), out.stderr_tail));
        }
        if out.success && n_err > 0 {
            return Err("cargo reported success together with errors".into());
        }
        if !other.is_empty() {
            // domain problems: drop these lines and compile again, so that no type check is skipped because of them
            for (i, why) in other {
                dropped.insert(i, why);
            }
            continue;
        }
        let mut v = vec![];
        for i in 0..entries.len() {
            if let Some(why) = dropped.get(&i) {
                v.push(Verdict::Dropped(why.clone()));
            } else if let Some((s, y, detail, chain)) = ts.get(&i) {
                let what = match (s, y) {
                    (true, true) => "not-Send+not-Sync",
                    (true, false) => "not-Send",
                    _ => "not-Sync",
                };
                v.push(Verdict::NotThreadSafe { what: what.into(), detail: detail.clone(), chain: *chain });
            } else {
                v.push(Verdict::Pass);
            }
        }
        return Ok(v);
    }
    Err("the assertion program kept failing for reasons other than Send/Sync after 6 rounds".into())
}

pub struct ConfigResult {
    pub features: Vec<String>,
    pub domain: Domain,
    pub verdicts: Vec<Verdict>,
}

fn run_config(items: &[Item], feats: &[String], wd: &Workdir, only: Option<&[String]>) -> Result<ConfigResult, String> {
    let tag = config_name(feats);
    let chosen = resolve_paths(items, feats, wd, &tag)?;
    let mut domain = build_domain(items, &chosen, feats);
    if let Some(only) = only {
        domain.entries.retain(|e| only.iter().any(|n| n == &e.name));
    }
    let with_user = has(feats, "derive") && has(feats, "attr");
    let verdicts = assert_program(&domain.entries, feats, wd, &tag, with_user)?;
    Ok(ConfigResult { features: feats.to_vec(), domain, verdicts })
}

// ------------------------------------------------------------------------------------------------
// dynamic companion

const DYN_MAIN: &str = include_str!("c20_dyn_main.rs.tmpl");

#[derive(Clone, Debug)]
pub struct DynRow {
    pub stmt: String,
    pub mode: String,
    pub equal: bool,
    pub renderings: u64,
    pub origin: Vec<String>,
    pub other: Vec<String>,
}

pub enum DynOutcome {
    Rows(Vec<DynRow>),
    /// the program does not compile because something is not Send/Sync
    NotThreadSafe(String),
}

/// documented renderings of a few of the statements (MySQL text, first rendering of the origin thread)
const EXPECTED_MYSQL: [(&str, &str); 5] = [
    ("update", "UPDATE `glyph` SET `aspect` = 1.23, `image` = 'x\\'y' WHERE `id` = 1"),
    ("delete", "DELETE FROM `glyph` WHERE `id` < 1 OR `id` > 10"),
    ("table-truncate", "TRUNCATE TABLE `font`"),
    ("index-drop", "DROP INDEX `idx-glyph-aspect` ON `glyph`"),
    ("with-cte", "WITH `cte` (`id`) AS (SELECT `id` FROM `doc`) SELECT `id` FROM `cte`"),
];

fn run_dynamic(wd: &Workdir) -> Result<DynOutcome, String> {
    let feats = features(&["thread-safe"]);
    let dir = wd.gen.join("dynamic");
    write_crate(&dir, "c20_dynamic", &feats, "main.rs", DYN_MAIN)?;
    let out = cargo(&dir, &wd.target, "build")?;
    if !out.success {
        let mut ts = None;
        for d in &out.diags {
            if d.level != "error" {
                continue;
            }
            if !d.target.starts_with("c20_") {
                return Err(format!("the tree does not build with thread-safe: {}", first_line(&d.rendered)));
            }
            let m = &d.message;
            if m.contains("cannot be sent between threads safely") || m.contains("cannot be shared between threads safely") {
                if ts.is_none() {
                    ts = Some(d.rendered.clone());
                }
            } else if !m.starts_with("aborting due to") {
                return Err(format!("the dynamic companion does not compile: {}", d.rendered));
            }
        }
        return match ts {
            Some(r) => Ok(DynOutcome::NotThreadSafe(r)),
            None => Err(format!("cargo build of the dynamic companion failed:\n{}", out.stderr_tail)),
        };
    }
    let exe = wd.target.join("debug").join("c20_dynamic");
    let cmd = Command::new(&exe);
    let (code, stdout, stderr) = run_cmd(cmd, Duration::from_secs(300))?;
    if code != Some(0) {
        let tail: Vec<&str> = stderr.lines().rev().take(8).collect();
        return Err(format!("dynamic companion ended with status {code:?}: {}", tail.join(" | ")));
    }
    let mut rows = vec![];
    let mut done = false;
    for l in stdout.lines() {
        let Ok(j) = serde_json::from_str::<J>(l) else { return Err(format!("unreadable output line: {l}")) };
        if j["done"].as_bool() == Some(true) {
            done = true;
            continue;
        }
        let strs = |x: &J| x.as_array().map(|a| a.iter().map(|s| s.as_str().unwrap_or("").to_string()).collect()).unwrap_or_default();
        rows.push(DynRow {
            stmt: j["stmt"].as_str().unwrap_or("").to_string(),
            mode: j["mode"].as_str().unwrap_or("").to_string(),
            equal: j["equal"].as_bool().unwrap_or(false),
            renderings: j["renderings"].as_u64().unwrap_or(0),
            origin: strs(&j["origin"]),
            other: strs(&j["other"]),
        });
    }
    if !done || rows.is_empty() {
        return Err("dynamic companion produced incomplete output".into());
    }
    Ok(DynOutcome::Rows(rows))
}

fn dyn_verdict(r: &DynRow) -> R {
    if r.origin.is_empty() || r.origin.iter().all(|s| s.is_empty()) {
        return fail(format!("dynamic/empty-rendering/{}", r.stmt), "the origin thread rendered nothing");
    }
    if !r.equal {
        let k = r.origin.iter().zip(&r.other).position(|(a, b)| a != b).unwrap_or(0);
        return fail(
            format!("dynamic/{}/{}", r.mode, r.stmt),
            format!(
                "statement {} rendered differently after {}: origin thread {:?}, other thread {:?}",
                r.stmt,
                r.mode,
                r.origin.get(k),
                r.other.get(k)
            ),
        );
    }
    if let Some((_, want)) = EXPECTED_MYSQL.iter().find(|(n, _)| *n == r.stmt) {
        if r.origin[0] != *want {
            return fail(
                format!("dynamic/expected-text/{}", r.stmt),
                format!("statement {} renders {:?} for MySQL under thread-safe, documented text is {:?}", r.stmt, r.origin[0], want),
            );
        }
    }
    Ok(())
}

// ------------------------------------------------------------------------------------------------
// accounting by hand (the work is done by cargo, not by ctx.run_*)

struct Row {
    case: J,
    labels: Vec<String>,
    nontrivial: Option<u64>,
    note: Option<String>,
    verdict: R,
    /// grouping key for failure reporting and its rank (smaller = closer to the root cause)
    group: String,
    rank: usize,
}

fn push_rows(ctx: &mut Ctx, part: &str, kind: &'static str, exhaustive: bool, rows: Vec<Row>) {
    let mut st = Stats::default();
    let planned = rows.len() as u64;
    let mut nt_rows: Vec<usize> = vec![];
    let mut failing: BTreeMap<String, (usize, usize, Vec<usize>)> = BTreeMap::new(); // group -> (rank, first row, rows)
    for (i, r) in rows.iter().enumerate() {
        st.evaluations += 1;
        for l in &r.labels {
            *st.labels.entry(l.clone()).or_default() += 1;
        }
        match &r.verdict {
            Ok(()) => {
                if let Some(fp) = r.nontrivial {
                    if st.nontrivial.insert(fp) {
                        nt_rows.push(i);
                    }
                }
            }
            Err(Stop::Discard(w)) => *st.discarded.entry(w.clone()).or_default() += 1,
            Err(Stop::Undecided(w)) => *st.undecided.entry(w.clone()).or_default() += 1,
            Err(Stop::Fail { sig, .. }) => {
                if ctx.is_known(sig) {
                    *st.excluded_known.entry(sig.clone()).or_default() += 1;
                } else {
                    let e = failing.entry(r.group.clone()).or_insert((r.rank, i, vec![]));
                    e.0 = e.0.min(r.rank);
                    e.2.push(i);
                }
            }
        }
    }
    // samples: first, last and evenly spaced non-trivial passing cases
    let k = nt_rows.len();
    if k > 0 {
        let mut pick: BTreeSet<usize> = BTreeSet::new();
        for q in 0..6 {
            pick.insert(nt_rows[(q * (k - 1)) / 5]);
        }
        for i in pick {
            let mut s = json!({"case": rows[i].case});
            if let Some(n) = &rows[i].note {
                s["note"] = J::String(n.clone());
            }
            st.samples.push(s);
        }
    }
    // failures: the groups closest to the root cause first, at most max_failures_per_part of them
    let mut groups: Vec<(usize, usize, String)> = failing.iter().map(|(g, (rank, first, _))| (*rank, *first, g.clone())).collect();
    groups.sort();
    let total_groups = groups.len();
    let total_rows: usize = failing.values().map(|f| f.2.len()).sum();
    let all_names: Vec<String> = groups.iter().take(25).map(|g| g.2.clone()).collect();
    for (_, _, g) in groups.into_iter().take(ctx.max_failures_per_part) {
        let (_, _, idxs) = &failing[&g];
        let first = &rows[idxs[0]];
        let Err(Stop::Fail { sig, detail }) = &first.verdict else { continue };
        let mut detail = detail.clone();
        if idxs.len() > 1 {
            let others: Vec<String> = idxs[1..]
                .iter()
                .filter_map(|i| match &rows[*i].verdict {
                    Err(Stop::Fail { sig, .. }) => Some(sig.clone()),
                    _ => None,
                })
                .collect();
            detail.push_str(&format!("\nalso: {}", others.join(", ")));
        }
        if total_groups > 1 {
            detail.push_str(&format!(
                "\nin total {total_rows} assertions fail in {total_groups} groups (closest to the cause first): {}",
                all_names.join(", ")
            ));
        }
        st.failures.push(Failure { part: part.to_string(), sig: sig.clone(), detail, case: first.case.clone() });
    }
    ctx.parts.push(PartReport { name: part.to_string(), kind, stats: st, exhaustive, planned });
}

// ------------------------------------------------------------------------------------------------
// the check

/// names that must be in the tree-derived domain of every full configuration (a scanning bug must not
/// silently shrink the domain)
const MUST_HAVE: [&str; 74] = [
    "SelectStatement",
    "InsertStatement",
    "UpdateStatement",
    "DeleteStatement",
    "WithQuery",
    "WithClause",
    "CommonTableExpression",
    "SimpleExpr",
    "Expr",
    "Condition",
    "ConditionExpression",
    "Cond",
    "ConditionHolder",
    "Value",
    "Values",
    "ValueTuple",
    "DynIden",
    "SeaRc<dyn Iden>",
    "RcOrArc<dyn Iden>",
    "Alias",
    "NullAlias",
    "Asterisk",
    "TableRef",
    "ColumnRef",
    "ColumnDef",
    "ColumnType",
    "ColumnSpec",
    "TableCreateStatement",
    "TableAlterStatement",
    "TableDropStatement",
    "TableRenameStatement",
    "TableTruncateStatement",
    "TableStatement",
    "TableAlterOption",
    "IndexCreateStatement",
    "IndexDropStatement",
    "IndexStatement",
    "IndexColumn",
    "TableIndex",
    "ForeignKeyCreateStatement",
    "ForeignKeyDropStatement",
    "ForeignKeyStatement",
    "TableForeignKey",
    "SchemaStatement",
    "QueryStatement",
    "SubQueryStatement",
    "OnConflict",
    "OnConflictTarget",
    "OnConflictAction",
    "CaseStatement",
    "FunctionCall",
    "Function",
    "WindowStatement",
    "FrameClause",
    "OrderExpr",
    "Order",
    "JoinExpr",
    "JoinOn",
    "SelectExpr",
    "SelectDistinct",
    "LockClause",
    "ReturningClause",
    "LikeExpr",
    "Keyword",
    "BinOper",
    "SqlWriterValues",
    "MysqlQueryBuilder",
    "PostgresQueryBuilder",
    "SqliteQueryBuilder",
    "extension::postgres::TypeCreateStatement",
    "extension::postgres::TypeDropStatement",
    "extension::postgres::TypeAlterStatement",
    "extension::postgres::ExtensionCreateStatement",
    "extension::postgres::ExtensionDropStatement",
];

/// types that must fail in the control (otherwise the assertion program proves nothing)
const MUST_FAIL_IN_CONTROL: [&str; 8] = [
    "DynIden",
    "SeaRc<dyn Iden>",
    "SelectStatement",
    "SimpleExpr",
    "TableRef",
    "ColumnDef",
    "TableCreateStatement",
    "await-move<SelectStatement>",
];

fn quick_configs() -> Vec<Vec<String>> {
    vec![
        features(&["thread-safe"]),
        features(&["thread-safe", "all-types"]),
        features(&["thread-safe", "hashable-value"]),
        features(&["thread-safe", "all-types", "hashable-value"]),
    ]
}

fn thorough_extra_configs() -> Vec<Vec<String>> {
    let mut v = vec![];
    for f in [
        "with-chrono",
        "with-json",
        "with-rust_decimal",
        "with-bigdecimal",
        "with-uuid",
        "with-time",
        "with-ipnetwork",
        "with-mac_address",
        "postgres-array",
        "postgres-interval",
        "postgres-vector",
        "option-more-parentheses",
        "option-sqlite-exact-column-type",
    ] {
        v.push(features(&["thread-safe", f]));
    }
    v.push(features(&["thread-safe", "with-json", "hashable-value"]));
    v.push(features(&["thread-safe", "with-chrono", "with-time", "postgres-array"]));
    v.push(features(&["thread-safe", "all-types", "hashable-value", "option-more-parentheses", "option-sqlite-exact-column-type"]));
    // reduced bases: a single backend, no derive
    v.push(vec!["backend-mysql".into(), "thread-safe".into()]);
    v.push(vec!["backend-postgres".into(), "thread-safe".into(), "all-types".into()]);
    v.push(vec!["backend-sqlite".into(), "derive".into(), "thread-safe".into()]);
    v.push(vec!["thread-safe".into()]);
    v.push(vec!["all-features".into(), "tests-cfg".into()]);
    // every pair of value-type features (and hashable-value): pairwise feature-interaction coverage
    const PAIRABLE: [&str; 12] = [
        "with-chrono",
        "with-json",
        "with-rust_decimal",
        "with-bigdecimal",
        "with-uuid",
        "with-time",
        "with-ipnetwork",
        "with-mac_address",
        "postgres-array",
        "postgres-interval",
        "postgres-vector",
        "hashable-value",
    ];
    for a in 0..PAIRABLE.len() {
        for b in a + 1..PAIRABLE.len() {
            v.push(features(&["thread-safe", PAIRABLE[a], PAIRABLE[b]]));
        }
    }
    let mut seen = BTreeSet::new();
    v.retain(|f| seen.insert(config_name(f)));
    v
}

fn workdir(root: &Path, worker: usize) -> Workdir {
    let base = root.join(".work/gen/c20");
    Workdir { gen: base.join("crates"), target: base.join(format!("target-w{worker}")) }
}

enum JobOut {
    Config(Result<ConfigResult, String>),
    Dynamic(Result<DynOutcome, String>),
}

pub fn run(ctx: &mut Ctx) {
    ctx.rule = "inputs: every public struct/enum/type item scanned from $SQV_REPO/src and reachable as sea_query::… (path existence decided \
by the compiler), generic items instantiated from a table (SeaRc<dyn Iden>, SeaRc<Alias>, RcOrArc<…>, error::Result<…>), composite types over \
DynIden/SimpleExpr/Value, user-defined identifiers made with #[derive(Iden)] / #[enum_def], and futures holding each statement type (by value \
and by reference) across an await point — each asserted Send and Sync by `cargo check` of a generated crate under every listed feature \
configuration that contains `thread-safe`. One evaluation = one (type, configuration) assertion pair. Non-trivial = the type fails the same \
assertion in the negative control (same program, `thread-safe` off), i.e. it really contains an Rc/`dyn Iden`; distinct by type name. \
The dynamic part (statements moved / shared / awaited across threads and re-rendered) is counted in evaluations but not in distinct_nontrivial."
        .into();
    ctx.assumptions.push("rustc's trait solver decides Send/Sync; an E0277 'cannot be sent/shared between threads safely' at an assertion line is a violation, any other compile error is a domain problem or inconclusive".into());
    ctx.assumptions.push("the generated crates depend on the working tree by path ($SQV_REPO, default /repo) with default-features = false; only offline-cached crates are used (copy of the tree's Cargo.lock)".into());
    ctx.assumptions.push("public traits are not value types and are not asserted, except `dyn Iden` (which DynIden stores)".into());
    ctx.domain_restrictions.push("items defined by macros or under #[path] modules are not seen by the scanner; the presence of 74 named core types is asserted explicitly".into());
    ctx.domain_restrictions.push("generic items are asserted at the instantiations of the table only".into());

    let repo = repo_path();
    let items = match scan_tree(&repo) {
        Ok(i) => i,
        Err(e) => {
            ctx.note_inconclusive(format!("cannot scan the tree: {e}"));
            return;
        }
    };
    let predicted = predict_iden_bearing(&items);
    let traits: Vec<String> = items.iter().filter(|i| i.kind == "trait").map(|i| i.name.clone()).collect();
    if !traits.iter().any(|t| t == "Iden") {
        // `Iden` is produced by a macro in the pinned tree; its presence is asserted through `dyn sea_query::Iden` in the program
        ctx.extra.insert("iden_trait_scanned".into(), json!(false));
    }

    let mut configs = quick_configs();
    if ctx.tier == Tier::Thorough {
        configs.extend(thorough_extra_configs());
    }
    let mut controls = vec![features(&[])];
    if ctx.tier == Tier::Thorough {
        controls.push(features(&["all-types", "hashable-value"]));
    }
    // jobs: controls first (they define N), then the configurations, the dynamic companion last
    #[derive(Clone)]
    enum Job {
        Config(Vec<String>),
        Dynamic,
    }
    let mut jobs: Vec<Job> = vec![];
    for c in &controls {
        jobs.push(Job::Config(c.clone()));
    }
    for c in &configs {
        jobs.push(Job::Config(c.clone()));
    }
    jobs.push(Job::Dynamic);
    let workers = ctx.tier.pick(6usize, 8usize).min(jobs.len());
    let _ = std::fs::remove_dir_all(ctx.root.join(".work/gen/c20/crates"));
    let results: std::sync::Mutex<BTreeMap<usize, JobOut>> = std::sync::Mutex::new(BTreeMap::new());
    {
        let items = &items;
        let jobs = &jobs;
        let results = &results;
        let root = ctx.root.clone();
        std::thread::scope(|sc| {
            for w in 0..workers {
                let root = root.clone();
                sc.spawn(move || {
                    let wd = workdir(&root, w);
                    let mut j = w;
                    while j < jobs.len() {
                        let out = match &jobs[j] {
                            Job::Config(f) => JobOut::Config(run_config(items, f, &wd, None)),
                            Job::Dynamic => JobOut::Dynamic(run_dynamic(&wd)),
                        };
                        results.lock().unwrap().insert(j, out);
                        j += workers;
                    }
                });
            }
        });
    }
    let mut results = results.into_inner().unwrap();

    // ---- negative control
    let mut control_fail: BTreeMap<String, String> = BTreeMap::new(); // name -> first line of the compiler's message
    let mut control_ok = true;
    for (ci, cfeat) in controls.iter().enumerate() {
        let Some(JobOut::Config(res)) = results.remove(&ci) else { unreachable!() };
        let res = match res {
            Ok(r) => r,
            Err(e) => {
                ctx.note_inconclusive(format!("negative control ({}): {e}", config_name(cfeat)));
                control_ok = false;
                continue;
            }
        };
        let mut failing: BTreeMap<String, String> = BTreeMap::new();
        for (e, v) in res.domain.entries.iter().zip(&res.verdicts) {
            if let Verdict::NotThreadSafe { detail, .. } = v {
                failing.insert(e.name.clone(), first_line(detail));
            }
        }
        if failing.is_empty() {
            ctx.note_inconclusive(format!(
                "negative control ({}) compiled cleanly: the assertion program is vacuous",
                config_name(cfeat)
            ));
            control_ok = false;
            continue;
        }
        for m in MUST_FAIL_IN_CONTROL {
            if !failing.contains_key(m) {
                ctx.note_inconclusive(format!("negative control ({}) did not fail at {m}", config_name(cfeat)));
                control_ok = false;
            }
        }
        // every scanned type predicted to hold an identifier must fail in the control
        let mut missed = vec![];
        let mut unpredicted = vec![];
        for (e, v) in res.domain.entries.iter().zip(&res.verdicts) {
            if e.class != "scanned" {
                continue;
            }
            let pred = e.args_bearing || e.about.iter().any(|a| predicted.contains(a));
            let failed = matches!(v, Verdict::NotThreadSafe { .. });
            if pred && !failed && !matches!(v, Verdict::Dropped(_)) {
                missed.push(e.name.clone());
            }
            if failed && !pred {
                unpredicted.push(e.name.clone());
            }
        }
        if !missed.is_empty() {
            ctx.note_inconclusive(format!(
                "negative control ({}): types predicted to contain a DynIden did not fail: {}",
                config_name(cfeat),
                missed.join(", ")
            ));
            control_ok = false;
        }
        ctx.extra.insert(
            format!("control/{}", config_name(cfeat)),
            json!({"features": cfeat, "asserted": res.domain.entries.len(), "failing": failing.len(),
                   "failing_but_not_predicted_by_field_scan": unpredicted}),
        );
        if ci == 0 {
            control_fail = failing;
        } else {
            let a: BTreeSet<&String> = control_fail.keys().collect();
            let b: BTreeSet<&String> = failing.keys().collect();
            let diff: Vec<String> = a.symmetric_difference(&b).map(|s| s.to_string()).collect();
            ctx.extra.insert("control_sets_differ_in".into(), json!(diff));
        }
    }
    ctx.extra.insert("nontrivial_types".into(), json!(control_fail.keys().collect::<Vec<_>>()));

    // ---- the configurations
    let mut rows: Vec<Row> = vec![];
    let mut per_config = vec![];
    // type-major order: collect all names in first-seen order over the configurations
    let mut cfg_results: Vec<Option<ConfigResult>> = vec![];
    for (k, feats) in configs.iter().enumerate() {
        let Some(JobOut::Config(res)) = results.remove(&(controls.len() + k)) else { unreachable!() };
        match res {
            Ok(r) => cfg_results.push(Some(r)),
            Err(e) => {
                ctx.note_inconclusive(format!("configuration {}: {e}", config_name(feats)));
                cfg_results.push(None);
            }
        }
    }
    let mut names: Vec<String> = vec![];
    {
        let mut seen = BTreeSet::new();
        for r in cfg_results.iter().flatten() {
            for e in &r.domain.entries {
                if seen.insert(e.name.clone()) {
                    names.push(e.name.clone());
                }
            }
        }
    }
    let mut scanned_union: BTreeSet<String> = BTreeSet::new();
    for r in cfg_results.iter().flatten() {
        let cname = config_name(&r.features);
        let have: BTreeSet<&str> = r.domain.entries.iter().map(|e| e.name.as_str()).collect();
        let full_base = BASE.iter().all(|b| has(&r.features, b)) || has(&r.features, "all-features");
        if full_base {
            for m in MUST_HAVE {
                if !have.contains(m) {
                    ctx.note_inconclusive(format!("domain derivation lost the type {m} in configuration {cname}"));
                }
            }
        }
        for e in r.domain.entries.iter().filter(|e| e.class == "scanned") {
            scanned_union.insert(e.name.clone());
        }
        let dropped: Vec<String> = r
            .domain
            .entries
            .iter()
            .zip(&r.verdicts)
            .filter_map(|(e, v)| if let Verdict::Dropped(w) = v { Some(format!("{}: {w}", e.name)) } else { None })
            .collect();
        per_config.push(json!({
            "config": cname, "features": r.features, "asserted_types": r.domain.entries.len(),
            "dropped": dropped, "not_reachable_in_this_config": r.domain.unreachable,
            "generic_fallback_instantiation": r.domain.generic_fallback,
        }));
    }
    for name in &names {
        for r in cfg_results.iter().flatten() {
            let cname = config_name(&r.features);
            let case = serde_json::to_value(Case { config: r.features.clone(), types: vec![name.clone()] }).unwrap();
            let Some(pos) = r.domain.entries.iter().position(|e| &e.name == name) else {
                rows.push(Row {
                    case,
                    labels: vec![],
                    nontrivial: None,
                    note: None,
                    verdict: discard("type not available in this configuration (cfg-gated)"),
                    group: name.clone(),
                    rank: usize::MAX,
                });
                continue;
            };
            let e = &r.domain.entries[pos];
            let nt = control_fail.get(name);
            let mut labels = vec![format!("class/{}", e.class), format!("config/{cname}")];
            labels.push(if nt.is_some() { "holds-identifier (fails in control)".into() } else { "plain data (Send+Sync either way)".into() });
            let (verdict, rank) = match &r.verdicts[pos] {
                Verdict::Pass => (Ok(()), 0),
                Verdict::Dropped(w) => (discard(format!("assertion does not type-check for another reason: {w}")), 0),
                Verdict::NotThreadSafe { what, detail, chain } => (
                    fail(
                        format!("{what}/{}/{cname}", sig_name(name)),
                        format!("with features {:?} the type {name} is {what}:\n{}", r.features, truncate(detail, 3500)),
                    ),
                    *chain,
                ),
            };
            rows.push(Row {
                case,
                labels,
                nontrivial: nt.map(|_| fingerprint(name.as_str())),
                note: nt.map(|m| format!("Send + Sync hold; without thread-safe: {m}")),
                verdict,
                group: name.clone(),
                rank,
            });
        }
    }
    if !control_ok {
        // without a working control nothing may be counted as non-trivial
        for r in rows.iter_mut() {
            r.nontrivial = None;
        }
    }
    let never: BTreeSet<String> = {
        let mut all: BTreeSet<String> = BTreeSet::new();
        let mut reach: BTreeSet<String> = BTreeSet::new();
        for r in cfg_results.iter().flatten() {
            let un: BTreeSet<&String> = r.domain.unreachable.iter().collect();
            for it in items.iter().filter(|i| i.kind != "trait") {
                let mut m = it.module.clone();
                m.push(it.name.clone());
                let d = m.join("::");
                all.insert(d.clone());
                if !un.contains(&d) {
                    reach.insert(d);
                }
            }
        }
        all.difference(&reach).cloned().collect()
    };
    ctx.extra.insert(
        "domain".into(),
        json!({
            "repo": repo.display().to_string(),
            "scanned_items": items.len(),
            "scanned_traits_not_asserted": traits,
            "scanned_types_asserted": scanned_union.len(),
            "pub_items_never_reachable_from_outside": never,
            "asserted_names": names.len(),
            "predicted_identifier_bearing": predicted,
        }),
    );
    ctx.extra.insert("configurations".into(), json!(per_config));
    push_rows(ctx, "assert", "exhaustive", true, rows);

    // ---- dynamic companion
    let Some(JobOut::Dynamic(dynres)) = results.remove(&(controls.len() + configs.len())) else { unreachable!() };
    match dynres {
        Err(e) => ctx.note_inconclusive(format!("dynamic companion: {e}")),
        Ok(DynOutcome::NotThreadSafe(rendered)) => {
            let case = serde_json::to_value(DynCase { stmt: "*".into(), mode: "compile".into() }).unwrap();
            push_rows(
                ctx,
                "dynamic",
                "list",
                false,
                vec![Row {
                    case,
                    labels: vec!["does-not-compile".into()],
                    nontrivial: None,
                    note: None,
                    verdict: fail(
                        "dynamic/does-not-compile/not-Send-or-Sync",
                        format!("a program that moves statements between threads does not compile with thread-safe:\n{}", truncate(&rendered, 3500)),
                    ),
                    group: "compile".into(),
                    rank: 0,
                }],
            );
        }
        Ok(DynOutcome::Rows(drows)) => {
            let rows: Vec<Row> = drows
                .iter()
                .map(|r| Row {
                    case: serde_json::to_value(DynCase { stmt: r.stmt.clone(), mode: r.mode.clone() }).unwrap(),
                    labels: vec![format!("dynamic/{}", r.mode)],
                    nontrivial: None,
                    note: None,
                    verdict: dyn_verdict(r),
                    group: r.stmt.clone(),
                    rank: 0,
                })
                .collect();
            let sample: Vec<J> = drows
                .iter()
                .filter(|r| r.mode == "await")
                .take(3)
                .map(|r| json!({"stmt": r.stmt, "mode": r.mode, "renderings_compared": r.renderings, "first": r.origin.first()}))
                .collect();
            ctx.extra.insert("dynamic_samples".into(), json!(sample));
            push_rows(ctx, "dynamic", "list", false, rows);
        }
    }
}

/// type names in signatures: no white space (KNOWN_FINDINGS.txt keys are blank-separated tokens)
fn sig_name(s: &str) -> String {
    s.replace(", ", ",").replace(' ', "_")
}

fn truncate(s: &str, n: usize) -> String {
    if s.chars().count() <= n {
        s.to_string()
    } else {
        let t: String = s.chars().take(n).collect();
        format!("{t}…")
    }
}

pub fn replay(part: &str, case: &J, obs: &mut Obs) -> R {
    let root = root_path();
    let wd = Workdir { gen: root.join(".work/gen/c20/replay"), target: root.join(".work/gen/c20/target-w0") };
    if part == "dynamic" {
        let c: DynCase = from_case(case)?;
        return match run_dynamic(&wd) {
            Err(e) => undecided(format!("dynamic companion: {e}")),
            Ok(DynOutcome::NotThreadSafe(r)) => fail(
                "dynamic/does-not-compile/not-Send-or-Sync",
                format!("a program that moves statements between threads does not compile with thread-safe:\n{}", truncate(&r, 3500)),
            ),
            Ok(DynOutcome::Rows(rows)) => {
                if c.mode == "compile" {
                    return Ok(());
                }
                match rows.iter().find(|r| r.stmt == c.stmt && r.mode == c.mode) {
                    Some(r) => {
                        obs.label("replayed");
                        dyn_verdict(r)
                    }
                    None => discard("no such statement / mode in the dynamic companion"),
                }
            }
        };
    }
    let c: Case = from_case(case)?;
    if !has(&c.config, "thread-safe") && !has(&c.config, "all-features") {
        return discard("configuration without thread-safe is outside the property");
    }
    let items = match scan_tree(&repo_path()) {
        Ok(i) => i,
        Err(e) => return undecided(format!("cannot scan the tree: {e}")),
    };
    let res = match run_config(&items, &c.config, &wd, Some(&c.types)) {
        Ok(r) => r,
        Err(e) => return undecided(e),
    };
    let cname = config_name(&c.config);
    for t in &c.types {
        if !res.domain.entries.iter().any(|e| &e.name == t) {
            return discard(format!("type {t} is not in the domain of configuration {cname}"));
        }
    }
    // report the failure closest to the root cause
    let mut best: Option<(usize, String, String)> = None;
    for (e, v) in res.domain.entries.iter().zip(&res.verdicts) {
        match v {
            Verdict::Pass => obs.label("replayed"),
            Verdict::Dropped(w) => return discard(format!("assertion for {} does not type-check for another reason: {w}", e.name)),
            Verdict::NotThreadSafe { what, detail, chain } => {
                if best.as_ref().map(|b| *chain < b.0).unwrap_or(true) {
                    best = Some((
                        *chain,
                        format!("{what}/{}/{cname}", sig_name(&e.name)),
                        format!("with features {:?} the type {} is {what}:\n{}", c.config, e.name, truncate(detail, 3500)),
                    ));
                }
            }
        }
    }
    match best {
        Some((_, sig, detail)) => fail(sig, detail),
        None => Ok(()),
    }
}
