//! C13 — SQLite schema statements create exactly the declared schema.
//!
//! A case is a serialisable `TableSpec` plus a history of further schema statements. Everything is
//! built through sea-query's public API (`Table::create()`, `ColumnDef`, `Index::create()`,
//! `ForeignKey::create()`, `Table::alter()`, `Table::rename()`, `Index::drop()`, `Table::drop()`),
//! rendered with `SqliteQueryBuilder` and executed on the real SQLite engine.
//!
//! Oracle (explicit, never sea-query against itself): a `CatalogueModel` that is updated per
//! statement from the SPEC, compared after every statement with what the ENGINE reports:
//! `PRAGMA table_xinfo` (names, order, NOT NULL, primary-key position, hidden, default presence),
//! `PRAGMA index_list` / `index_xinfo` (key columns, direction, collation, uniqueness, partial,
//! origin), `PRAGMA foreign_key_list` (table, column pairs, actions), `sqlite_master` /
//! `sqlite_temp_master` (which objects exist and where); plus behaviour probed with the harness's
//! own statements: default rows, uniqueness conflicts, CHECK acceptance/rejection (declared
//! predicates evaluated by the engine from the harness's own rendering), partial-index predicates
//! (stored predicate text vs. reference, evaluated on probe rows), AUTOINCREMENT key generation,
//! collation. Storage affinity: SQLite's five type-name rules (datatype3.html 3.1) applied to the
//! type name the engine reports must give the affinity intended for the abstract type, and
//! `typeof()` of stored probes ('12', 12, 1.5, x'00') must agree with that rule.
//! A statement the engine rejects is a violation: the generator only asks for what SQLite
//! supports (restrictions listed in `domain_restrictions`).

mod build;
mod engine;
mod model;
pub mod spec;
pub mod table_extra;

use crate::runner::*;
use crate::sqlite;
use model::*;
use serde_json::Value as J;
use spec::*;

pub use spec::Case;

extern "C" {
    fn sqlite3_config(op: std::ffi::c_int, ...) -> std::ffi::c_int;
}
static ENGINE_SETUP: std::sync::Once = std::sync::Once::new();

/// The library's allocation statistics take one process-wide mutex per allocation; schema
/// statements allocate so much that 16 shards spend their time on that lock. Statistics off
/// (SQLITE_CONFIG_MEMSTATUS = 9) before the first connection is opened; no effect on semantics.
fn engine_setup() {
    ENGINE_SETUP.call_once(|| unsafe {
        let _ = sqlite3_config(9, 0 as std::ffi::c_int);
    });
}

thread_local! {
    static TEMP_IN_MEMORY: std::cell::Cell<bool> = std::cell::Cell::new(false);
}

fn exec_stmt(db: &sqlite::Db, what: &str, sql: &str) -> R {
    match db.exec(sql) {
        Ok(()) => Ok(()),
        Err(e) => fail(format!("engine-rejects/{what}/{}", engine::engine_class(&e)), format!("the engine rejects the {what} statement: {}\n{sql}", e.msg)),
    }
}

pub fn check(c: &Case, obs: &mut Obs) -> R {
    engine_setup();
    if c.table.cols.is_empty() {
        return discard("no columns");
    }
    let rt = resolve_table(&c.table);
    let create_sql = guard("create-table", || build::create_table_sql(&rt))?;
    obs.note(create_sql.clone());
    let mut model = Model::from_table(&rt);
    for col in &rt.cols {
        obs.label(format!("type/{}", col.ty.kind()));
        for s in &col.specs {
            obs.label(format!(
                "spec/{}",
                match s {
                    RSpec::Null => "null",
                    RSpec::NotNull => "not-null",
                    RSpec::Default(_) => "default",
                    RSpec::Unique => "unique",
                    RSpec::PrimaryKey => "primary-key",
                    RSpec::AutoIncrement => "autoincrement",
                    RSpec::Check(_) => "check",
                    RSpec::Comment(_) => "comment",
                    RSpec::Extra(_) => "extra",
                }
            ));
        }
    }
    if rt.pk.is_some() {
        obs.label("table/primary-key");
    }
    if !rt.uniques.is_empty() {
        obs.label("table/unique");
    }
    if !rt.fks.is_empty() {
        obs.label("table/foreign-key");
    }
    if !rt.checks.is_empty() {
        obs.label("table/check");
    }
    if rt.temporary {
        obs.label("table/temporary");
    }
    let nontrivial_table = model.cols.len() >= 2 && model.constraint_count() >= 1;
    let mut applied_alter_or_index = 0usize;

    let r = sqlite::scratch(|db| -> R {
        // TEMPORARY tables: keep the temp database in memory (the library default is a file per
        // connection use); the setting can only be changed outside a transaction, once per connection
        TEMP_IN_MEMORY.with(|done| {
            if !done.get() {
                let _ = db.exec("ROLLBACK");
                let _ = db.exec("PRAGMA temp_store = MEMORY");
                let _ = db.exec("BEGIN");
                done.set(true);
            }
        });
        let _ = db.exec("PRAGMA ignore_check_constraints = OFF");
        for s in parent_setup_sql() {
            if let Err(e) = db.exec(&s) {
                return undecided(format!("harness-sql/setup/{}", e.msg));
            }
        }
        // IF NOT EXISTS: with a table of that name already there the statement must change nothing
        if rt.if_not_exists {
            let dummy = format!("CREATE {}TABLE {} (\"zz\" integer)", if rt.temporary { "TEMPORARY " } else { "" }, engine::qi(&rt.name));
            if db.exec("SAVEPOINT c13ine").is_err() || db.exec(&dummy).is_err() {
                return undecided("harness-sql/if-not-exists-setup");
            }
            let res = exec_stmt(db, "create-table-if-not-exists", &create_sql).and_then(|_| {
                let cols = engine::table_xinfo(db, &rt.name)?;
                if cols.len() != 1 || cols[0].name != "zz" {
                    return fail("if-not-exists/table-changed", format!("CREATE TABLE IF NOT EXISTS on an existing table changed it: {cols:?}\n{create_sql}"));
                }
                Ok(())
            });
            let _ = db.exec("ROLLBACK TO c13ine");
            let _ = db.exec("RELEASE c13ine");
            res?;
            obs.label("probe/if-not-exists");
        }
        if let Err(e) = db.exec(&create_sql) {
            // the engine accepts AUTOINCREMENT only on a column written exactly INTEGER PRIMARY KEY:
            // name the abstract type that was not written that way
            if e.msg.contains("AUTOINCREMENT is only allowed on an INTEGER PRIMARY KEY") {
                let kind = model.cols.iter().find(|c| c.autoinc).map(|c| match c.ty {
                    Ty::TinyInteger | Ty::TinyUnsigned | Ty::SmallInteger | Ty::SmallUnsigned => "TinyOrSmallInteger",
                    _ => c.ty.kind(),
                });
                return fail(
                    format!("engine-rejects/create-table/autoincrement-on-{}", kind.unwrap_or("undeclared")),
                    format!("the engine rejects the create-table statement: {}\n{create_sql}", e.msg),
                );
            }
            return fail(format!("engine-rejects/create-table/{}", engine::engine_class(&e)), format!("the engine rejects the create-table statement: {}\n{create_sql}", e.msg));
        }
        engine::verify(db, &model, "CREATE TABLE", obs).map_err(|e| with_sql(e, &create_sql))?;
        for (k, st) in c.steps.iter().enumerate() {
            let Some(rs) = model.resolve_step(st) else {
                obs.label(format!("step-skipped/{}", st.kind()));
                continue;
            };
            let sql = guard(st.kind(), || build::step_sql(&model, &rs))?;
            exec_stmt(db, st.kind(), &sql)?;
            model.apply(&rs);
            let noop = matches!(&rs, RStep::CreateIndex { already: true, .. } | RStep::DropIndex { exists: false, .. } | RStep::DropTable { exists: false, .. });
            obs.label(format!("step/{}{}", st.kind(), if noop { "/no-op" } else { "" }));
            if let RStep::CreateIndex { pred, unique, .. } = &rs {
                if pred.is_some() {
                    obs.label("step/create-index/partial");
                }
                if *unique {
                    obs.label("step/create-index/unique");
                }
            }
            if !matches!(st, Step::DropTable { .. }) && !noop {
                applied_alter_or_index += 1;
            }
            engine::verify(db, &model, &format!("step {k} ({})", st.kind()), obs).map_err(|e| with_sql(e, &sql))?;
        }
        Ok(())
    });
    r?;
    if nontrivial_table && (c.steps.is_empty() || applied_alter_or_index >= 1) {
        obs.nontrivial(c);
        if !c.steps.is_empty() {
            obs.label("history-with-alter-or-index");
        }
    }
    Ok(())
}

fn with_sql(e: Stop, sql: &str) -> Stop {
    match e {
        Stop::Fail { sig, detail } => Stop::Fail { sig, detail: format!("{detail}\nstatement: {sql}") },
        other => other,
    }
}

pub fn run(ctx: &mut Ctx) {
    ctx.rule = "case = table definition (1-6 columns over every ColumnType the SQLite backend renders, each with an ordered list of \
specifications NULL / NOT NULL / DEFAULT <int, negative int, float, text, bool, NULL, CURRENT_TIMESTAMP> / UNIQUE / PRIMARY KEY / AUTOINCREMENT / \
CHECK / COMMENT / EXTRA(COLLATE); table-level primary key, unique keys, foreign keys to two pre-created parents or to the table itself with all \
actions, CHECKs, IF NOT EXISTS, TEMPORARY) followed by a history of ADD/RENAME/DROP COLUMN, RENAME TABLE, CREATE [UNIQUE] INDEX [IF NOT EXISTS] \
(ASC/DESC, partial), DROP INDEX, DROP TABLE; names with quotes, spaces, keywords and Unicode. Executed on SQLite and compared with the catalogue \
model after every statement. Non-trivial = at least 2 columns and at least 1 constraint (NOT NULL, UNIQUE, PRIMARY KEY, CHECK, FOREIGN KEY) and, for \
histories, at least one applied ALTER / INDEX statement; distinct by case. The part `sweep` enumerates every supported column type x every single \
specification x every ordered pair of specifications (plus the orders of PRIMARY KEY/AUTOINCREMENT with a third one)."
        .into();
    ctx.assumptions = vec![
        format!("the system libsqlite3 ({}) is the reference engine; its pragmas report the catalogue faithfully", sqlite::version()),
        "intended affinity: integer family -> INTEGER; Float/Double/Decimal/Money -> REAL; Char/String/Text/date-time types/Json/Uuid/Enum -> TEXT; Binary/VarBinary/Blob -> BLOB; Boolean -> NUMERIC; Custom(name) -> the affinity the SQLite manual lists for that name".into(),
        "a column that is asked to be both NULL and NOT NULL has no declared nullability (nothing asserted about notnull)".into(),
        "PRIMARY KEY / UNIQUE constraints over the same ordered column list are one constraint to the engine (kept once, primary key wins)".into(),
        "feature option-sqlite-exact-column-type is off".into(),
    ];
    ctx.domain_restrictions = vec![
        "column types: no Interval/Array/Vector/Cidr/Inet/MacAddr/Year/Bit/VarBit/LTree (unimplemented! arms), Decimal precision <= 16 (panic arm)".into(),
        "at most one specification of each kind per column (two DEFAULTs contradict), at most one PRIMARY KEY per table (column-level or table-level)".into(),
        "AUTOINCREMENT only together with a column-level PRIMARY KEY on an integer-family type (engine grammar)".into(),
        "DEFAULTs are literals or keywords; float defaults are non-integral (an integral f64 is inlined as an integer literal, a C02/C03 matter); integers within i64".into(),
        "CHECK / partial-index predicates: comparisons of a column with a literal of the column's own storage class, IS [NOT] NULL, AND/OR/NOT".into(),
        "EXTRA is COLLATE NOCASE / COLLATE BINARY; no generated columns; no table options (WITHOUT ROWID, STRICT)".into(),
        "table-level indexes are PRIMARY KEY or UNIQUE without WHERE (engine grammar)".into(),
        "ALTER: one option per statement; ADD COLUMN without PRIMARY KEY/UNIQUE, without CURRENT_TIMESTAMP default, NOT NULL only with a non-NULL default; DROP COLUMN not on key/indexed/checked-at-table-level/foreign-key columns nor the last column; no MODIFY COLUMN, ADD/DROP FOREIGN KEY, TRUNCATE (panic arms)".into(),
        "RENAME COLUMN not on the single column of a table-level PRIMARY KEY that is written after a table-level UNIQUE mentioning it (SQLite 3.40.1 fails with 'error in table .. after rename' on such INTEGER keys)".into(),
        "identifiers: non-empty, no NUL, not starting with sqlite_, not rowid/oid/_rowid_; distinct ASCII-case-insensitively".into(),
        "all statements run on an empty table (probe rows are rolled back)".into(),
    ];
    let sweep = sweep_cases();
    ctx.run_indexed("sweep", sweep.len() as u64, &|i| sweep[i as usize].clone(), &check);
    let n = ctx.tier.pick(8_000, 240_000);
    let max_steps = ctx.tier.pick(5, 7);
    ctx.run_proptest("random-histories", n, &|| case_strategy(max_steps), &check);
    ctx.run_proptest("table-extra", ctx.tier.pick(3_000, 60_000), &table_extra::strategy, &table_extra::check);
    // self-test of the oracle's affinity rule: the engine's typeof() must agree with it everywhere
    let disagree: u64 = ctx.parts.iter().flat_map(|p| p.stats.undecided.iter()).filter(|(k, _)| k.starts_with("affinity-rule-vs-typeof")).map(|(_, v)| *v).sum();
    if disagree > 0 {
        ctx.note_inconclusive(format!("the oracle's type-name affinity rule disagrees with typeof() on {disagree} cases"));
    }
    let und: u64 = ctx.parts.iter().map(|p| p.stats.undecided.values().sum::<u64>()).sum();
    let ev: u64 = ctx.parts.iter().map(|p| p.stats.evaluations).sum();
    if und * 50 > ev {
        ctx.note_inconclusive(format!("{und} of {ev} cases undecided (harness-side probe failures)"));
    }
    ctx.extra.insert("sweep_cases".into(), serde_json::json!(sweep.len()));
    ctx.extra.insert("sqlite_version".into(), serde_json::json!(sqlite::version()));
}

pub fn replay(part: &str, case: &J, obs: &mut Obs) -> R {
    if part == "table-extra" {
        let c: table_extra::ExtraCase = from_case(case)?;
        return table_extra::check(&c, obs);
    }
    let c: Case = from_case(case)?;
    check(&c, obs)
}
