//! C17 — escape_string and unescape_string are inverse on every backend.
//! Oracle: round trip `unescape(escape(s)) == s`.

use crate::runner::*;
use crate::util::*;
use crate::with_backend;
use proptest::prelude::*;
use sea_query::EscapeBuilder;
use serde::{Deserialize, Serialize};
use serde_json::Value as J;

#[derive(Serialize, Deserialize, Clone, Debug)]
pub struct Case {
    pub s: String,
}

const ALPHABET: [&str; 19] = [
    "\\", "'", "\"", "a", "n", "0", "z", "Z", "b", "t", "r", "\n", "\t", "\r", "\0", "\u{8}", "\u{1a}", "%", "é",
];

pub fn check(c: &Case, obs: &mut Obs) -> R {
    for d in DIALECTS {
        let (esc, back) = with_backend!(d, b => {
            let e = b.escape_string(&c.s);
            let u = b.unescape_string(&e);
            (e, u)
        });
        if back != c.s {
            return fail(
                format!("roundtrip/{}", d.name()),
                format!("{}: input {:?} escaped {:?} unescaped {:?}", d.name(), c.s, esc, back),
            );
        }
        if esc != c.s {
            obs.label(format!("escaped-differs/{}", d.name()));
        }
    }
    let nt = c.s.chars().any(|ch| matches!(ch, '\\' | '\'' | '"' | '\n' | '\t' | '\r' | '\0' | '\u{8}' | '\u{1a}') || (ch as u32) > 0x7f);
    if nt {
        obs.nontrivial(&c.s);
        obs.label("has-escapable");
    }
    Ok(())
}

pub fn run(ctx: &mut Ctx) {
    ctx.rule = "inputs: all strings over the 19-symbol alphabet {\\ ' \" a n 0 z Z b t r LF TAB CR NUL BS 0x1A % é} up to length L \
(exhaustive) every Unicode scalar value alone and in context, \
four shapes of every length up to 1500 (quick) / 8000 (thorough) chars, and random Unicode strings (NUL included) up to 64 chars, each on the 3 backends. Non-trivial = the string contains a \
character that is escaped, a backslash or a non-ASCII character; distinct by input."
        .into();
    let max_len = ctx.tier.pick(4, 5);
    let total = count_strings(19, max_len);
    ctx.run_indexed("alphabet", total, &|i| Case { s: nth_string(&ALPHABET, i) }, &check);
    // every Unicode scalar value, alone and in context (exhaustive over code points)
    ctx.run_indexed(
        "all-chars",
        0x110000 * 2,
        &|i| {
            let ch = char::from_u32((i / 2) as u32).unwrap_or('\u{fffd}');
            Case { s: if i % 2 == 0 { ch.to_string() } else { format!("a\\{ch}'{ch}") } }
        },
        &check,
    );
    if let Some(p) = ctx.parts.last_mut() {
        p.exhaustive = true;
    }
    // every length up to a bound, four shapes each (block-wise scanners, buffers): an escapable character at the very end, a
    // backslash every seventh character, a two-byte character in front (shifts byte offsets), and a dense mix
    let max_chars: u64 = ctx.tier.pick(1_500, 8_000);
    ctx.run_indexed(
        "lengths",
        (max_chars + 1) * 4,
        &|i| {
            let len = (i / 4) as usize;
            let s: String = match i % 4 {
                0 => (0..len).map(|k| if k + 1 == len { '\n' } else { 'a' }).collect(),
                1 => (0..len).map(|k| if k % 7 == 6 { '\\' } else { 'b' }).collect(),
                2 => (0..len).map(|k| if k == 0 { 'é' } else if k + 1 == len { '\'' } else { 'c' }).collect(),
                _ => {
                    const UNITS: [char; 8] = ['a', '\'', '\\', 'é', '😀', '\n', '"', '\0'];
                    (0..len).map(|k| UNITS[(k * 5 + len) % 8]).collect()
                }
            };
            Case { s }
        },
        &check,
    );
    let n = ctx.tier.pick(100_000, 3_000_000);
    ctx.run_proptest("random-unicode", n, &|| nasty_string_nul(64).prop_map(|s| Case { s }), &check);
    if let Some(p) = ctx.parts.first_mut() {
        p.exhaustive = true;
    }
    ctx.extra.insert("alphabet_max_len".into(), serde_json::json!(max_len));
}

pub fn replay(_part: &str, case: &J, obs: &mut Obs) -> R {
    let c: Case = from_case(case)?;
    check(&c, obs)
}
