use crate::runner::{Ctx, Obs, R};
use serde_json::Value as J;

pub mod c01;
pub mod c02;
pub mod c03;
pub mod c04;
pub mod c05;
pub mod c06;
pub mod c07;
pub mod c08;
pub mod c09;
pub mod c10;
pub mod c11;
pub mod c12;
pub mod c13;
pub mod c14;
pub mod c15;
pub mod c16;
pub mod c17;
pub mod c18;
pub mod c19;
pub mod c20;

pub struct Prop {
    pub id: &'static str,
    pub run: fn(&mut Ctx),
    pub replay: fn(&str, &J, &mut Obs) -> R,
}

pub fn all() -> Vec<Prop> {
    vec![
        Prop { id: "C01", run: c01::run, replay: c01::replay },
        Prop { id: "C02", run: c02::run, replay: c02::replay },
        Prop { id: "C03", run: c03::run, replay: c03::replay },
        Prop { id: "C04", run: c04::run, replay: c04::replay },
        Prop { id: "C05", run: c05::run, replay: c05::replay },
        Prop { id: "C06", run: c06::run, replay: c06::replay },
        Prop { id: "C07", run: c07::run, replay: c07::replay },
        Prop { id: "C08", run: c08::run, replay: c08::replay },
        Prop { id: "C09", run: c09::run, replay: c09::replay },
        Prop { id: "C10", run: c10::run, replay: c10::replay },
        Prop { id: "C11", run: c11::run, replay: c11::replay },
        Prop { id: "C12", run: c12::run, replay: c12::replay },
        Prop { id: "C13", run: c13::run, replay: c13::replay },
        Prop { id: "C14", run: c14::run, replay: c14::replay },
        Prop { id: "C15", run: c15::run, replay: c15::replay },
        Prop { id: "C16", run: c16::run, replay: c16::replay },
        Prop { id: "C17", run: c17::run, replay: c17::replay },
        Prop { id: "C18", run: c18::run, replay: c18::replay },
        Prop { id: "C19", run: c19::run, replay: c19::replay },
        Prop { id: "C20", run: c20::run, replay: c20::replay },
    ]
}
