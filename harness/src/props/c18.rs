//! C18 — with `hashable-value`, `Value` equality is an equivalence relation that is coherent with `Hash`.
//!
//! Oracle (all from the property text, never from sea-query's own answer):
//!   * `==` is reflexive (same object, clone, and an independently constructed copy — NaN included),
//!     symmetric and transitive (all ordered pairs / triples of a pool);
//!   * values whose harness-side specs name different variants are never equal;
//!   * values whose payloads are equal under the payload type's own `==` (floats: `==` or both NaN, per the
//!     doc comment on `Value`) are equal;
//!   * `a == b` implies equal hashes under SipHash (fixed keys), a byte-sum hasher, FNV-1a and — the general
//!     statement "for every hasher" — an identical sequence of `Hasher::write*` calls;
//!   * `HashSet` / `HashMap` membership (deterministic hasher) agrees with `==`; same for `ValueTuple`.
//!
//! The whole module needs the harness feature `hv` (sea-query `hashable-value`).

#[cfg(not(feature = "hv"))]
mod imp {
    use crate::runner::*;
    use serde_json::Value as J;

    pub fn run(ctx: &mut Ctx) {
        ctx.rule = "not evaluated: the hashable-value build is required".into();
        ctx.note_inconclusive("C18 needs the hv build");
    }

    pub fn replay(_part: &str, _case: &J, _obs: &mut Obs) -> R {
        undecided("C18 needs the hv build")
    }
}

#[cfg(feature = "hv")]
#[path = "c18_spec.rs"]
pub mod spec;

#[cfg(feature = "hv")]
#[path = "c18_gen.rs"]
pub mod gen;

#[cfg(feature = "hv")]
#[path = "c18_check.rs"]
mod imp;

pub use imp::{replay, run};
