//! C01 — placeholders and bound values correspond one-to-one, in order.
//!
//! Oracle: (1) the returned SQL is lexed with the harness's dialect lexer: the parameter tokens
//! outside quoted text are counted and their form checked (bare `?` on MySQL / SQLite; `$1..$n`,
//! each once, ascending in reading order on Postgres; no stray mark); (2) the returned `Values`
//! must equal the expected sequence computed by `stmt_params` — an independent traversal of the
//! spec in the reading order of the dialect's grammar — after every bound value of the spec was
//! given a unique tag, so loss, duplication and reordering all show; (3) `build_any` and
//! `build_collect*` return the same pair.

use crate::lex::{self, Tok};
use crate::runner::*;
use crate::stmt_gen;
use crate::stmt_params::*;
use crate::stmt_spec::*;
use crate::util::*;
use crate::{on_built, with_backend};
use proptest::prelude::*;
use sea_query::*;
use serde::{Deserialize, Serialize};
use serde_json::Value as J;

#[derive(Serialize, Deserialize, Clone, Debug, PartialEq, Eq, Hash)]
pub struct Case {
    pub dialect: Dialect,
    pub stmt: Stmt,
}

pub fn check(c: &Case, obs: &mut Obs) -> R {
    let d = c.dialect;
    let mut st = c.stmt.clone();
    tag_stmt(&mut st);
    let built = guard("builder-calls", || st.build(d))?;
    let (sql, values) = guard("build", || built.build(d))?;
    obs.note(sql.clone());
    let kind = st.kind();
    let toks = match lex::lex(d, &sql) {
        Ok(t) => t,
        Err(e) => return fail(format!("lex-error/{}/{kind}", d.name()), format!("{sql:?}: {e:?}\nspec {:?}", c.stmt)),
    };
    // ---- (1) placeholder tokens
    let params: Vec<&Tok> = toks.iter().map(|t| &t.tok).filter(|t| matches!(t, Tok::Param(_))).collect();
    if params.len() != values.0.len() {
        return fail(
            format!("placeholder-count/{}/{kind}", d.name()),
            format!("{sql:?} has {} placeholders outside quoted text but {} values were returned\nspec {:?}", params.len(), values.0.len(), c.stmt),
        );
    }
    match d {
        Dialect::Postgres => {
            for (i, p) in params.iter().enumerate() {
                if **p != Tok::Param(Some(i as u32 + 1)) {
                    return fail(format!("placeholder-numbering/pg/{kind}"), format!("{sql:?}: placeholder #{} in reading order is {}\nspec {:?}", i + 1, p.show(), c.stmt));
                }
            }
            if let Some(t) = toks.iter().find(|t| matches!(&t.tok, Tok::Op(o) if o.contains('?'))) {
                return fail(format!("stray-mark/pg/{kind}"), format!("{sql:?}: stray question mark {}", t.tok.show()));
            }
        }
        _ => {
            if let Some(p) = params.iter().find(|p| ***p != Tok::Param(None)) {
                return fail(format!("placeholder-form/{}/{kind}", d.name()), format!("{sql:?}: placeholder {} is not a bare ?", p.show()));
            }
            if let Some(t) = toks.iter().find(|t| matches!(&t.tok, Tok::Word(w) if w.starts_with('$') && w[1..].chars().all(|c| c.is_ascii_digit()) && w.len() > 1)) {
                return fail(format!("stray-mark/{}/{kind}", d.name()), format!("{sql:?}: numbered mark {} in a dialect with positional parameters", t.tok.show()));
            }
        }
    }
    // ---- (2) the value sequence
    let want = stmt_params(&st, d);
    let got: Vec<PV> = values.0.iter().map(pv_of_value).collect();
    if got != want.v {
        let i = got.iter().zip(want.v.iter()).position(|(a, b)| a != b).unwrap_or(got.len().min(want.v.len()));
        let clause = want.labels.get(i).copied().unwrap_or("after-last-expected");
        let what = if got.len() < want.v.len() && got.iter().all(|g| want.v.contains(g)) {
            "lost"
        } else if got.len() > want.v.len() {
            "extra"
        } else {
            "reordered-or-changed"
        };
        return fail(
            format!("values-{what}/{}/{kind}/{clause}", d.name()),
            format!("{sql:?}\n returned values {:?}\n expected (reading order of the spec) {:?}\n first difference at #{} (clause {clause})\nspec {:?}", got, want.v, i + 1, c.stmt),
        );
    }
    // ---- (3) the other entry points return the same pair
    let (sql2, values2) = guard("build_any", || on_built!(&built, s => with_backend!(d, b => s.build_any(&b))))?;
    if sql2 != sql || values2 != values {
        return fail(format!("entry-point/build_any/{}", d.name()), format!("build gave {sql:?} / {:?}, build_any gave {sql2:?} / {:?}", values.0, values2.0));
    }
    let (sql3, values3) = guard("build_collect_any", || {
        on_built!(&built, s => with_backend!(d, b => {
            let (ph, numbered) = b.placeholder();
            let mut w = SqlWriterValues::new(ph, numbered);
            let text = s.build_collect_any(&b, &mut w);
            let (text2, vals) = w.into_parts();
            assert_eq!(text, text2, "build_collect_any returns the writer's text");
            (text2, vals)
        }))
    })?;
    if sql3 != sql || values3 != values {
        return fail(format!("entry-point/build_collect_any/{}", d.name()), format!("build gave {sql:?}, build_collect_any gave {sql3:?}"));
    }
    // ---- classification
    let nested = sql.matches("SELECT").count() > 1 || sql.contains("CASE") || sql.contains("VALUES") || sql.contains("LIMIT") || sql.contains("OVER") || sql.contains("CONFLICT") || sql.contains("RETURNING") || sql.contains("WITH ");
    obs.label(kind);
    for (k, l) in [("UNION", "set-op"), ("WITH ", "cte"), ("OVER", "window"), ("CASE", "case"), ("CONFLICT", "upsert"), ("DUPLICATE", "upsert"), ("RETURNING", "returning"), ("LIMIT", "limit"), ("PRECEDING", "frame-offset"), ("FOLLOWING", "frame-offset")] {
        if sql.contains(k) {
            obs.label(l);
        }
    }
    // rarely used expression entry points (measured so that a generator that stops producing them is noticed)
    for (k, l) in [("LOCALTIMESTAMP", "expr/custom-keyword"), ("_TSQUERY(", "expr/pg-text-search-fn"), ("TS_RANK_CD(", "expr/pg-text-search-fn"), (" ILIKE ", "expr/pg-ilike"), (" IN ((", "expr/in-tuples")] {
        if sql.contains(k) {
            obs.label(l);
        }
    }
    if matches!(built, Built::With(_)) {
        obs.label("with-query-wrapper");
    }
    if values.0.len() >= 2 && nested {
        obs.nontrivial(&sql);
        obs.label(format!("params>=2/{}", d.name()));
    }
    Ok(())
}

pub fn case_strategy() -> impl Strategy<Value = Case> {
    stmt_gen::dialect_stmt_render().prop_map(|(dialect, stmt)| Case { dialect, stmt })
}

pub fn run(ctx: &mut Ctx) {
    ctx.rule = "cases = (backend, statement spec): SELECT / INSERT / UPDATE / DELETE with WITH clauses, nesting up to 3 (subqueries in FROM / JOIN, set-operation arms, CTE bodies), \
expressions with values, CASE, IN lists (incl. the empty-list rewrite), LIKE patterns, custom templates, VALUES tables, window definitions with frame offsets (inline and named), ORDER BY with NULLS and FIELD, \
LIMIT / OFFSET, upsert (target / action WHERE, update values), RETURNING expressions, MySQL joined UPDATE. Every bound value is re-tagged uniquely before building; plus one statement with exactly k bound values for every k up to 2200 (quick) / 12000 (thorough) per backend. \
Non-trivial = at least 2 parameters and at least one nesting construct; distinct by rendered SQL."
        .into();
    ctx.assumptions.push("reading order of clauses per dialect is transcribed in stmt_params.rs from the engines' grammars; MySQL's NULLS emulation and ORDER BY FIELD legitimately repeat the ordered expression (its values are bound once per repetition)".into());
    ctx.domain_restrictions.push("combinations a backend documents as unsupported (panic arms) or that the engine grammar cannot express are not generated (see stmt_gen::fix_render)".into());
    let n = ctx.tier.pick(200_000, 4_000_000);
    ctx.run_proptest("statements", n, &case_strategy, &check);
    // every parameter count up to a bound on every backend (number formatting of $n, buffers): SELECT with an IN list of k values
    // and a LIMIT, alternately an INSERT of k single-value rows
    let max_params: u64 = ctx.tier.pick(2_200, 12_000);
    ctx.run_indexed("parameter-counts", max_params * 3, &|i| many_params_case(DIALECTS[(i % 3) as usize], 1 + (i / 3) as usize), &check);
}

pub fn many_params_case(dialect: Dialect, k: usize) -> Case {
    use crate::expr_spec::E;
    let stmt = if k % 2 == 1 {
        let mut s = SelectSpec::default();
        s.items = vec![Item { e: E::Col(0), alias: None, win: None }];
        s.from = vec![FromSpec::Table(0, None)];
        s.wheres = vec![E::In { not: false, x: Box::new(E::Col(1)), list: (0..k as i64 - 1).map(E::Int).collect() }];
        s.limit = Some(7);
        Stmt::Select(s)
    } else {
        Stmt::Insert(InsertSpec {
            replace: false,
            table: 0,
            columns: vec![1],
            source: InsertSource::Values((0..k as i64).map(|v| vec![E::Int(v)]).collect()),
            on_conflict: None,
            returning: None,
            with: None,
            api: (k % 3) as u8,
        })
    };
    Case { dialect, stmt }
}

pub fn replay(_part: &str, case: &J, obs: &mut Obs) -> R {
    let c: Case = from_case(case)?;
    check(&c, obs)
}
