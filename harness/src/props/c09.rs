//! C09 — portable statements denote the same query on all three backends.
//!
//! Oracle (metamorphic / differential): a statement from the portable subset is rendered for
//! MySQL, Postgres and SQLite in both modes; the MySQL and Postgres texts are transliterated into
//! SQLite spelling token by token (`translit.rs`: identifier quotes, placeholder style, literal
//! syntax, set-operation parentheses, VALUES ROW, default-row forms, the documented function-name
//! substitutions — nothing else); all six statements are executed on identical fresh copies of a
//! fixed database by the real SQLite engine and must return identical rows and leave identical
//! tables. A function name that the *source* dialect does not define is reported, so a wrong
//! substitution cannot hide behind SQLite accepting both spellings.

use crate::props::c07::{bind_of, compare, execute, Outcome};
use crate::runner::*;
use crate::sqlite::Bind;
use crate::stmt_gen::{self, ExecOpts};
use crate::stmt_spec::*;
use crate::translit::{to_sqlite, TErr};
use crate::util::*;
use proptest::prelude::*;
use serde::{Deserialize, Serialize};
use serde_json::Value as J;

#[derive(Serialize, Deserialize, Clone, Debug, PartialEq, Eq, Hash)]
pub struct Case {
    pub stmt: Stmt,
}

fn divergent_constructs(sqls: &[String]) -> Vec<&'static str> {
    let mut v = vec![];
    let my = &sqls[0];
    let pg = &sqls[1];
    if my.contains("IS NULL ASC,") || my.contains("IS NULL DESC,") {
        v.push("mysql-nulls-emulation");
    }
    if pg.contains("UNION (") || pg.contains("UNION ALL (") || pg.contains("EXCEPT (") || pg.contains("INTERSECT (") {
        v.push("set-operation-parentheses");
    }
    if my.contains("GREATEST") || my.contains("LEAST") || my.contains("CHAR_LENGTH") || (my.contains("IFNULL") && pg.contains("COALESCE")) {
        v.push("function-substitution");
    }
    if my.contains("ROW(") {
        v.push("values-row");
    }
    if my.contains("VALUES ()") {
        v.push("default-row");
    }
    if my.contains('\\') || pg.contains("E'") {
        v.push("text-literal-escapes");
    }
    v
}

pub fn check(c: &Case, obs: &mut Obs) -> R {
    let st = &c.stmt;
    let is_ordered = matches!(st, Stmt::Select(q) if !q.orders.is_empty());
    let mut baseline: Option<Result<Outcome, String>> = None;
    let mut inline_texts = vec![];
    // SQLite first: it is the baseline the others are compared with
    for d in [Dialect::Sqlite, Dialect::Mysql, Dialect::Postgres] {
        let built = guard("builder-calls", || st.build(d))?;
        let inline = guard("to_string", || built.to_string(d))?;
        let (psql, values) = guard("build", || built.build(d))?;
        if d != Dialect::Sqlite {
            inline_texts.push(inline.clone());
        } else {
            obs.note(inline.clone());
        }
        let binds: Vec<Bind> = match values.0.iter().map(bind_of).collect::<Option<Vec<_>>>() {
            Some(b) => b,
            None => return discard("unbindable value"),
        };
        for (mode, text, b) in [("inline", &inline, vec![]), ("bound", &psql, binds)] {
            let tl = match to_sqlite(d, text) {
                Ok(t) => t,
                Err(TErr::NotInDialect(m)) => return fail(format!("not-in-dialect/{}", d.name()), format!("{text:?}: {m}\nspec {st:?}")),
                Err(TErr::Lex(m)) => return fail(format!("lex-error/{}", d.name()), format!("{text:?}: {m}")),
                Err(TErr::Shape(m)) => return discard(format!("not transliterable: {m}")),
            };
            let got = execute(&tl, &b);
            match &baseline {
                None => {
                    if let Err(e) = &got {
                        if e.starts_with("prepare:") || e.starts_with("INTERRUPTED") {
                            return discard(format!("baseline rejected: {}", e.chars().take(50).collect::<String>()));
                        }
                    }
                    baseline = Some(got);
                }
                Some(base) => match (base, &got) {
                    (Ok(want), Ok(g)) => {
                        if let Err((sig, detail)) = compare(&format!("{}-{mode}", d.name()), want, g, is_ordered) {
                            // ORDER BY FIELD combined with NULLS FIRST/LAST: MySQL tests the expression for NULL, the other
                            // backends put NULLS .. on the CASE (which is never NULL)
                            let j = serde_json::to_string(st).unwrap_or_default();
                            let field_with_nulls = regex_lite_field_nulls(&j);
                            let sig = if field_with_nulls && d == Dialect::Mysql { "mysql/field-order-with-nulls".to_string() } else { sig };
                            return fail(
                                sig,
                                format!("{} {mode}: {text:?}\ntransliterated: {tl:?}\n{detail}\nspec {st:?}", d.name()),
                            );
                        }
                    }
                    (Err(a), Err(b2)) if a == b2 => {}
                    (a, b2) => {
                        // the same known divergence (FIELD order + NULLS on MySQL) can show as a run-time failure on one side only
                        // (INSERT .. SELECT .. LIMIT picks another row, which then violates a key)
                        let field_with_nulls = d == Dialect::Mysql && regex_lite_field_nulls(&serde_json::to_string(st).unwrap_or_default());
                        return fail(
                            if field_with_nulls { "mysql/field-order-with-nulls".to_string() } else { format!("{}-{mode}-outcome-differs", d.name()) },
                            format!("{} {mode}: {text:?}\ntransliterated: {tl:?}\nbaseline outcome {:?}\nthis outcome {:?}\nspec {st:?}", d.name(), a.as_ref().map(|o| o.rows.len()), b2.as_ref().map(|o| o.rows.len())),
                        )
                    }
                },
            }
        }
    }
    // anchor: the query the three renderings agree on is the one the builder calls describe (an explicit, fully parenthesised
    // rendering of the spec with native NULLS FIRST / LAST) — three renderings that agree with each other because all of them lost
    // the same clause do not denote "the same query" as the statement
    if let (Some(Ok(base)), Some(reference_sql)) = (&baseline, crate::stmt_ref::ref_stmt(st)) {
        if let Ok(reference) = execute(&reference_sql, &[]) {
            obs.label("anchored-to-reference");
            if let Err((sig, detail)) = compare("reference", &reference, base, is_ordered) {
                let sig = sig.replace("reference", "all-renderings-differ-from-the-statement-built");
                return fail(sig, format!("reference rendering of the builder calls: {reference_sql:?}\nSQLite rendering: {:?}\n{detail}\nspec {st:?}", obs_first_note(&inline_texts)));
            }
        }
    }
    let div = divergent_constructs(&inline_texts);
    for dname in &div {
        obs.label(*dname);
    }
    obs.label(st.kind());
    let effect = match &baseline {
        Some(Ok(o)) => match st {
            Stmt::Select(_) => o.rows.len(),
            _ => 1,
        },
        _ => 0,
    };
    if effect >= 1 && !div.is_empty() {
        obs.nontrivial(&inline_texts);
    }
    Ok(())
}

fn obs_first_note(texts: &[String]) -> String {
    texts.first().cloned().unwrap_or_default()
}

/// does the serialised spec contain an order term with `"dir":{"Field":[..]}` and a non-null `"nulls"`?
fn regex_lite_field_nulls(j: &str) -> bool {
    let mut rest = j;
    while let Some(i) = rest.find("\"dir\":{\"Field\":") {
        let tail = &rest[i..];
        if let Some(k) = tail.find("\"nulls\":") {
            let v = &tail[k + 8..];
            if v.starts_with("true") || v.starts_with("false") {
                return true;
            }
        }
        rest = &rest[i + 10..];
    }
    false
}

pub fn case_strategy() -> impl Strategy<Value = Case> {
    stmt_gen::stmt_exec(ExecOpts { portable: true }).prop_map(|stmt| Case { stmt })
}

pub fn run(ctx: &mut Ctx) {
    ctx.rule = "cases = statement specs from the portable subset: SELECT (DISTINCT, arithmetic / comparison / logical operators, CASE, IN, EXISTS, BETWEEN, COALESCE / IFNULL / GREATEST / LEAST / CHAR_LENGTH, inner / left joins, \
derived tables, GROUP BY / HAVING, un-nested set operations, ORDER BY with NULLS FIRST/LAST and FIELD order, LIMIT / OFFSET, CTEs), INSERT VALUES / SELECT / default row, UPDATE, DELETE — over integer data. \
Each is rendered for the three backends in both modes (six texts), transliterated lexically and executed on SQLite; the common outcome is also compared with an explicit reference rendering of the builder calls (native NULLS FIRST / LAST), so that three renderings which agree because all of them lost the same clause are noticed. Non-trivial = the statement returns or changes at least one row and exercises at least one lexically divergent construct \
(MySQL NULLS emulation, set-operation parentheses, function substitution, VALUES ROW, default-row form, text literal with backslash escapes / E'' form); distinct by the pair of MySQL / Postgres texts."
        .into();
    ctx.assumptions.push("executing a transliteration on SQLite evaluates the structure (clauses, grouping, parenthesisation, emulations) the other backend produced; it says nothing about MySQL / Postgres run-time semantics of individual operators".into());
    ctx.domain_restrictions.push("ORDER BY FIELD is not combined with NULLS FIRST / LAST (known finding mysql/field-order-with-nulls, demonstrated by its own reproducer)".into());
    ctx.domain_restrictions.push("excluded as not portable: RETURNING, upsert, REPLACE, locks, RIGHT / FULL / CROSS joins, windows, division / modulo / shift / bit operators, LIKE, boolean values, text values other than whole select items, custom operators and templates, ORDER BY / LIMIT on UPDATE / DELETE".into());
    let n = ctx.tier.pick(150_000, 3_000_000);
    ctx.run_proptest("statements", n, &case_strategy, &check);
}

pub fn replay(_part: &str, case: &J, obs: &mut Obs) -> R {
    let c: Case = from_case(case)?;
    check(&c, obs)
}
