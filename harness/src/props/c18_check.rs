//! C18: oracles and the run / replay entry points (hv build only).

use super::gen::*;
use super::spec::*;
use crate::runner::*;
use sea_query::{Value, ValueTuple, Values};
use serde::ser::SerializeMap;
use serde::{Deserialize, Serialize, Serializer};
use serde_json::Value as J;
use std::collections::hash_map::DefaultHasher;
use std::collections::{HashMap, HashSet};
use std::hash::{BuildHasherDefault, Hash, Hasher};

// ---------------------------------------------------------------------------------------------
// hashers

/// adds up every byte it is given: as weak as a hasher can be while still looking at the data
#[derive(Default)]
struct SumHasher(u64);
impl Hasher for SumHasher {
    fn write(&mut self, b: &[u8]) {
        for x in b {
            self.0 = self.0.wrapping_add(*x as u64);
        }
    }
    fn finish(&self) -> u64 {
        self.0
    }
}

struct Fnv(u64);
impl Default for Fnv {
    fn default() -> Self {
        Fnv(0xcbf2_9ce4_8422_2325)
    }
}
impl Hasher for Fnv {
    fn write(&mut self, b: &[u8]) {
        for x in b {
            self.0 ^= *x as u64;
            self.0 = self.0.wrapping_mul(0x0000_0100_0000_01b3);
        }
    }
    fn finish(&self) -> u64 {
        self.0
    }
}

/// records the exact sequence of `write*` calls (which method, which bytes)
#[derive(Default)]
struct Rec(Vec<u8>);
impl Rec {
    fn ev(&mut self, tag: u8, bytes: &[u8]) {
        self.0.push(tag);
        self.0.extend_from_slice(&(bytes.len() as u32).to_le_bytes());
        self.0.extend_from_slice(bytes);
    }
}
macro_rules! rec_int {
    ($($f:ident $t:ty => $tag:expr),*) => { $(fn $f(&mut self, i: $t) { self.ev($tag, &i.to_le_bytes()); })* };
}
impl Hasher for Rec {
    fn write(&mut self, b: &[u8]) {
        self.ev(0, b);
    }
    rec_int!(write_u8 u8 => 1, write_u16 u16 => 2, write_u32 u32 => 3, write_u64 u64 => 4, write_u128 u128 => 5,
             write_usize usize => 6, write_i8 i8 => 7, write_i16 i16 => 8, write_i32 i32 => 9, write_i64 i64 => 10,
             write_i128 i128 => 11, write_isize isize => 12);
    fn finish(&self) -> u64 {
        let mut f = Fnv::default();
        f.write(&self.0);
        f.finish()
    }
}

struct Hashes {
    sip: u64,
    sum: u64,
    fnv: u64,
    rec: Vec<u8>,
}

fn hashes<T: Hash>(v: &T) -> Hashes {
    let mut sip = std::hash::SipHasher::new_with_keys(0x0123_4567_89ab_cdef, 0xfedc_ba98_7654_3210);
    v.hash(&mut sip);
    let mut sum = SumHasher::default();
    v.hash(&mut sum);
    let mut fnv = Fnv::default();
    v.hash(&mut fnv);
    let mut rec = Rec::default();
    v.hash(&mut rec);
    Hashes { sip: sip.finish(), sum: sum.finish(), fnv: fnv.finish(), rec: rec.0 }
}

/// which hasher tells the two apart (None = all agree)
fn hash_diff(a: &Hashes, b: &Hashes) -> Option<&'static str> {
    if a.rec != b.rec {
        if a.sip != b.sip {
            Some("sip")
        } else if a.fnv != b.fnv {
            Some("fnv")
        } else if a.sum != b.sum {
            Some("bytesum")
        } else {
            Some("write-sequence")
        }
    } else if a.sip != b.sip || a.fnv != b.fnv || a.sum != b.sum {
        Some("nondeterministic")
    } else {
        None
    }
}

type DetState = BuildHasherDefault<DefaultHasher>;

// ---------------------------------------------------------------------------------------------
// oracles

fn refl<T: PartialEq + Clone + Hash>(what: &str, tag: &str, v: &T) -> R {
    #[allow(clippy::eq_op)]
    if !(v == v) || v != v {
        return fail(format!("reflexive/{what}/{tag}"), format!("{what} of variant {tag} is not equal to itself"));
    }
    let c = v.clone();
    if !(*v == c) || !(c == *v) {
        return fail(format!("reflexive-clone/{what}/{tag}"), format!("{what} of variant {tag} is not equal to its clone"));
    }
    if let Some(h) = hash_diff(&hashes(v), &hashes(&c)) {
        return fail(format!("hash-differs/{h}/{what}/{tag}"), format!("{what} and its clone hash differently ({h})"));
    }
    Ok(())
}

/// nontrivial class of a pair, by the rule N of the design
fn pair_class(sa: &Spec, sb: &Spec, equal: bool) -> Option<&'static str> {
    if sa.tag() != sb.tag() {
        if payload_key(sa) == payload_key(sb) {
            return Some("differs-only-in-variant");
        }
        return None;
    }
    if equal && sa != sb {
        return Some("equal-not-identical");
    }
    if let (Spec::Array(ta, ea), Spec::Array(tb, eb)) = (sa, sb) {
        if ta != tb && ea == eb {
            return Some("differs-only-in-array-type");
        }
    }
    None
}

pub fn check_pair(a: &Value, sa: &Spec, b: &Value, sb: &Spec, obs: &mut Obs) -> R {
    let (ta, tb) = (sa.tag(), sb.tag());
    refl("value", ta, a)?;
    refl("value", tb, b)?;
    let ab = a == b;
    let ba = b == a;
    if ab != ba {
        return fail(format!("symmetry/{ta}/{tb}"), format!("a == b is {ab} but b == a is {ba}\na = {a:?}\nb = {b:?}"));
    }
    if (a != b) == ab {
        return fail(format!("ne-inconsistent/{ta}"), format!("a == b and a != b are both {ab}\na = {a:?}\nb = {b:?}"));
    }
    if ta != tb {
        if ab {
            return fail(
                format!("cross-variant-equal/{ta}/{tb}"),
                format!("values of different variants compare equal\na = {a:?}\nb = {b:?}"),
            );
        }
    } else {
        let pe = payload_eq(sa, sb) == Some(true);
        if pe && !ab {
            let sig = if json_differs_only_in_zero_sign(sa, sb) {
                SIG_JSON_ZERO_SIGN.to_string()
            } else {
                format!("equal-payload-unequal/{ta}")
            };
            return fail(sig, format!("payloads are equal (payload type's own ==) but the values are not\na = {a:?}\nb = {b:?}"));
        }
        if !pe && ab {
            obs.label(format!("equal-beyond-payload-eq/{ta}"));
        }
    }
    if ab {
        let (ha, hb) = (hashes(a), hashes(b));
        if let Some(h) = hash_diff(&ha, &hb) {
            return fail(
                format!("hash-differs/{h}/{ta}"),
                format!(
                    "a == b but the hashes differ ({h}): sip {:016x} vs {:016x}, write log {} vs {} bytes\na = {a:?}\nb = {b:?}",
                    ha.sip,
                    hb.sip,
                    ha.rec.len(),
                    hb.rec.len()
                ),
            );
        }
    }
    // hash containers (deterministic hasher) must agree with ==
    let mut set: HashSet<Value, DetState> = HashSet::default();
    set.insert(a.clone());
    if set.contains(b) != ab {
        return fail(
            format!("hashset-membership/{ta}"),
            format!("a == b is {ab} but HashSet{{a}}.contains(b) is {}\na = {a:?}\nb = {b:?}", !ab),
        );
    }
    let fresh = set.insert(b.clone());
    if fresh == ab || set.len() != if ab { 1 } else { 2 } {
        return fail(format!("hashset-insert/{ta}"), format!("a == b is {ab} but inserting both gave {} entries", set.len()));
    }
    let mut map: HashMap<Value, u8, DetState> = HashMap::default();
    map.insert(b.clone(), 1);
    if map.get(a).is_some() != ab {
        return fail(format!("hashmap-lookup/{ta}"), format!("a == b is {ab} but HashMap{{b}}.get(a) disagrees\na = {a:?}\nb = {b:?}"));
    }
    if ab {
        obs.label("equal");
    }
    if let Some(c) = pair_class(sa, sb, ab) {
        obs.label(format!("{c}/{ta}"));
        obs.nontrivial(&("pair", sa, sb));
    }
    Ok(())
}

pub fn check_triple(v: [&Value; 3], s: [&Spec; 3], obs: &mut Obs) -> R {
    let ab = v[0] == v[1];
    if !ab {
        return Ok(());
    }
    let bc = v[1] == v[2];
    if !bc {
        return Ok(());
    }
    let ac = v[0] == v[2];
    if !ac {
        return fail(
            format!("transitivity/{}", s[0].tag()),
            format!("a == b and b == c but a != c\na = {:?}\nb = {:?}\nc = {:?}", v[0], v[1], v[2]),
        );
    }
    let (ha, hc) = (hashes(v[0]), hashes(v[2]));
    if let Some(h) = hash_diff(&ha, &hc) {
        return fail(format!("hash-differs/{h}/{}", s[0].tag()), format!("a == c but hashes differ\na = {:?}\nc = {:?}", v[0], v[2]));
    }
    if !(s[0] == s[1] && s[1] == s[2]) {
        obs.label("chain-not-identical");
        obs.nontrivial(&("triple", s[0], s[1], s[2]));
    }
    Ok(())
}

fn mk_tuple(vals: Vec<Value>, many: bool) -> ValueTuple {
    if many || vals.is_empty() || vals.len() > 3 {
        return ValueTuple::Many(vals);
    }
    let mut it = vals.into_iter();
    match it.len() {
        1 => ValueTuple::One(it.next().unwrap()),
        2 => ValueTuple::Two(it.next().unwrap(), it.next().unwrap()),
        _ => ValueTuple::Three(it.next().unwrap(), it.next().unwrap(), it.next().unwrap()),
    }
}

fn shape(n: usize, many: bool) -> &'static str {
    if many || n == 0 || n > 3 {
        "Many"
    } else {
        ["One", "Two", "Three"][n - 1]
    }
}

pub fn check_tuple(c: &TupleCase, obs: &mut Obs) -> R {
    let va: Vec<Value> = c.a.iter().map(build).collect();
    let vb: Vec<Value> = c.b.iter().map(build).collect();
    let (sha, shb) = (shape(va.len(), c.many_a), shape(vb.len(), c.many_b));
    let elementwise_payload_eq =
        c.a.len() == c.b.len() && c.a.iter().zip(c.b.iter()).all(|(x, y)| payload_eq(x, y) == Some(true));
    let elementwise_value_eq = va.len() == vb.len() && va.iter().zip(vb.iter()).all(|(x, y)| x == y);
    let any_cross_variant = c.a.len() == c.b.len() && c.a.iter().zip(c.b.iter()).any(|(x, y)| x.tag() != y.tag());

    // Values (PartialEq only)
    let (la, lb) = (Values(va.clone()), Values(vb.clone()));
    #[allow(clippy::eq_op)]
    if !(la == la) {
        return fail("reflexive/values", format!("Values is not equal to itself: {la:?}"));
    }
    if (la == lb) != (lb == la) {
        return fail("symmetry/values", format!("{la:?} vs {lb:?}"));
    }
    let zero_sign = elementwise_payload_eq && seq_differs_only_in_json_zero_sign(&c.a, &c.b);
    if elementwise_payload_eq && !(la == lb) {
        let sig = if zero_sign { SIG_JSON_ZERO_SIGN.to_string() } else { "equal-payload-unequal/values".to_string() };
        return fail(sig, format!("all elements have equal payloads\n{la:?}\n{lb:?}"));
    }
    if (la == lb) != elementwise_value_eq {
        return fail("values-eq-not-elementwise", format!("{la:?} vs {lb:?}"));
    }

    let ta = mk_tuple(va, c.many_a);
    let tb = mk_tuple(vb, c.many_b);
    refl("tuple", sha, &ta)?;
    refl("tuple", shb, &tb)?;
    let ab = ta == tb;
    if ab != (tb == ta) {
        return fail(format!("symmetry/tuple/{sha}/{shb}"), format!("{ta:?} vs {tb:?}"));
    }
    if sha == shb && elementwise_payload_eq && !ab {
        let sig = if zero_sign { SIG_JSON_ZERO_SIGN.to_string() } else { format!("equal-payload-unequal/tuple/{sha}") };
        return fail(sig, format!("all elements have equal payloads\n{ta:?}\n{tb:?}"));
    }
    if ab && any_cross_variant {
        return fail(format!("cross-variant-equal/tuple/{sha}"), format!("{ta:?}\n{tb:?}"));
    }
    if sha == shb && elementwise_value_eq != ab {
        return fail(format!("tuple-eq-not-elementwise/{sha}"), format!("elementwise == is {elementwise_value_eq}, tuple == is {ab}\n{ta:?}\n{tb:?}"));
    }
    if ab {
        if let Some(h) = hash_diff(&hashes(&ta), &hashes(&tb)) {
            return fail(format!("hash-differs/{h}/tuple/{sha}"), format!("equal tuples hash differently\n{ta:?}\n{tb:?}"));
        }
    }
    let mut set: HashSet<ValueTuple, DetState> = HashSet::default();
    set.insert(ta.clone());
    if set.contains(&tb) != ab {
        return fail(format!("hashset-membership/tuple/{sha}"), format!("== is {ab}\n{ta:?}\n{tb:?}"));
    }
    let mut map: HashMap<ValueTuple, u8, DetState> = HashMap::default();
    map.insert(tb.clone(), 0);
    if map.contains_key(&ta) != ab {
        return fail(format!("hashmap-lookup/tuple/{sha}"), format!("== is {ab}\n{ta:?}\n{tb:?}"));
    }
    obs.label(format!("tuple/{sha}/{}", if ab { "equal" } else { "unequal" }));
    if ab && c.a != c.b {
        obs.label("tuple/equal-not-identical");
        obs.nontrivial(&("tuple", c));
    } else if !ab && sha == shb && c.a.len() == c.b.len() && any_cross_variant {
        let only_variant = c.a.iter().zip(c.b.iter()).all(|(x, y)| {
            if x.tag() == y.tag() {
                payload_eq(x, y) == Some(true)
            } else {
                payload_key(x) == payload_key(y)
            }
        });
        if only_variant {
            obs.label("tuple/differs-only-in-variant");
            obs.nontrivial(&("tuple", c));
        }
    }
    Ok(())
}

/// A hash map / hash set filled with the keys in order behaves like an association list searched with `==`.
pub fn check_set(c: &SetCase, obs: &mut Obs) -> R {
    let vals: Vec<Value> = c.keys.iter().map(build).collect();
    let probes: Vec<Value> = c.keys.iter().map(build).collect();
    let mut map: HashMap<Value, usize, DetState> = HashMap::default();
    let mut set: HashSet<Value, DetState> = HashSet::default();
    let mut model: Vec<(usize, usize)> = vec![]; // (index of first key of the class, last index inserted)
    for (i, v) in vals.iter().enumerate() {
        let prev = map.insert(v.clone(), i);
        let fresh = set.insert(v.clone());
        let hit = model.iter_mut().find(|(first, _)| vals[*first] == *v);
        let model_prev = hit.as_ref().map(|h| h.1);
        match hit {
            Some(h) => h.1 = i,
            None => model.push((i, i)),
        }
        if prev != model_prev || fresh != model_prev.is_none() {
            return fail(
                format!("hashmap-insert-model/{}", c.keys[i].tag()),
                format!("inserting key #{i} {:?}: map returned {prev:?}, set fresh={fresh}, == model says {model_prev:?}", v),
            );
        }
    }
    if map.len() != model.len() || set.len() != model.len() {
        return fail("hashmap-len-model", format!("map has {} keys, set {}, == model {}", map.len(), set.len(), model.len()));
    }
    let mut merged = false;
    for (j, p) in probes.iter().enumerate() {
        let want = model.iter().find(|(first, _)| vals[*first] == *p).map(|h| h.1);
        let got = map.get(p).copied();
        if got != want || set.contains(p) != want.is_some() {
            return fail(
                format!("hashmap-lookup-model/{}", c.keys[j].tag()),
                format!("lookup of key #{j} {:?}: map gave {got:?}, == model {want:?}", p),
            );
        }
        // payload-equal keys must have been merged
        if let Some(w) = want {
            for i in 0..c.keys.len() {
                if payload_eq(&c.keys[i], &c.keys[j]) == Some(true) && w < i {
                    let sig = if json_differs_only_in_zero_sign(&c.keys[i], &c.keys[j]) {
                        SIG_JSON_ZERO_SIGN.to_string()
                    } else {
                        format!("equal-payload-unequal/set/{}", c.keys[j].tag())
                    };
                    return fail(
                        sig,
                        format!("keys #{i} and #{j} have equal payloads but the lookup of #{j} did not see #{i}"),
                    );
                }
            }
            if c.keys[w] != c.keys[j] {
                merged = true;
            }
        } else {
            return fail(format!("hashmap-lost-key/{}", c.keys[j].tag()), format!("key #{j} {:?} was inserted but is not found", p));
        }
    }
    obs.label(format!("set/classes-{}", model.len().min(6)));
    if merged {
        obs.label("set/merged-not-identical");
        obs.nontrivial(&("set", c));
    }
    Ok(())
}

// ---------------------------------------------------------------------------------------------
// the pool

pub struct Pool {
    pub specs: Vec<Spec>,
    pub vals: Vec<Value>,
    /// a second, independently constructed copy of every value
    pub vals2: Vec<Value>,
    map: HashMap<Value, usize, DetState>,
}

impl Pool {
    pub fn new(specs: Vec<Spec>) -> Pool {
        let vals: Vec<Value> = specs.iter().map(build).collect();
        let vals2: Vec<Value> = specs.iter().map(build).collect();
        for (s, v) in specs.iter().zip(vals.iter()) {
            let dbg = format!("{v:?}");
            assert!(dbg.starts_with(&format!("{}(", s.tag())), "harness bug: spec {s:?} built {dbg}");
        }
        let mut map: HashMap<Value, usize, DetState> = HashMap::default();
        for (i, v) in vals.iter().enumerate() {
            map.insert(v.clone(), i);
        }
        Pool { specs, vals, vals2, map }
    }
    fn n(&self) -> u64 {
        self.specs.len() as u64
    }
}

#[derive(Clone, Copy)]
pub struct PoolCase {
    pool: &'static Pool,
    idx: [u32; 3],
    arity: u8,
}

impl std::fmt::Debug for PoolCase {
    fn fmt(&self, f: &mut std::fmt::Formatter<'_>) -> std::fmt::Result {
        let mut d = f.debug_list();
        for k in 0..self.arity as usize {
            d.entry(&self.pool.specs[self.idx[k] as usize]);
        }
        d.finish()
    }
}

impl Serialize for PoolCase {
    fn serialize<S: Serializer>(&self, ser: S) -> Result<S::Ok, S::Error> {
        let mut m = ser.serialize_map(None)?;
        let names = ["a", "b", "c"];
        m.serialize_entry("index", &self.idx[..self.arity as usize])?;
        if self.arity == 1 {
            m.serialize_entry("probe", &self.idx[0])?;
            m.serialize_entry("pool", &self.pool.specs)?;
        } else {
            for k in 0..self.arity as usize {
                m.serialize_entry(names[k], &self.pool.specs[self.idx[k] as usize])?;
            }
        }
        m.end()
    }
}

#[derive(Serialize, Deserialize, Clone, Debug)]
struct TripleSpec {
    a: Spec,
    b: Spec,
    c: Spec,
}

#[derive(Serialize, Deserialize, Clone, Debug)]
struct ProbeSpec {
    probe: u32,
    pool: Vec<Spec>,
}

fn check_pool_pair(c: &PoolCase, obs: &mut Obs) -> R {
    let (i, j) = (c.idx[0] as usize, c.idx[1] as usize);
    let p = c.pool;
    check_pair(&p.vals[i], &p.specs[i], &p.vals2[j], &p.specs[j], obs)
}

fn check_pool_triple(c: &PoolCase, obs: &mut Obs) -> R {
    let (i, j, k) = (c.idx[0] as usize, c.idx[1] as usize, c.idx[2] as usize);
    let p = c.pool;
    check_triple([&p.vals[i], &p.vals2[j], &p.vals[k]], [&p.specs[i], &p.specs[j], &p.specs[k]], obs)
}

/// the pool was inserted into one map in order; looking up an independently built copy of value j must
/// return the largest index whose value is `==` to it
fn check_probe(p: &Pool, j: usize, obs: &mut Obs) -> R {
    let probe = &p.vals2[j];
    let want = (0..p.vals.len()).rev().find(|i| p.vals[*i] == *probe);
    let got = p.map.get(probe).copied();
    if got != want {
        return fail(
            format!("pool-map-lookup/{}", p.specs[j].tag()),
            format!("map over the whole pool: lookup of #{j} {:?} gave {got:?}, scan with == gives {want:?}", probe),
        );
    }
    match want {
        None => return fail(format!("reflexive/independent/{}", p.specs[j].tag()), format!("#{j} {:?} not found at all", probe)),
        Some(w) => {
            if p.specs[w] != p.specs[j] {
                obs.label("probe/merged-not-identical");
                obs.nontrivial(&("probe", &p.specs[w], &p.specs[j]));
            }
        }
    }
    Ok(())
}

fn check_pool_probe(c: &PoolCase, obs: &mut Obs) -> R {
    check_probe(c.pool, c.idx[0] as usize, obs)
}

fn check_pair_spec(c: &PairSpec, obs: &mut Obs) -> R {
    let a = build(&c.a);
    let b = build(&c.b);
    check_pair(&a, &c.a, &b, &c.b, obs)
}

pub fn run(ctx: &mut Ctx) {
    ctx.rule = "inputs: a pool of values (hand-built families for every Value variant as Some and NULL: NaNs with different \
payloads/signs, +0/-0, infinities, independently allocated equal payloads, decimals and big decimals under different scales, one \
instant under different offsets, JSON with permuted keys / 1 vs 1.0 / -0.0, nested arrays, arrays differing only in ArrayType, \
vectors with NaN and signed zeros; plus random values) — ALL ordered pairs and ALL ordered triples of the pool, a map over the \
whole pool, random pairs (incl. constructed siblings), ValueTuple / Values pairs and small hash maps. Non-trivial = a pair (or \
chain / tuple / map) whose members are equal without having identical specs, or that differ only in the variant (or only in the \
ArrayType); distinct by the specs involved."
        .into();
    ctx.assumptions = vec![
        "payload equality is the payload type's own == (serde_json, rust_decimal, bigdecimal, chrono, time, ...); for floats \
(Float, Double, Vector elements) == or both NaN, as the doc comment on Value states for hashable-value"
            .into(),
        "'hash equally' is checked as: equal u64 under SipHash (fixed keys), a byte-sum hasher and FNV-1a, and an identical \
sequence of Hasher::write* calls (which implies equality under every hasher)"
            .into(),
        "hash containers use BuildHasherDefault<DefaultHasher> (fixed keys) so that a run is deterministic".into(),
        "that distinct payloads compare unequal is NOT required by the property; such cases are only labelled".into(),
    ];
    ctx.domain_restrictions = vec![
        "years within -9999..=9999, offsets within +-86399 s, BigDecimal scale within +-200, arrays nested at most 2 deep".into(),
        "ChronoDateTimeLocal uses the process time zone".into(),
    ];

    let mut specs: Vec<Spec> = fixed_groups().into_iter().flatten().collect();
    let n_fixed = specs.len();
    let n_random = ctx.tier.pick(125usize, 825usize);
    let strat = proptest::collection::vec(any_spec(), n_random);
    specs.extend(sample_strategy(&strat, mix(ctx.seed, "C18", "pool", 0)));
    let pool: &'static Pool = Box::leak(Box::new(Pool::new(specs)));
    let n = pool.n();
    ctx.extra.insert("pool_size".into(), serde_json::json!(n));
    ctx.extra.insert("pool_fixed".into(), serde_json::json!(n_fixed));

    ctx.run_indexed(
        "pool-pairs",
        n * n,
        &|i| PoolCase { pool, idx: [(i / n) as u32, (i % n) as u32, 0], arity: 2 },
        &check_pool_pair,
    );
    ctx.run_indexed("pool-map", n, &|i| PoolCase { pool, idx: [i as u32, 0, 0], arity: 1 }, &check_pool_probe);
    ctx.run_indexed(
        "pool-triples",
        n * n * n,
        &|i| PoolCase { pool, idx: [(i / (n * n)) as u32, ((i / n) % n) as u32, (i % n) as u32], arity: 3 },
        &check_pool_triple,
    );
    ctx.run_proptest("random-pairs", ctx.tier.pick(600_000, 6_000_000), &pair_strategy, &check_pair_spec);
    ctx.run_proptest("tuples", ctx.tier.pick(300_000, 3_000_000), &tuple_strategy, &check_tuple);
    ctx.run_proptest("hash-maps", ctx.tier.pick(200_000, 2_000_000), &set_strategy, &check_set);
}

pub fn replay(part: &str, case: &J, obs: &mut Obs) -> R {
    match part {
        "pool-triples" => {
            let c: TripleSpec = from_case(case)?;
            let (a, b, d) = (build(&c.a), build(&c.b), build(&c.c));
            check_triple([&a, &b, &d], [&c.a, &c.b, &c.c], obs)
        }
        "pool-map" => {
            let c: ProbeSpec = from_case(case)?;
            let pool = Pool::new(c.pool);
            if c.probe as usize >= pool.specs.len() {
                return discard("probe index out of range");
            }
            check_probe(&pool, c.probe as usize, obs)
        }
        "tuples" => check_tuple(&from_case::<TupleCase>(case)?, obs),
        "hash-maps" => check_set(&from_case::<SetCase>(case)?, obs),
        _ => check_pair_spec(&from_case::<PairSpec>(case)?, obs),
    }
}
