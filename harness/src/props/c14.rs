//! C14 — MySQL and Postgres schema statements are complete and well-formed.
//!
//! Every case is a serialisable spec of one schema statement.  It is built through sea-query's public API, rendered with
//! `MysqlQueryBuilder` / `PostgresQueryBuilder`, and the text is parsed by an independent recursive-descent DDL parser
//! (`c14/ddl.rs`, written from the MySQL 8 and PostgreSQL manuals over the tokens of `crate::lex`).  The parsed inventory
//! must equal the inventory the spec declares (`StmtS::expect`, computed from the spec alone): every column once, in
//! order, with one type; each specification once and in declaration order; every table-level index / foreign key /
//! check; every option; separators and parentheses as the grammar demands.  Column types are judged by relation, not by
//! one expected spelling: the written name must be a type the dialect DEFINES in an admissible parameter form
//! (`c14/types.rs`), it must be (an alias of) the type sea-query's own mapping table documents for the abstract type
//! (`ColumnType` doc table in src/table/column.rs), the parameters given in the spec must be preserved, UNSIGNED must
//! follow the type on MySQL, and auto-increment must take the dialect's form.

mod ddl;
pub mod gen;
mod spec;
mod types;

use crate::parse::PT;
use crate::runner::*;
use crate::util::Dialect;
use ddl::*;
use serde::{Deserialize, Serialize};
use serde_json::{json, Value as J};
use spec::*;
use std::collections::BTreeMap;

#[derive(Serialize, Deserialize, Clone, Debug, PartialEq, Eq, Hash)]
pub struct Case {
    pub dialect: Dialect,
    pub stmt: StmtS,
}

type Diff = Result<(), (String, String)>;

fn diff<T>(class: impl Into<String>, msg: impl Into<String>) -> Result<T, (String, String)> {
    Err((class.into(), msg.into()))
}

// ------------------------------------------------------------------------------------------- types

enum ArgsExp {
    /// the spec gives these parameters: they must be written exactly
    Exact(Vec<String>),
    /// the spec gives no parameter: any admissible form
    Unspecified,
    /// MySQL ENUM labels
    Labels(Vec<String>),
}

struct TypeExp {
    /// canonical name of the type the crate's mapping table documents (None: documented as N/A)
    canon: Option<&'static str>,
    /// type name written verbatim (Custom, Postgres enum)
    raw: Option<String>,
    args: ArgsExp,
    unsigned: bool,
    dims: u32,
    fields: Option<String>,
}

fn type_exp(d: Dialect, t: &TyS) -> TypeExp {
    let my = d == Dialect::Mysql;
    let mut e = TypeExp { canon: None, raw: None, args: ArgsExp::Unspecified, unsigned: false, dims: 0, fields: None };
    let one = |n: &u32| ArgsExp::Exact(vec![n.to_string()]);
    let two = |p: &Option<(u32, u32)>| match p {
        Some((p, s)) => ArgsExp::Exact(vec![p.to_string(), s.to_string()]),
        None => ArgsExp::Unspecified,
    };
    let slen = |l: &SLen| match l {
        SLen::N(n) => ArgsExp::Exact(vec![n.to_string()]),
        _ => ArgsExp::Unspecified,
    };
    match t {
        TyS::Char(n) => {
            e.canon = Some("char");
            if let Some(n) = n {
                e.args = one(n);
            }
        }
        TyS::String(l) => {
            e.canon = Some("varchar");
            e.args = slen(l);
        }
        TyS::Text => e.canon = Some("text"),
        TyS::Blob => e.canon = Some(if my { "blob" } else { "bytea" }),
        TyS::TinyInteger | TyS::TinyUnsigned => e.canon = Some(if my { "tinyint" } else { "smallint" }),
        TyS::SmallInteger | TyS::SmallUnsigned => e.canon = Some("smallint"),
        TyS::Integer | TyS::Unsigned => e.canon = Some(if my { "int" } else { "integer" }),
        TyS::BigInteger | TyS::BigUnsigned => e.canon = Some("bigint"),
        TyS::Float => e.canon = Some(if my { "float" } else { "real" }),
        TyS::Double => e.canon = Some(if my { "double" } else { "double precision" }),
        TyS::Decimal(p) => {
            e.canon = Some(if my { "decimal" } else { "numeric" });
            e.args = two(p);
        }
        TyS::DateTime => e.canon = Some(if my { "datetime" } else { "timestamp" }),
        TyS::Timestamp => e.canon = Some("timestamp"),
        TyS::TimestampWithTimeZone => e.canon = Some(if my { "timestamp" } else { "timestamptz" }),
        TyS::Time => e.canon = Some("time"),
        TyS::Date => e.canon = Some("date"),
        TyS::Year => e.canon = if my { Some("year") } else { None },
        TyS::Interval(f, p) => {
            e.canon = if my { None } else { Some("interval") };
            if !my {
                e.fields = f.map(|f| INTERVAL_FIELDS[f as usize % 13].to_string());
                if let Some(p) = p {
                    e.args = one(p);
                }
            }
        }
        TyS::Binary(n) => {
            e.canon = Some(if my { "binary" } else { "bytea" });
            if my {
                e.args = one(n);
            }
        }
        TyS::VarBinary(l) => {
            e.canon = Some(if my { "varbinary" } else { "bytea" });
            if my {
                e.args = slen(l);
            }
        }
        TyS::Bit(n) => {
            e.canon = Some("bit");
            if let Some(n) = n {
                e.args = one(n);
            }
        }
        TyS::VarBit(n) => {
            e.canon = Some(if my { "bit" } else { "varbit" });
            e.args = one(n);
        }
        TyS::Boolean => e.canon = Some(if my { "bool" } else { "boolean" }),
        TyS::Money(p) => {
            e.canon = Some(if my { "decimal" } else { "money" });
            if my {
                e.args = two(p);
            }
        }
        TyS::Json => e.canon = Some("json"),
        TyS::JsonBinary => e.canon = Some(if my { "json" } else { "jsonb" }),
        TyS::Uuid => {
            e.canon = Some(if my { "binary" } else { "uuid" });
            if my {
                e.args = ArgsExp::Exact(vec!["16".into()]);
            }
        }
        TyS::Custom(i) => e.raw = Some(CUSTOM_TYPES[*i as usize % CUSTOM_TYPES.len()].to_string()),
        TyS::Enum { name, variants } => {
            if my {
                e.canon = Some("enum");
                e.args = ArgsExp::Labels(variants.clone());
            } else {
                e.raw = Some(ENUM_NAMES[*name as usize % ENUM_NAMES.len()].to_string());
            }
        }
        TyS::Array(inner) => {
            e = type_exp(d, inner);
            e.dims += 1;
        }
        TyS::Vector(n) => {
            e.canon = Some("vector");
            if let Some(n) = n {
                e.args = one(n);
            }
        }
        TyS::Cidr => e.canon = Some("cidr"),
        TyS::Inet => e.canon = Some("inet"),
        TyS::MacAddr => e.canon = Some("macaddr"),
        TyS::LTree => e.canon = Some("ltree"),
    }
    e.unsigned = my && matches!(t, TyS::TinyUnsigned | TyS::SmallUnsigned | TyS::Unsigned | TyS::BigUnsigned);
    e
}

fn args_text(a: &Option<Vec<TArg>>) -> Vec<String> {
    a.as_ref()
        .map(|v| {
            v.iter()
                .map(|x| match x {
                    TArg::Num(n) => n.clone(),
                    TArg::Str(s) => s.clone(),
                    TArg::Word(w) => w.clone(),
                })
                .collect()
        })
        .unwrap_or_default()
}

/// Err((class, msg)); the class is relative to `type/`
fn cmp_type(d: Dialect, exp: &ExpTy, got: &Ty) -> Diff {
    let e = type_exp(d, &exp.spec);
    // name the innermost element type: an array inherits the defect of its element
    let mut leaf = &exp.spec;
    while let TyS::Array(inner) = leaf {
        leaf = inner;
    }
    let v = leaf.variant();
    if let Some(raw) = &e.raw {
        if got.quoted || got.name != raw.to_ascii_lowercase() || got.args.is_some() || got.unsigned {
            return diff(format!("custom-name/{v}"), format!("the user-defined type `{raw}` is written `{}`", got.show()));
        }
    } else {
        let canon = types::type_defined(d, got)?;
        let want = if exp.serial {
            match exp.spec {
                TyS::SmallInteger => Some("smallserial"),
                TyS::Integer => Some("serial"),
                TyS::BigInteger => Some("bigserial"),
                _ => None,
            }
        } else {
            e.canon
        };
        match want {
            Some(w) if w != canon => {
                return if exp.serial {
                    diff(format!("auto-increment-form/{v}"), format!("{v} with auto_increment must be written as {w}, found `{}`", got.show()))
                } else {
                    diff(format!("mapping/{v}"), format!("{v} is documented to map to {w}, found `{}` (= {canon})", got.show()))
                };
            }
            _ => {}
        }
        match &e.args {
            ArgsExp::Unspecified => {}
            ArgsExp::Exact(a) | ArgsExp::Labels(a) => {
                let g = args_text(&got.args);
                if &g != a {
                    return diff(format!("param-value/{v}"), format!("{v}: the parameters ({}) are written `{}`", a.join(", "), got.show()));
                }
            }
        }
        if got.unsigned != e.unsigned {
            return diff(format!("unsigned/{v}"), format!("{v}: unsigned-ness is not preserved in `{}`", got.show()));
        }
    }
    if got.dims != e.dims {
        return diff(format!("array-dims/{v}"), format!("{v}: {} array dimension(s) declared, `{}` written", e.dims, got.show()));
    }
    if got.fields != e.fields {
        return diff(format!("interval-fields/{v}"), format!("{v}: interval fields {:?} declared, `{}` written", e.fields, got.show()));
    }
    Ok(())
}

// --------------------------------------------------------------------------------------- inventory

fn show_attr(a: &Attr) -> String {
    match a {
        Attr::Default(e) => format!("DEFAULT {}", e.show()),
        Attr::Check(e) => format!("CHECK ({})", e.show()),
        Attr::Generated(e, s) => format!("GENERATED ({}) stored={s:?}", e.show()),
        Attr::Comment(c) => format!("COMMENT {c:?}"),
        Attr::Other(t) => format!("<{t}>"),
        other => other.kind().to_string(),
    }
}

/// compare two lists by the kinds of their members first (missing / extra / order), then member by member
fn cmp_kinds(what: &str, exp: &[&str], got: &[&str]) -> Diff {
    if exp == got {
        return Ok(());
    }
    let mut e: Vec<&str> = exp.to_vec();
    let mut g: Vec<&str> = got.to_vec();
    e.sort();
    g.sort();
    if e == g {
        return diff(format!("{what}-order"), format!("declared order [{}], written order [{}]", exp.join(", "), got.join(", ")));
    }
    let mut counts: BTreeMap<&str, i64> = BTreeMap::new();
    for k in exp {
        *counts.entry(k).or_default() += 1;
    }
    for k in got {
        *counts.entry(k).or_default() -= 1;
    }
    for (k, n) in &counts {
        if *n > 0 {
            return diff(format!("{what}-missing/{k}"), format!("declared [{}], written [{}]", exp.join(", "), got.join(", ")));
        }
    }
    for (k, n) in &counts {
        if *n < 0 {
            return diff(format!("{what}-extra/{k}"), format!("declared [{}], written [{}]", exp.join(", "), got.join(", ")));
        }
    }
    unreachable!()
}

fn cmp_attrs(exp: &[Attr], got: &[Attr]) -> Diff {
    let ek: Vec<&str> = exp.iter().map(|a| a.kind()).collect();
    let gk: Vec<&str> = got.iter().map(|a| a.kind()).collect();
    cmp_kinds("spec", &ek, &gk)?;
    for (e, g) in exp.iter().zip(got) {
        if e != g {
            return diff(format!("spec-value/{}", e.kind()), format!("declared {}, written {}", show_attr(e), show_attr(g)));
        }
    }
    Ok(())
}

fn cmp_coldef(d: Dialect, exp: &ColDef<ExpTy>, got: &ColDef<Ty>) -> Diff {
    if exp.name != got.name {
        return diff("column-name", format!("declared column {:?}, written {:?}", exp.name, got.name));
    }
    match (&exp.ty, &got.ty) {
        (Some(e), Some(g)) => cmp_type(d, e, g).map_err(|(c, m)| (format!("type/{c}"), format!("column {:?}: {m}", exp.name)))?,
        (Some(_), None) => return diff("column-type-missing", format!("column {:?} has no type", exp.name)),
        (None, Some(g)) => return diff("column-type-extra", format!("column {:?}: undeclared type `{}`", exp.name, g.show())),
        (None, None) => {}
    }
    cmp_attrs(&exp.attrs, &got.attrs).map_err(|(c, m)| (c, format!("column {:?}: {m}", exp.name)))
}

fn cmp_field<T: PartialEq + std::fmt::Debug>(class: &str, what: &str, e: &T, g: &T) -> Diff {
    if e == g {
        Ok(())
    } else {
        diff(class, format!("{what}: declared {e:?}, written {g:?}"))
    }
}

fn cmp_idx_cols(exp: &[IdxCol], got: &[IdxCol]) -> Diff {
    let en: Vec<&String> = exp.iter().map(|c| &c.name).collect();
    let gn: Vec<&String> = got.iter().map(|c| &c.name).collect();
    cmp_field("index/columns", "index columns", &en, &gn)?;
    for (e, g) in exp.iter().zip(got) {
        cmp_field("index/prefix-length", &format!("prefix length of index column {:?}", e.name), &e.prefix, &g.prefix)?;
        cmp_field("index/direction", &format!("direction of index column {:?}", e.name), &e.desc, &g.desc)?;
    }
    Ok(())
}

fn cmp_index(exp: &TblIndex, got: &TblIndex) -> Diff {
    cmp_field("index/kind", "index kind", &exp.kind, &got.kind)?;
    cmp_field("index/constraint-name", "constraint name", &exp.constraint, &got.constraint)?;
    cmp_field("index/name", "index name", &exp.name, &got.name)?;
    cmp_field("index/using", "index type", &exp.using, &got.using)?;
    cmp_idx_cols(&exp.cols, &got.cols)?;
    cmp_field("index/include", "INCLUDE columns", &exp.include, &got.include)?;
    cmp_field("index/nulls-not-distinct", "NULLS NOT DISTINCT", &exp.nulls_not_distinct, &got.nulls_not_distinct)
}

fn cmp_fk(exp: &Fk, got: &Fk) -> Diff {
    cmp_field("fk/name", "foreign key name", &exp.name, &got.name)?;
    cmp_field("fk/columns", "foreign key columns", &exp.cols, &got.cols)?;
    cmp_field("fk/ref-table", "referenced table", &exp.ref_table, &got.ref_table)?;
    cmp_field("fk/ref-columns", "referenced columns", &exp.ref_cols, &got.ref_cols)?;
    cmp_field("fk/on-delete", "ON DELETE action", &exp.on_delete, &got.on_delete)?;
    cmp_field("fk/on-update", "ON UPDATE action", &exp.on_update, &got.on_update)
}

fn cmp_pt(class: &str, what: &str, e: &PT, g: &PT) -> Diff {
    if e == g {
        Ok(())
    } else {
        diff(class, format!("{what}: declared {}, written {}", e.show(), g.show()))
    }
}

fn cmp_action(d: Dialect, exp: &Action<ExpTy>, got: &Action<Ty>) -> Diff {
    match (exp, got) {
        (Action::AddColumn { if_not_exists: ei, col: ec }, Action::AddColumn { if_not_exists: gi, col: gc }) => {
            cmp_field("add-column/if-not-exists", "IF NOT EXISTS", ei, gi)?;
            cmp_coldef(d, ec, gc)
        }
        (Action::ModifyColumn(ec), Action::ModifyColumn(gc)) => cmp_coldef(d, ec, gc),
        (Action::RenameColumn(a, b), Action::RenameColumn(c, e)) => cmp_field("rename-column/names", "renamed column", &(a, b), &(c, e)),
        (Action::DropColumn(a), Action::DropColumn(b)) => cmp_field("drop-column/name", "dropped column", a, b),
        (Action::AddForeignKey(a), Action::AddForeignKey(b)) => cmp_fk(a, b),
        (Action::DropForeignKey(a), Action::DropForeignKey(b)) => cmp_field("drop-foreign-key/name", "dropped foreign key", a, b),
        (Action::DropConstraint(a), Action::DropConstraint(b)) => cmp_field("drop-constraint/name", "dropped constraint", a, b),
        (Action::AlterType { col: ec, ty: et, using: eu }, Action::AlterType { col: gc, ty: gt, using: gu }) => {
            cmp_field("alter-column/name", "altered column", ec, gc)?;
            cmp_type(d, et, gt).map_err(|(c, m)| (format!("type/{c}"), format!("column {ec:?}: {m}")))?;
            match (eu, gu) {
                (Some(e), Some(g)) => cmp_pt("alter-column/using", "USING expression", e, g),
                (None, None) => Ok(()),
                (Some(_), None) => diff("alter-column/using-missing", format!("column {ec:?}: the declared USING expression is not written")),
                (None, Some(_)) => diff("alter-column/using-extra", format!("column {ec:?}: undeclared USING expression")),
            }
        }
        (Action::SetNotNull(a), Action::SetNotNull(b)) | (Action::DropNotNull(a), Action::DropNotNull(b)) | (Action::DropDefault(a), Action::DropDefault(b)) => {
            cmp_field("alter-column/name", "altered column", a, b)
        }
        (Action::SetDefault(a, e), Action::SetDefault(b, g)) => {
            cmp_field("alter-column/name", "altered column", a, b)?;
            cmp_pt("alter-column/default", "default value", e, g)
        }
        (Action::AddUnique(a), Action::AddUnique(b)) | (Action::AddPrimaryKey(a), Action::AddPrimaryKey(b)) => cmp_field("add-constraint/columns", "constraint columns", a, b),
        (Action::AddCheck(e), Action::AddCheck(g)) => cmp_pt("add-check/expr", "CHECK expression", e, g),
        (Action::AddIndex(a), Action::AddIndex(b)) => cmp_index(a, b),
        (e, g) => diff("action-kind", format!("declared action {}, written {}", e.kind(), g.kind())),
    }
}

fn cmp_stmt(d: Dialect, exp: &Stmt<ExpTy>, got: &Stmt<Ty>) -> Diff {
    match (exp, got) {
        (
            Stmt::CreateTable { temporary: et, if_not_exists: ei, table: etb, elems: ee, options: eo },
            Stmt::CreateTable { temporary: gt, if_not_exists: gi, table: gtb, elems: ge, options: go },
        ) => {
            cmp_field("temporary", "TEMPORARY", et, gt)?;
            cmp_field("if-not-exists", "IF NOT EXISTS", ei, gi)?;
            cmp_field("table-name", "table name", etb, gtb)?;
            let ek: Vec<&str> = ee.iter().map(|x| x.kind()).collect();
            let gk: Vec<&str> = ge.iter().map(|x| x.kind()).collect();
            cmp_kinds("element", &ek, &gk)?;
            for (e, g) in ee.iter().zip(ge) {
                match (e, g) {
                    (Elem::Column(a), Elem::Column(b)) => cmp_coldef(d, a, b)?,
                    (Elem::Index(a), Elem::Index(b)) => cmp_index(a, b)?,
                    (Elem::ForeignKey(a), Elem::ForeignKey(b)) => cmp_fk(a, b)?,
                    (Elem::Check(a), Elem::Check(b)) => cmp_pt("table-check/expr", "table CHECK", a, b)?,
                    _ => unreachable!(),
                }
            }
            let eok: Vec<&str> = eo.iter().map(|x| x.0.as_str()).collect();
            let gok: Vec<&str> = go.iter().map(|x| x.0.as_str()).collect();
            cmp_kinds("option", &eok, &gok)?;
            for (e, g) in eo.iter().zip(go) {
                cmp_field(&format!("option-value/{}", e.0.to_ascii_lowercase().replace(' ', "-")), &format!("table option {}", e.0), &e.1, &g.1)?;
            }
            Ok(())
        }
        (Stmt::AlterTable { table: et, actions: ea }, Stmt::AlterTable { table: gt, actions: ga }) => {
            cmp_field("table-name", "table name", et, gt)?;
            let ek: Vec<&str> = ea.iter().map(|x| x.kind()).collect();
            let gk: Vec<&str> = ga.iter().map(|x| x.kind()).collect();
            cmp_kinds("action", &ek, &gk)?;
            for (e, g) in ea.iter().zip(ga) {
                cmp_action(d, e, g)?;
            }
            Ok(())
        }
        (Stmt::RenameTable { from: ef, to: et }, Stmt::RenameTable { from: gf, to: gt }) => {
            cmp_field("table-name", "renamed table", ef, gf)?;
            cmp_field("new-table-name", "new table name", et, gt)
        }
        (Stmt::DropTable { if_exists: ei, tables: et, behavior: eb }, Stmt::DropTable { if_exists: gi, tables: gt, behavior: gb }) => {
            cmp_field("if-exists", "IF EXISTS", ei, gi)?;
            cmp_field("tables", "dropped tables", et, gt)?;
            cmp_field("behavior", "CASCADE / RESTRICT", eb, gb)
        }
        (Stmt::Truncate { table: e }, Stmt::Truncate { table: g }) => cmp_field("table-name", "table name", e, g),
        (
            Stmt::CreateIndex { unique: eu, fulltext: ef, if_not_exists: ei, name: en, table: et, using: eus, cols: ec, include: einc, nulls_not_distinct: ennd, predicate: ep },
            Stmt::CreateIndex { unique: gu, fulltext: gf, if_not_exists: gi, name: gn, table: gt, using: gus, cols: gc, include: ginc, nulls_not_distinct: gnnd, predicate: gp },
        ) => {
            cmp_field("index/unique", "UNIQUE", eu, gu)?;
            cmp_field("index/fulltext", "FULLTEXT", ef, gf)?;
            cmp_field("if-not-exists", "IF NOT EXISTS", ei, gi)?;
            cmp_field("index/name", "index name", en, gn)?;
            cmp_field("table-name", "table name", et, gt)?;
            cmp_field("index/using", "index type", eus, gus)?;
            cmp_idx_cols(ec, gc)?;
            cmp_field("index/include", "INCLUDE columns", einc, ginc)?;
            cmp_field("index/nulls-not-distinct", "NULLS NOT DISTINCT", ennd, gnnd)?;
            match (ep, gp) {
                (Some(e), Some(g)) => cmp_pt("index/predicate", "partial-index predicate", e, g),
                (None, None) => Ok(()),
                (Some(_), None) => diff("index/predicate-missing", "the declared partial-index predicate is not written"),
                (None, Some(_)) => diff("index/predicate-extra", "undeclared partial-index predicate"),
            }
        }
        (Stmt::DropIndex { if_exists: ei, name: en, table: et }, Stmt::DropIndex { if_exists: gi, name: gn, table: gt }) => {
            cmp_field("if-exists", "IF EXISTS", ei, gi)?;
            cmp_field("index/name", "index name", en, gn)?;
            cmp_field("table-name", "table name", et, gt)
        }
        (Stmt::CreateType { name: en, labels: el }, Stmt::CreateType { name: gn, labels: gl }) => {
            cmp_field("type-name", "type name", en, gn)?;
            cmp_field("labels", "enum labels", el, gl)
        }
        (Stmt::AlterType { name: en, action: ea }, Stmt::AlterType { name: gn, action: ga }) => {
            cmp_field("type-name", "type name", en, gn)?;
            cmp_field("action", "ALTER TYPE action", ea, ga)
        }
        (Stmt::DropType { if_exists: ei, names: en, behavior: eb }, Stmt::DropType { if_exists: gi, names: gn, behavior: gb }) => {
            cmp_field("if-exists", "IF EXISTS", ei, gi)?;
            cmp_field("type-names", "dropped types", en, gn)?;
            cmp_field("behavior", "CASCADE / RESTRICT", eb, gb)
        }
        (e @ Stmt::CreateExtension { .. }, g @ Stmt::CreateExtension { .. }) => {
            let (Stmt::CreateExtension { if_not_exists: ei, name: en, schema: es, version: ev, cascade: ec }, Stmt::CreateExtension { if_not_exists: gi, name: gn, schema: gs, version: gv, cascade: gc }) =
                (e, g)
            else {
                unreachable!()
            };
            cmp_field("if-not-exists", "IF NOT EXISTS", ei, gi)?;
            cmp_field("extension/name", "extension name", en, gn)?;
            cmp_field("extension/schema", "schema", es, gs)?;
            cmp_field("extension/version", "version", ev, gv)?;
            cmp_field("extension/cascade", "CASCADE", ec, gc)
        }
        (Stmt::DropExtension { if_exists: ei, names: en, behavior: eb }, Stmt::DropExtension { if_exists: gi, names: gn, behavior: gb }) => {
            cmp_field("if-exists", "IF EXISTS", ei, gi)?;
            cmp_field("extension/name", "extension names", en, gn)?;
            cmp_field("behavior", "CASCADE / RESTRICT", eb, gb)
        }
        (e, g) => diff("statement-kind", format!("declared a {} statement, the text is a {} statement", e.kind(), g.kind())),
    }
}

// ------------------------------------------------------------------------------------------- check

pub fn check(c: &Case, obs: &mut Obs) -> R {
    let d = c.dialect;
    if d == Dialect::Sqlite {
        return discard("C14 covers MySQL and Postgres");
    }
    if let Err(why) = c.stmt.in_domain(d) {
        return discard(format!("outside the domain: {why}"));
    }
    let kind = c.stmt.kind();
    obs.label(format!("{}/{}", d.name(), kind));
    let sql = match guard("render", || c.stmt.render(d)) {
        Ok(s) => s,
        Err(Stop::Fail { sig, detail }) => return fail(format!("{}/{kind}/{sig}", d.name()), detail),
        Err(other) => return Err(other),
    };
    obs.note(sql.clone());
    let got = match parse_stmt(d, &sql) {
        Ok(s) => s,
        Err(e) if e.undecided => {
            return undecided(format!("expression grammar: {}", e.msg));
        }
        Err(e) => {
            let mut class = e.class.clone();
            // root-cause refinement: an empty ALTER action that comes from a modify_column holding a specification
            // Postgres leaves out (auto_increment / generated / comment) is the comma-management defect of that arm
            if class == "empty-action" && d == Dialect::Postgres && c.stmt.has_pg_modify_with_omitted_spec() {
                class = "empty-action/modify-column-omitted-spec".into();
            }
            return fail(format!("{}/{kind}/syntax/{class}", d.name()), format!("{} does not parse: {}\n  sql: {sql}", d.name(), e.msg));
        }
    };
    let exp = c.stmt.expect(d);
    if let Err((class, msg)) = cmp_stmt(d, &exp, &got) {
        // type findings are independent of the statement that carries the column
        let sig = if let Some(rest) = class.strip_prefix("type/") { format!("{}/type/{rest}", d.name()) } else { format!("{}/{kind}/{class}", d.name()) };
        return fail(sig, format!("{msg}\n  sql: {sql}"));
    }
    if c.stmt.nontrivial() {
        obs.nontrivial(c);
        obs.label("non-trivial");
    }
    Ok(())
}

// --------------------------------------------------------------------------- golden-corpus self-check

#[derive(Debug, PartialEq)]
enum RT {
    Str(String),
    Word(String),
    P(char),
}

/// a very small Rust tokenizer: string literals, words, punctuation; comments skipped
fn rust_tokens(src: &str) -> Vec<RT> {
    let b: Vec<char> = src.chars().collect();
    let mut i = 0;
    let mut out = vec![];
    while i < b.len() {
        let c = b[i];
        if c == '/' && b.get(i + 1) == Some(&'/') {
            while i < b.len() && b[i] != '\n' {
                i += 1;
            }
        } else if c == '/' && b.get(i + 1) == Some(&'*') {
            i += 2;
            while i + 1 < b.len() && !(b[i] == '*' && b[i + 1] == '/') {
                i += 1;
            }
            i += 2;
        } else if c == 'r' && (b.get(i + 1) == Some(&'"') || (b.get(i + 1) == Some(&'#') && matches!(b.get(i + 2), Some('"') | Some('#')))) {
            let mut j = i + 1;
            let mut hashes = 0;
            while b.get(j) == Some(&'#') {
                hashes += 1;
                j += 1;
            }
            if b.get(j) != Some(&'"') {
                out.push(RT::Word("r".into()));
                i += 1;
                continue;
            }
            j += 1;
            let start = j;
            'outer: loop {
                if j >= b.len() {
                    break;
                }
                if b[j] == '"' {
                    let mut k = 0;
                    while k < hashes && b.get(j + 1 + k) == Some(&'#') {
                        k += 1;
                    }
                    if k == hashes {
                        break 'outer;
                    }
                }
                j += 1;
            }
            out.push(RT::Str(b[start..j.min(b.len())].iter().collect()));
            i = j + 1 + hashes;
        } else if c == '"' {
            let mut j = i + 1;
            let mut s = String::new();
            while j < b.len() && b[j] != '"' {
                if b[j] == '\\' && j + 1 < b.len() {
                    j += 1;
                    match b[j] {
                        'n' => s.push('\n'),
                        't' => s.push('\t'),
                        '\n' => {
                            // line continuation: skip leading whitespace of the next line
                            while j + 1 < b.len() && b[j + 1].is_whitespace() {
                                j += 1;
                            }
                        }
                        other => s.push(other),
                    }
                } else {
                    s.push(b[j]);
                }
                j += 1;
            }
            out.push(RT::Str(s));
            i = j + 1;
        } else if c == '\'' {
            // char literal or lifetime
            if b.get(i + 1) == Some(&'\\') {
                let mut j = i + 2;
                while j < b.len() && b[j] != '\'' {
                    j += 1;
                }
                i = j + 1;
            } else if b.get(i + 2) == Some(&'\'') {
                i += 3;
            } else {
                i += 1;
            }
        } else if c.is_alphanumeric() || c == '_' {
            let s = i;
            while i < b.len() && (b[i].is_alphanumeric() || b[i] == '_') {
                i += 1;
            }
            out.push(RT::Word(b[s..i].iter().collect()));
        } else if c.is_whitespace() {
            i += 1;
        } else {
            out.push(RT::P(c));
            i += 1;
        }
    }
    out
}

/// expected strings of the repository's golden tests: `[ "..", ".." ].join(" ")` groups and single literals that start
/// with a DDL keyword
fn scrape(src: &str) -> Vec<String> {
    let t = rust_tokens(src);
    let mut out = vec![];
    let mut i = 0;
    let ddl_start = |s: &str| ["CREATE ", "ALTER ", "DROP ", "TRUNCATE ", "RENAME "].iter().any(|k| s.starts_with(k));
    while i < t.len() {
        if t[i] == RT::P('[') {
            // [ Str (, Str)* ,? ] . join ( " " )
            let mut j = i + 1;
            let mut parts: Vec<&str> = vec![];
            let mut ok = false;
            loop {
                match t.get(j) {
                    Some(RT::Str(s)) => {
                        parts.push(s);
                        j += 1;
                        if t.get(j) == Some(&RT::P(',')) {
                            j += 1;
                        }
                    }
                    Some(RT::P(']')) => {
                        ok = !parts.is_empty();
                        break;
                    }
                    _ => break,
                }
            }
            if ok
                && t.get(j + 1) == Some(&RT::P('.'))
                && t.get(j + 2) == Some(&RT::Word("join".into()))
                && t.get(j + 3) == Some(&RT::P('('))
                && matches!(t.get(j + 4), Some(RT::Str(sep)) if sep == " ")
            {
                let s = parts.join(" ");
                if ddl_start(&s) {
                    out.push(s);
                }
                i = j + 5;
                continue;
            }
            i += 1;
        } else if let RT::Str(s) = &t[i] {
            if ddl_start(s) && (s.ends_with(|c: char| c != '(' && c != ',') || !s.contains('(')) {
                // a complete statement in one literal (fragments of a join group end in "(" or ",")
                let inside_group = i > 0 && (t[i - 1] == RT::P('[') || t[i - 1] == RT::P(',')) && matches!(t.get(i + 1), Some(RT::P(',')) | Some(RT::P(']')));
                let in_join = inside_group && {
                    // look ahead for `].join`
                    let mut j = i + 1;
                    while matches!(t.get(j), Some(RT::Str(_)) | Some(RT::P(','))) {
                        j += 1;
                    }
                    t.get(j) == Some(&RT::P(']')) && t.get(j + 2) == Some(&RT::Word("join".into()))
                };
                if !in_join {
                    out.push(s.clone());
                }
            }
            i += 1;
        } else {
            i += 1;
        }
    }
    out
}

fn golden_self_check() -> J {
    let files: [(&str, Dialect); 7] = [
        ("/repo/tests/mysql/table.rs", Dialect::Mysql),
        ("/repo/tests/mysql/index.rs", Dialect::Mysql),
        ("/repo/tests/mysql/foreign_key.rs", Dialect::Mysql),
        ("/repo/tests/postgres/table.rs", Dialect::Postgres),
        ("/repo/tests/postgres/index.rs", Dialect::Postgres),
        ("/repo/tests/postgres/foreign_key.rs", Dialect::Postgres),
        ("/repo/tests/postgres/types.rs", Dialect::Postgres),
    ];
    let mut per: BTreeMap<String, J> = BTreeMap::new();
    let mut total = 0u64;
    let mut accepted = 0u64;
    let mut undefined_types: Vec<String> = vec![];
    for (path, d) in files {
        let Ok(src) = std::fs::read_to_string(path) else {
            per.insert(path.to_string(), json!({"error": "not readable"}));
            continue;
        };
        let stmts = scrape(&src);
        let mut acc = 0u64;
        let mut rejected = vec![];
        for s in &stmts {
            match parse_stmt(d, s) {
                Ok(st) => {
                    acc += 1;
                    // informational: type spellings the lists do not know (user-defined types of the tests)
                    let mut cols: Vec<&ColDef<Ty>> = vec![];
                    match &st {
                        Stmt::CreateTable { elems, .. } => {
                            for e in elems {
                                if let Elem::Column(c) = e {
                                    cols.push(c);
                                }
                            }
                        }
                        Stmt::AlterTable { actions, .. } => {
                            for a in actions {
                                match a {
                                    Action::AddColumn { col, .. } | Action::ModifyColumn(col) => cols.push(col),
                                    Action::AlterType { ty, .. } => {
                                        if let Err((c, _)) = types::type_defined(d, ty) {
                                            undefined_types.push(format!("{}: {} ({c})", d.name(), ty.show()));
                                        }
                                    }
                                    _ => {}
                                }
                            }
                        }
                        _ => {}
                    }
                    for c in cols {
                        if let Some(ty) = &c.ty {
                            if let Err((cl, _)) = types::type_defined(d, ty) {
                                undefined_types.push(format!("{}: {} ({cl})", d.name(), ty.show()));
                            }
                        }
                    }
                }
                Err(e) => rejected.push(json!({"sql": s, "class": e.class, "why": e.msg})),
            }
        }
        total += stmts.len() as u64;
        accepted += acc;
        per.insert(path.trim_start_matches("/repo/tests/").to_string(), json!({"statements": stmts.len(), "accepted": acc, "rejected": rejected}));
    }
    undefined_types.sort();
    undefined_types.dedup();
    json!({"statements": total, "accepted": accepted, "per_file": per, "accepted_but_type_not_in_list": undefined_types,
           "note": "informational: expected strings scraped from the repository's golden tests fed to the DDL parsers; a rejection is either a golden that is not valid SQL of the dialect (listed with the grammatical reason) or free text passed through extra()"})
}

// --------------------------------------------------------------------------------------------- run

fn in_dom(c: &Case) -> bool {
    c.stmt.in_domain(c.dialect).is_ok()
}

pub fn run(ctx: &mut Ctx) {
    ctx.rule = "a case is one schema statement spec (CREATE TABLE over every ColumnType variant with parameters, ordered specification lists, table-level \
indexes / foreign keys / checks / options; ALTER TABLE option sequences; RENAME / DROP / TRUNCATE TABLE; CREATE / DROP INDEX; standalone foreign keys; Postgres \
CREATE / ALTER / DROP TYPE and CREATE / DROP EXTENSION) built through the public API for MySQL or Postgres; the rendering is parsed by an independent DDL parser \
and the recovered inventory compared with the declared one. Non-trivial = a statement with >= 2 elements of >= 2 kinds (columns, specifications, indexes, foreign \
keys, checks, options, flags ...), or an ALTER TABLE with >= 2 options or with a modify_column of >= 2 specifications; distinct by (dialect, spec)."
        .into();
    ctx.assumptions = vec![
        "the DDL grammars are my transcription of the MySQL 8.0 and PostgreSQL manuals (CREATE/ALTER/DROP TABLE, CREATE/DROP INDEX, CREATE/ALTER/DROP TYPE, CREATE/DROP EXTENSION); column attributes are accepted in any order; MariaDB's ADD COLUMN IF NOT EXISTS is accepted for the MySQL backend".into(),
        "the list of defined type names and their parameter forms is transcribed from the manuals (c14/types.rs); ltree and vector are admitted as the extension types sea-query's mapping table names; user-defined types (Custom, Postgres enums) are compared by name only".into(),
        "the abstract-to-dialect type mapping is the table in the ColumnType documentation (src/table/column.rs); aliases of the documented name are accepted".into(),
        "specifications the dialect cannot express and the backend documents or visibly leaves out are expected to be absent: COMMENT on Postgres ('MySQL only'), auto_increment / generated / comment inside a Postgres modify_column (explicit empty match arms), IF NOT EXISTS on MySQL CREATE INDEX, index type on Postgres table constraints".into(),
        "parameter RANGES (e.g. interval precision <= 6, varchar length limits) are not judged, only parameter forms and preservation".into(),
    ];
    ctx.domain_restrictions = vec![
        "MySQL: no Array/Vector/Cidr/Inet/MacAddr/LTree columns; Postgres: no Year; Postgres auto_increment only on SmallInteger/Integer/BigInteger (documented unimplemented! arms)".into(),
        "MySQL: unqualified tables in foreign keys, CREATE INDEX and DROP INDEX; no IF EXISTS on DROP INDEX (documented panics); DROP INDEX names its table; CREATE INDEX has a name".into(),
        "Postgres: interval fields together with a precision only when the fields end in SECOND (manual 8.5.4; `interval HOUR(43)` is not Postgres syntax although the repository's golden test pins it)".into(),
        "every column definition in CREATE TABLE / ADD COLUMN / MySQL MODIFY COLUMN has a type; a specification kind occurs at most once per column; Using only inside a Postgres modify_column that has a type".into(),
        "a Postgres modify_column has a type or at least one specification ALTER COLUMN can express; Postgres rename_column stands alone (engine grammar)".into(),
        "an index has >= 1 column, is not both primary and unique; NULLS NOT DISTINCT only on Postgres unique indexes; INCLUDE / partial WHERE / IF NOT EXISTS only on Postgres; prefix lengths only on MySQL; table-level plain and fulltext indexes only on MySQL; Postgres table constraints without ASC/DESC and index type; standalone CREATE INDEX is not primary; Postgres IF NOT EXISTS needs an index name".into(),
        "foreign keys have >= 1 column and as many referenced columns; DROP TABLE / DROP TYPE name >= 1 object with at most one of CASCADE / RESTRICT; DROP EXTENSION with at most one of cascade / restrict".into(),
        "table COMMENT / ENGINE / COLLATE / CHARSET only on MySQL, each option at most once; DEFAULT values are literals or keywords; extra() strings are taken from a list of attributes / options the dialect defines; extension names, schemas and versions are written verbatim by the backend, so they are taken from identifiers / quoted literals".into(),
        "identifier and literal ESCAPING is the subject of C03 / C04; names and texts here contain quotes, commas, parentheses and semicolons only to exercise separator and parenthesis recovery".into(),
    ];

    ctx.extra.insert("golden_corpus".into(), golden_self_check());

    // 1. every ColumnType variant x dialect x position (bounded-exhaustive over the listed parameter forms)
    let types: Vec<Case> = (0..gen::types_total()).map(gen::nth_type_case).filter(in_dom).collect();
    ctx.run_list("types-by-dialect", &types, &check);
    if let Some(p) = ctx.parts.last_mut() {
        p.exhaustive = true;
        p.kind = "exhaustive";
    }
    // 2. ordered sequences of distinct specification kinds (pairs in the quick tier are included in the triples)
    let max_len = ctx.tier.pick(3, 4);
    let mut seqs: Vec<Case> = vec![];
    for s in gen::spec_sequences(max_len) {
        for d in [Dialect::Mysql, Dialect::Postgres] {
            for pos in 0u8..4 {
                if pos == 3 && d == Dialect::Mysql {
                    continue;
                }
                let c = gen::spec_seq_case(&s, d, pos);
                if in_dom(&c) {
                    seqs.push(c);
                }
            }
        }
    }
    ctx.run_list("specification-sequences", &seqs, &check);
    if let Some(p) = ctx.parts.last_mut() {
        p.exhaustive = true;
        p.kind = "exhaustive";
    }
    // 3. every ordered pair and triple of ALTER options
    let mut alters: Vec<Case> = vec![];
    for d in [Dialect::Mysql, Dialect::Postgres] {
        let kinds = gen::alter_kinds(d);
        let n = kinds.len();
        let table = TName { schema: None, name: 2 };
        for a in 0..n {
            for b in 0..n {
                alters.push(Case { dialect: d, stmt: StmtS::AlterTable { table: table.clone(), opts: vec![kinds[a].clone(), kinds[b].clone()] } });
            }
        }
        for a in 0..n {
            for b in 0..n {
                for c in 0..n {
                    alters.push(Case { dialect: d, stmt: StmtS::AlterTable { table: table.clone(), opts: vec![kinds[a].clone(), kinds[b].clone(), kinds[c].clone()] } });
                }
            }
        }
    }
    if ctx.tier == Tier::Thorough {
        for d in [Dialect::Mysql, Dialect::Postgres] {
            let kinds = gen::alter_kinds(d);
            let n = kinds.len();
            for i in 0..n * n * n * n {
                let opts = vec![kinds[i / (n * n * n)].clone(), kinds[(i / (n * n)) % n].clone(), kinds[(i / n) % n].clone(), kinds[i % n].clone()];
                alters.push(Case { dialect: d, stmt: StmtS::AlterTable { table: TName { schema: None, name: 2 }, opts } });
            }
        }
    }
    let alters: Vec<Case> = alters.into_iter().filter(in_dom).collect();
    ctx.run_list("alter-option-sequences", &alters, &check);
    if let Some(p) = ctx.parts.last_mut() {
        p.exhaustive = true;
        p.kind = "exhaustive";
    }
    ctx.extra.insert("exhaustive_bounds".into(), json!({"type_forms": gen::all_types().len(), "specification_sequence_max_len": max_len, "alter_option_sequence_max_len": ctx.tier.pick(3, 4)}));

    // 4. random search
    let n_ct = ctx.tier.pick(16 * 22_000, 16 * 250_000);
    let n_at = ctx.tier.pick(16 * 22_000, 16 * 250_000);
    let n_ot = ctx.tier.pick(16 * 15_000, 16 * 150_000);
    let max_cols = ctx.tier.pick(4, 6);
    ctx.run_proptest("create-table", n_ct, &|| gen::create_table_case(max_cols), &check);
    ctx.run_proptest("alter-table", n_at, &|| gen::alter_table_case(), &check);
    ctx.run_proptest("other-statements", n_ot, &|| gen::other_case(), &check);
}

pub fn replay(_part: &str, case: &J, obs: &mut Obs) -> R {
    let c: Case = from_case(case)?;
    check(&c, obs)
}
