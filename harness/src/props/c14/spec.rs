//! Serialisable specs of schema statements, the interpreter that performs the public builder calls, the
//! inventory each statement is declared to contain (computed from the spec alone, never from sea-query), and the
//! domain predicate (DESIGN.md 3.6).

use super::ddl::*;
use crate::expr_spec::{Op, E};
use crate::lex;
use crate::parse::PT;
use crate::util::Dialect;
use sea_query::extension::postgres::{Extension, Type, TypeAlterStatement};
use sea_query::*;
use serde::{Deserialize, Serialize};

pub const TABLES: [&str; 6] = ["t", "glyph", "font", "character", "order", "my table"];
pub const SCHEMAS: [&str; 2] = ["s1", "public"];
pub const COLS: [&str; 8] = ["id", "a", "b", "name", "created_at", "x y", "select", "q`uo\"te"];
pub const CUSTOM_TYPES: [&str; 3] = ["citext", "my_type", "geography"];
pub const ENUM_NAMES: [&str; 2] = ["font_family", "mood"];
pub const INDEX_METHODS: [&str; 2] = ["gist", "brin"];
pub const MY_COL_EXTRAS: [&str; 4] = ["ON UPDATE CURRENT_TIMESTAMP", "COLLATE utf8mb4_bin", "INVISIBLE", "COLUMN_FORMAT FIXED"];
pub const PG_COL_EXTRAS: [&str; 3] = ["COLLATE \"C\"", "REFERENCES \"font\" (\"id\")", "REFERENCES \"glyph\" (\"id\") ON DELETE CASCADE"];
/// an Extra inside a Postgres modify_column is written as an ALTER action of its own
pub const PG_MODIFY_EXTRAS: [&str; 2] = ["DROP CONSTRAINT \"ck_old\"", "ALTER COLUMN \"a\" DROP DEFAULT"];
pub const MY_TABLE_EXTRAS: [&str; 2] = ["ROW_FORMAT=DYNAMIC", "AUTO_INCREMENT=100"];
pub const PG_TABLE_EXTRAS: [&str; 2] = ["TABLESPACE \"ts1\"", "WITH (fillfactor=70)"];
pub const ENGINES: [&str; 2] = ["InnoDB", "MyISAM"];
pub const COLLATIONS: [&str; 2] = ["utf8mb4_unicode_ci", "latin1_bin"];
pub const CHARSETS: [&str; 2] = ["utf8mb4", "latin1"];
pub const EXTENSIONS: [&str; 3] = ["ltree", "pg_trgm", "hstore"];
pub const EXT_VERSIONS: [&str; 3] = ["'1.2'", "v2", "\"1.0\""];
pub const INTERVAL_FIELDS: [&str; 13] = [
    "YEAR", "MONTH", "DAY", "HOUR", "MINUTE", "SECOND", "YEAR TO MONTH", "DAY TO HOUR", "DAY TO MINUTE", "DAY TO SECOND", "HOUR TO MINUTE", "HOUR TO SECOND",
    "MINUTE TO SECOND",
];

fn al(s: &str) -> Alias {
    Alias::new(s)
}
pub fn col_name(i: u8) -> &'static str {
    COLS[i as usize % COLS.len()]
}

#[derive(Clone, Debug, PartialEq, Eq, Hash, Serialize, Deserialize)]
pub struct TName {
    pub schema: Option<u8>,
    pub name: u8,
}

impl TName {
    pub fn parts(&self) -> Name {
        let mut v = vec![];
        if let Some(s) = self.schema {
            v.push(SCHEMAS[s as usize % SCHEMAS.len()].to_string());
        }
        v.push(TABLES[self.name as usize % TABLES.len()].to_string());
        v
    }
    fn table_ref(&self) -> TableRef {
        let t = al(TABLES[self.name as usize % TABLES.len()]);
        match self.schema {
            Some(s) => (al(SCHEMAS[s as usize % SCHEMAS.len()]), t).into_table_ref(),
            None => t.into_table_ref(),
        }
    }
}

#[derive(Clone, Copy, Debug, PartialEq, Eq, Hash, Serialize, Deserialize)]
pub enum SLen {
    N(u32),
    Max,
    None,
}

#[derive(Clone, Debug, PartialEq, Eq, Hash, Serialize, Deserialize)]
pub enum TyS {
    Char(Option<u32>),
    String(SLen),
    Text,
    Blob,
    TinyInteger,
    SmallInteger,
    Integer,
    BigInteger,
    TinyUnsigned,
    SmallUnsigned,
    Unsigned,
    BigUnsigned,
    Float,
    Double,
    Decimal(Option<(u32, u32)>),
    DateTime,
    Timestamp,
    TimestampWithTimeZone,
    Time,
    Date,
    Year,
    /// index into INTERVAL_FIELDS, precision
    Interval(Option<u8>, Option<u32>),
    Binary(u32),
    VarBinary(SLen),
    Bit(Option<u32>),
    VarBit(u32),
    Boolean,
    Money(Option<(u32, u32)>),
    Json,
    JsonBinary,
    Uuid,
    Custom(u8),
    Enum { name: u8, variants: Vec<String> },
    Array(Box<TyS>),
    Vector(Option<u32>),
    Cidr,
    Inet,
    MacAddr,
    LTree,
}

impl TyS {
    pub fn variant(&self) -> &'static str {
        match self {
            TyS::Char(_) => "Char",
            TyS::String(_) => "String",
            TyS::Text => "Text",
            TyS::Blob => "Blob",
            TyS::TinyInteger => "TinyInteger",
            TyS::SmallInteger => "SmallInteger",
            TyS::Integer => "Integer",
            TyS::BigInteger => "BigInteger",
            TyS::TinyUnsigned => "TinyUnsigned",
            TyS::SmallUnsigned => "SmallUnsigned",
            TyS::Unsigned => "Unsigned",
            TyS::BigUnsigned => "BigUnsigned",
            TyS::Float => "Float",
            TyS::Double => "Double",
            TyS::Decimal(_) => "Decimal",
            TyS::DateTime => "DateTime",
            TyS::Timestamp => "Timestamp",
            TyS::TimestampWithTimeZone => "TimestampWithTimeZone",
            TyS::Time => "Time",
            TyS::Date => "Date",
            TyS::Year => "Year",
            TyS::Interval(..) => "Interval",
            TyS::Binary(_) => "Binary",
            TyS::VarBinary(_) => "VarBinary",
            TyS::Bit(_) => "Bit",
            TyS::VarBit(_) => "VarBit",
            TyS::Boolean => "Boolean",
            TyS::Money(_) => "Money",
            TyS::Json => "Json",
            TyS::JsonBinary => "JsonBinary",
            TyS::Uuid => "Uuid",
            TyS::Custom(_) => "Custom",
            TyS::Enum { .. } => "Enum",
            TyS::Array(_) => "Array",
            TyS::Vector(_) => "Vector",
            TyS::Cidr => "Cidr",
            TyS::Inet => "Inet",
            TyS::MacAddr => "MacAddr",
            TyS::LTree => "LTree",
        }
    }

    fn pg_interval(i: u8) -> PgInterval {
        match i % 13 {
            0 => PgInterval::Year,
            1 => PgInterval::Month,
            2 => PgInterval::Day,
            3 => PgInterval::Hour,
            4 => PgInterval::Minute,
            5 => PgInterval::Second,
            6 => PgInterval::YearToMonth,
            7 => PgInterval::DayToHour,
            8 => PgInterval::DayToMinute,
            9 => PgInterval::DayToSecond,
            10 => PgInterval::HourToMinute,
            11 => PgInterval::HourToSecond,
            _ => PgInterval::MinuteToSecond,
        }
    }

    pub fn column_type(&self) -> ColumnType {
        let sl = |l: &SLen| match l {
            SLen::N(n) => StringLen::N(*n),
            SLen::Max => StringLen::Max,
            SLen::None => StringLen::None,
        };
        match self {
            TyS::Char(n) => ColumnType::Char(*n),
            TyS::String(l) => ColumnType::String(sl(l)),
            TyS::Text => ColumnType::Text,
            TyS::Blob => ColumnType::Blob,
            TyS::TinyInteger => ColumnType::TinyInteger,
            TyS::SmallInteger => ColumnType::SmallInteger,
            TyS::Integer => ColumnType::Integer,
            TyS::BigInteger => ColumnType::BigInteger,
            TyS::TinyUnsigned => ColumnType::TinyUnsigned,
            TyS::SmallUnsigned => ColumnType::SmallUnsigned,
            TyS::Unsigned => ColumnType::Unsigned,
            TyS::BigUnsigned => ColumnType::BigUnsigned,
            TyS::Float => ColumnType::Float,
            TyS::Double => ColumnType::Double,
            TyS::Decimal(p) => ColumnType::Decimal(*p),
            TyS::DateTime => ColumnType::DateTime,
            TyS::Timestamp => ColumnType::Timestamp,
            TyS::TimestampWithTimeZone => ColumnType::TimestampWithTimeZone,
            TyS::Time => ColumnType::Time,
            TyS::Date => ColumnType::Date,
            TyS::Year => ColumnType::Year,
            TyS::Interval(f, p) => ColumnType::Interval(f.map(Self::pg_interval), *p),
            TyS::Binary(n) => ColumnType::Binary(*n),
            TyS::VarBinary(l) => ColumnType::VarBinary(sl(l)),
            TyS::Bit(n) => ColumnType::Bit(*n),
            TyS::VarBit(n) => ColumnType::VarBit(*n),
            TyS::Boolean => ColumnType::Boolean,
            TyS::Money(p) => ColumnType::Money(*p),
            TyS::Json => ColumnType::Json,
            TyS::JsonBinary => ColumnType::JsonBinary,
            TyS::Uuid => ColumnType::Uuid,
            TyS::Custom(i) => ColumnType::custom(CUSTOM_TYPES[*i as usize % CUSTOM_TYPES.len()]),
            TyS::Enum { name, variants } => ColumnType::Enum {
                name: al(ENUM_NAMES[*name as usize % ENUM_NAMES.len()]).into_iden(),
                variants: variants.iter().map(|v| al(v).into_iden()).collect(),
            },
            TyS::Array(e) => ColumnType::Array(RcOrArc::new(e.column_type())),
            TyS::Vector(n) => ColumnType::Vector(*n),
            TyS::Cidr => ColumnType::Cidr,
            TyS::Inet => ColumnType::Inet,
            TyS::MacAddr => ColumnType::MacAddr,
            TyS::LTree => ColumnType::LTree,
        }
    }

    /// set the type through the ColumnDef method that exists for it (half of the public surface), else new_with_type
    fn apply(&self, c: &mut ColumnDef) {
        match self {
            TyS::Char(Some(n)) => c.char_len(*n),
            TyS::Char(None) => c.char(),
            TyS::String(SLen::N(n)) => c.string_len(*n),
            TyS::String(SLen::None) => c.string(),
            TyS::Text => c.text(),
            TyS::Blob => c.blob(),
            TyS::TinyInteger => c.tiny_integer(),
            TyS::SmallInteger => c.small_integer(),
            TyS::Integer => c.integer(),
            TyS::BigInteger => c.big_integer(),
            TyS::TinyUnsigned => c.tiny_unsigned(),
            TyS::SmallUnsigned => c.small_unsigned(),
            TyS::Unsigned => c.unsigned(),
            TyS::BigUnsigned => c.big_unsigned(),
            TyS::Float => c.float(),
            TyS::Double => c.double(),
            TyS::Decimal(Some((p, s))) => c.decimal_len(*p, *s),
            TyS::Decimal(None) => c.decimal(),
            TyS::DateTime => c.date_time(),
            TyS::Timestamp => c.timestamp(),
            TyS::TimestampWithTimeZone => c.timestamp_with_time_zone(),
            TyS::Time => c.time(),
            TyS::Date => c.date(),
            TyS::Year => c.year(),
            TyS::Interval(f, p) => c.interval(f.map(Self::pg_interval), *p),
            TyS::Binary(n) => c.binary_len(*n),
            TyS::VarBinary(SLen::N(n)) => c.var_binary(*n),
            TyS::Bit(n) => c.bit(*n),
            TyS::VarBit(n) => c.varbit(*n),
            TyS::Boolean => c.boolean(),
            TyS::Money(Some((p, s))) => c.money_len(*p, *s),
            TyS::Money(None) => c.money(),
            TyS::Json => c.json(),
            TyS::JsonBinary => c.json_binary(),
            TyS::Uuid => c.uuid(),
            TyS::Custom(i) => c.custom(al(CUSTOM_TYPES[*i as usize % CUSTOM_TYPES.len()])),
            TyS::Enum { name, variants } => c.enumeration(al(ENUM_NAMES[*name as usize % ENUM_NAMES.len()]), variants.iter().map(|v| al(v))),
            TyS::Array(e) => c.array(e.column_type()),
            TyS::Vector(n) => c.vector(*n),
            TyS::Cidr => c.cidr(),
            TyS::Inet => c.inet(),
            TyS::MacAddr => c.mac_address(),
            TyS::LTree => c.ltree(),
            // no dedicated method: String(Max), VarBinary(None | Max)
            other => {
                let name = c.get_column_name();
                let spec = c.get_column_spec().clone();
                *c = ColumnDef::new_with_type(al(&name), other.column_type());
                debug_assert!(spec.is_empty());
                c
            }
        };
    }

    /// does the backend document a panic for this type
    pub fn panics_on(&self, d: Dialect) -> bool {
        match (self, d) {
            (TyS::Array(_) | TyS::Vector(_) | TyS::Cidr | TyS::Inet | TyS::MacAddr | TyS::LTree, Dialect::Mysql) => true,
            (TyS::Year, Dialect::Postgres) => true,
            (TyS::Array(e), Dialect::Postgres) => e.panics_on(d),
            _ => false,
        }
    }

    /// Postgres: `interval fields(p)` exists only when the fields end in SECOND (manual 8.5.4 / gram.y interval_second)
    pub fn pg_interval_form_ok(&self) -> bool {
        match self {
            TyS::Interval(Some(f), Some(_)) => INTERVAL_FIELDS[*f as usize % 13].ends_with("SECOND"),
            TyS::Array(e) => e.pg_interval_form_ok(),
            _ => true,
        }
    }
}

#[derive(Clone, Debug, PartialEq, Eq, Hash, Serialize, Deserialize)]
pub enum Lit {
    Int(i64),
    /// k + 0.5, k >= 0
    Half(u16),
    Str(String),
    Bool(bool),
    Null,
    CurrentTimestamp,
}

impl Lit {
    fn build(&self) -> SimpleExpr {
        match self {
            Lit::Int(i) => Expr::val(*i).into(),
            Lit::Half(k) => Expr::val(*k as f64 + 0.5).into(),
            Lit::Str(s) => Expr::val(s.as_str()).into(),
            Lit::Bool(b) => Expr::val(*b).into(),
            Lit::Null => Keyword::Null.into(),
            Lit::CurrentTimestamp => Keyword::CurrentTimestamp.into(),
        }
    }
    pub fn expect(&self) -> PT {
        match self {
            Lit::Int(i) => PT::Num(i.to_string()),
            Lit::Half(k) => PT::Num(format!("{k}.5")),
            Lit::Str(s) => PT::Str(s.clone()),
            Lit::Bool(b) => PT::Kw(if *b { "TRUE" } else { "FALSE" }.into()),
            Lit::Null => PT::Kw("NULL".into()),
            Lit::CurrentTimestamp => PT::Kw("CURRENT_TIMESTAMP".into()),
        }
    }
}

#[derive(Clone, Debug, PartialEq, Eq, Hash, Serialize, Deserialize)]
pub enum SpecS {
    Null,
    NotNull,
    Default(Lit),
    AutoIncrement,
    Unique,
    PrimaryKey,
    Check(E),
    Generated(E, bool),
    Extra(u8),
    Comment(String),
    Using(E),
}

impl SpecS {
    pub fn kind(&self) -> &'static str {
        match self {
            SpecS::Null => "null",
            SpecS::NotNull => "not-null",
            SpecS::Default(_) => "default",
            SpecS::AutoIncrement => "auto-increment",
            SpecS::Unique => "unique",
            SpecS::PrimaryKey => "primary-key",
            SpecS::Check(_) => "check",
            SpecS::Generated(..) => "generated",
            SpecS::Extra(_) => "extra",
            SpecS::Comment(_) => "comment",
            SpecS::Using(_) => "using",
        }
    }
    /// specifications Postgres cannot express inside ALTER COLUMN and the backend leaves out (explicit empty match arms)
    pub fn pg_modify_omitted(&self) -> bool {
        matches!(self, SpecS::AutoIncrement | SpecS::Generated(..) | SpecS::Comment(_))
    }
}

/// where a column definition is used
#[derive(Clone, Copy, Debug, PartialEq, Eq)]
pub enum ColCtx {
    Create,
    Add,
    Modify,
}

#[derive(Clone, Debug, PartialEq, Eq, Hash, Serialize, Deserialize)]
pub struct ColS {
    pub name: u8,
    pub ty: Option<TyS>,
    pub specs: Vec<SpecS>,
}

impl ColS {
    fn extra_text(&self, i: u8, d: Dialect, ctx: ColCtx) -> &'static str {
        match (d, ctx) {
            (Dialect::Mysql, _) => MY_COL_EXTRAS[i as usize % MY_COL_EXTRAS.len()],
            (_, ColCtx::Modify) => PG_MODIFY_EXTRAS[i as usize % PG_MODIFY_EXTRAS.len()],
            _ => PG_COL_EXTRAS[i as usize % PG_COL_EXTRAS.len()],
        }
    }

    pub fn build(&self, d: Dialect, ctx: ColCtx) -> ColumnDef {
        let mut c = ColumnDef::new(al(col_name(self.name)));
        if let Some(t) = &self.ty {
            t.apply(&mut c);
        }
        for s in &self.specs {
            match s {
                SpecS::Null => c.null(),
                SpecS::NotNull => c.not_null(),
                SpecS::Default(l) => c.default(l.build()),
                SpecS::AutoIncrement => c.auto_increment(),
                SpecS::Unique => c.unique_key(),
                SpecS::PrimaryKey => c.primary_key(),
                SpecS::Check(e) => c.check(e.build(d)),
                SpecS::Generated(e, stored) => c.generated(e.build(d), *stored),
                SpecS::Extra(i) => c.extra(self.extra_text(*i, d, ctx)),
                SpecS::Comment(t) => c.comment(t.as_str()),
                SpecS::Using(e) => c.using(e.build(d)),
            };
        }
        c
    }

    /// the attribute list a column definition (CREATE TABLE, ADD COLUMN, MySQL MODIFY COLUMN) declares
    fn expect_attrs(&self, d: Dialect, ctx: ColCtx) -> Vec<Attr> {
        let mut v = vec![];
        for s in &self.specs {
            match s {
                SpecS::Null => v.push(Attr::Null),
                SpecS::NotNull => v.push(Attr::NotNull),
                SpecS::Default(l) => v.push(Attr::Default(l.expect())),
                // Postgres: the serial pseudo-types are the dialect's form
                SpecS::AutoIncrement => {
                    if d == Dialect::Mysql {
                        v.push(Attr::AutoIncrement)
                    }
                }
                SpecS::Unique => v.push(Attr::Unique),
                SpecS::PrimaryKey => v.push(Attr::PrimaryKey),
                SpecS::Check(e) => v.push(Attr::Check(e.expect(d, false))),
                SpecS::Generated(e, st) => v.push(Attr::Generated(e.expect(d, false), Some(*st))),
                SpecS::Extra(i) => {
                    let text = self.extra_text(*i, d, ctx);
                    v.push(Attr::Other(lex::show(&lex::lex(d, text).expect("extra text lexes"))))
                }
                // "MySQL only." (doc comment of ColumnDef::comment)
                SpecS::Comment(t) => {
                    if d == Dialect::Mysql {
                        v.push(Attr::Comment(t.clone()))
                    }
                }
                SpecS::Using(_) => {}
            }
        }
        v
    }

    pub fn expect_coldef(&self, d: Dialect, ctx: ColCtx) -> ColDef<ExpTy> {
        let auto = self.specs.iter().any(|s| matches!(s, SpecS::AutoIncrement));
        ColDef {
            name: col_name(self.name).to_string(),
            ty: self.ty.as_ref().map(|t| ExpTy { spec: t.clone(), serial: auto && d == Dialect::Postgres }),
            attrs: self.expect_attrs(d, ctx),
        }
    }

    /// Postgres: modify_column declares one ALTER action per expressible element
    pub fn expect_pg_modify(&self, d: Dialect) -> Vec<Action<ExpTy>> {
        let col = col_name(self.name).to_string();
        let mut out = vec![];
        if let Some(t) = &self.ty {
            let using = self.specs.iter().find_map(|s| if let SpecS::Using(e) = s { Some(e.expect(d, false)) } else { None });
            out.push(Action::AlterType { col: col.clone(), ty: ExpTy { spec: t.clone(), serial: false }, using });
        }
        for s in &self.specs {
            match s {
                SpecS::Null => out.push(Action::DropNotNull(col.clone())),
                SpecS::NotNull => out.push(Action::SetNotNull(col.clone())),
                SpecS::Default(l) => out.push(Action::SetDefault(col.clone(), l.expect())),
                SpecS::Unique => out.push(Action::AddUnique(vec![col.clone()])),
                SpecS::PrimaryKey => out.push(Action::AddPrimaryKey(vec![col.clone()])),
                SpecS::Check(e) => out.push(Action::AddCheck(e.expect(d, false))),
                SpecS::Extra(i) => out.push(match i % 2 {
                    0 => Action::DropConstraint("ck_old".into()),
                    _ => Action::DropDefault("a".into()),
                }),
                SpecS::AutoIncrement | SpecS::Generated(..) | SpecS::Comment(_) | SpecS::Using(_) => {}
            }
        }
        out
    }
}

/// the declared type of a column: the abstract type plus whether Postgres must use its serial form
#[derive(Clone, Debug, PartialEq, Eq)]
pub struct ExpTy {
    pub spec: TyS,
    pub serial: bool,
}

#[derive(Clone, Copy, Debug, PartialEq, Eq, Hash, Serialize, Deserialize)]
pub enum IKind {
    Primary,
    Unique,
    Plain,
    Fulltext,
}

#[derive(Clone, Copy, Debug, PartialEq, Eq, Hash, Serialize, Deserialize)]
pub enum IType {
    BTree,
    Hash,
    Custom(u8),
}

#[derive(Clone, Debug, PartialEq, Eq, Hash, Serialize, Deserialize)]
pub struct ICol {
    pub name: u8,
    pub prefix: Option<u32>,
    pub desc: Option<bool>,
}

#[derive(Clone, Debug, PartialEq, Eq, Hash, Serialize, Deserialize)]
pub struct IndexS {
    pub kind: IKind,
    pub name: Option<String>,
    pub cols: Vec<ICol>,
    pub index_type: Option<IType>,
    pub nulls_not_distinct: bool,
    pub include: Vec<u8>,
    /// table-level primary key added with TableCreateStatement::primary_key instead of index()
    pub via_primary_key: bool,
}

impl IndexS {
    fn build(&self) -> IndexCreateStatement {
        let mut ix = Index::create();
        if let Some(n) = &self.name {
            ix.name(n.as_str());
        }
        for c in &self.cols {
            let n = al(col_name(c.name));
            let ord = |d: bool| if d { IndexOrder::Desc } else { IndexOrder::Asc };
            match (c.prefix, c.desc) {
                (None, None) => ix.col(n),
                (Some(p), None) => ix.col((n, p)),
                (None, Some(d)) => ix.col((n, ord(d))),
                (Some(p), Some(d)) => ix.col((n, p, ord(d))),
            };
        }
        match self.kind {
            IKind::Primary => {
                if !self.via_primary_key {
                    ix.primary();
                }
            }
            IKind::Unique => {
                ix.unique();
            }
            IKind::Plain => {}
            IKind::Fulltext => {
                ix.full_text();
            }
        }
        if self.kind != IKind::Fulltext {
            match self.index_type {
                Some(IType::BTree) => {
                    ix.index_type(IndexType::BTree);
                }
                Some(IType::Hash) => {
                    ix.index_type(IndexType::Hash);
                }
                Some(IType::Custom(i)) => {
                    ix.index_type(IndexType::Custom(al(INDEX_METHODS[i as usize % INDEX_METHODS.len()]).into_iden()));
                }
                None => {}
            }
        }
        if self.nulls_not_distinct {
            ix.nulls_not_distinct();
        }
        for c in &self.include {
            ix.include(al(col_name(*c)));
        }
        ix.take()
    }

    fn using_text(&self, d: Dialect) -> Option<String> {
        if self.kind == IKind::Fulltext {
            return if d == Dialect::Postgres { Some("GIN".into()) } else { None };
        }
        self.index_type.map(|t| match t {
            IType::BTree => "BTREE".to_string(),
            IType::Hash => "HASH".to_string(),
            IType::Custom(i) => INDEX_METHODS[i as usize % INDEX_METHODS.len()].to_ascii_uppercase(),
        })
    }

    fn expect_cols(&self) -> Vec<IdxCol> {
        self.cols.iter().map(|c| IdxCol { name: col_name(c.name).to_string(), prefix: c.prefix.map(|p| p.to_string()), desc: c.desc }).collect()
    }

    fn expect_table_level(&self, d: Dialect) -> TblIndex {
        let kind = match self.kind {
            IKind::Primary => IdxKind::Primary,
            IKind::Unique => IdxKind::Unique,
            IKind::Plain => IdxKind::Plain,
            IKind::Fulltext => IdxKind::Fulltext,
        };
        if d == Dialect::Mysql {
            TblIndex { kind, constraint: None, name: self.name.clone(), using: self.using_text(d), cols: self.expect_cols(), include: vec![], nulls_not_distinct: false }
        } else {
            TblIndex {
                kind,
                constraint: self.name.clone(),
                name: None,
                using: None,
                cols: self.expect_cols(),
                include: self.include.iter().map(|c| col_name(*c).to_string()).collect(),
                nulls_not_distinct: self.nulls_not_distinct,
            }
        }
    }
}

#[derive(Clone, Copy, Debug, PartialEq, Eq, Hash, Serialize, Deserialize)]
pub enum Act {
    Restrict,
    Cascade,
    SetNull,
    NoAction,
    SetDefault,
}

impl Act {
    fn build(self) -> ForeignKeyAction {
        match self {
            Act::Restrict => ForeignKeyAction::Restrict,
            Act::Cascade => ForeignKeyAction::Cascade,
            Act::SetNull => ForeignKeyAction::SetNull,
            Act::NoAction => ForeignKeyAction::NoAction,
            Act::SetDefault => ForeignKeyAction::SetDefault,
        }
    }
    fn text(self) -> String {
        match self {
            Act::Restrict => "RESTRICT",
            Act::Cascade => "CASCADE",
            Act::SetNull => "SET NULL",
            Act::NoAction => "NO ACTION",
            Act::SetDefault => "SET DEFAULT",
        }
        .to_string()
    }
}

#[derive(Clone, Debug, PartialEq, Eq, Hash, Serialize, Deserialize)]
pub struct FkS {
    pub name: Option<String>,
    pub from_tbl: TName,
    pub cols: Vec<u8>,
    pub ref_tbl: TName,
    pub ref_cols: Vec<u8>,
    pub on_delete: Option<Act>,
    pub on_update: Option<Act>,
    /// build with from()/to() instead of from_tbl/from_col/to_tbl/to_col (only with exactly one column pair)
    pub via_pairs: bool,
}

impl FkS {
    fn build_create(&self) -> ForeignKeyCreateStatement {
        let mut fk = ForeignKey::create();
        if let Some(n) = &self.name {
            fk.name(n.as_str());
        }
        if self.via_pairs && self.cols.len() == 1 && self.ref_cols.len() == 1 {
            fk.from(self.from_tbl.table_ref(), al(col_name(self.cols[0])));
            fk.to(self.ref_tbl.table_ref(), al(col_name(self.ref_cols[0])));
        } else {
            fk.from_tbl(self.from_tbl.table_ref());
            for c in &self.cols {
                fk.from_col(al(col_name(*c)));
            }
            fk.to_tbl(self.ref_tbl.table_ref());
            for c in &self.ref_cols {
                fk.to_col(al(col_name(*c)));
            }
        }
        if let Some(a) = self.on_delete {
            fk.on_delete(a.build());
        }
        if let Some(a) = self.on_update {
            fk.on_update(a.build());
        }
        fk.take()
    }
    fn build_table_fk(&self) -> TableForeignKey {
        let mut fk = TableForeignKey::new();
        if let Some(n) = &self.name {
            fk.name(n.as_str());
        }
        fk.from_tbl(self.from_tbl.table_ref());
        for c in &self.cols {
            fk.from_col(al(col_name(*c)));
        }
        fk.to_tbl(self.ref_tbl.table_ref());
        for c in &self.ref_cols {
            fk.to_col(al(col_name(*c)));
        }
        if let Some(a) = self.on_delete {
            fk.on_delete(a.build());
        }
        if let Some(a) = self.on_update {
            fk.on_update(a.build());
        }
        fk
    }
    fn expect(&self) -> Fk {
        Fk {
            name: self.name.clone(),
            cols: self.cols.iter().map(|c| col_name(*c).to_string()).collect(),
            ref_table: self.ref_tbl.parts(),
            ref_cols: self.ref_cols.iter().map(|c| col_name(*c).to_string()).collect(),
            on_delete: self.on_delete.map(|a| a.text()),
            on_update: self.on_update.map(|a| a.text()),
        }
    }
}

#[derive(Clone, Copy, Debug, PartialEq, Eq, Hash, Serialize, Deserialize)]
pub enum TOpt {
    Engine(u8),
    Collate(u8),
    Charset(u8),
}

#[derive(Clone, Debug, PartialEq, Eq, Hash, Serialize, Deserialize)]
pub struct TableS {
    pub table: TName,
    pub temporary: bool,
    pub if_not_exists: bool,
    pub cols: Vec<ColS>,
    pub indexes: Vec<IndexS>,
    pub fks: Vec<FkS>,
    pub checks: Vec<E>,
    pub comment: Option<String>,
    pub options: Vec<TOpt>,
    pub extra: Option<u8>,
}

#[derive(Clone, Debug, PartialEq, Eq, Hash, Serialize, Deserialize)]
pub enum AltS {
    AddColumn { if_not_exists: bool, col: ColS },
    Modify(ColS),
    Rename(u8, u8),
    DropColumn(u8),
    AddFk(FkS),
    DropFk(String),
}

impl AltS {
    pub fn kind(&self) -> &'static str {
        match self {
            AltS::AddColumn { if_not_exists: false, .. } => "add-column",
            AltS::AddColumn { if_not_exists: true, .. } => "add-column-if-not-exists",
            AltS::Modify(_) => "modify-column",
            AltS::Rename(..) => "rename-column",
            AltS::DropColumn(_) => "drop-column",
            AltS::AddFk(_) => "add-foreign-key",
            AltS::DropFk(_) => "drop-foreign-key",
        }
    }
}

#[derive(Clone, Debug, PartialEq, Eq, Hash, Serialize, Deserialize)]
pub struct TypeName {
    pub schema: Option<u8>,
    pub name: u8,
}
impl TypeName {
    fn parts(&self) -> Name {
        let mut v = vec![];
        if let Some(s) = self.schema {
            v.push(SCHEMAS[s as usize % SCHEMAS.len()].to_string());
        }
        v.push(ENUM_NAMES[self.name as usize % ENUM_NAMES.len()].to_string());
        v
    }
}

#[derive(Clone, Debug, PartialEq, Eq, Hash, Serialize, Deserialize)]
pub enum TypeAltS {
    Add { value: String, if_not_exists: bool, before: Option<String>, after: Option<String> },
    RenameTo(String),
    RenameValue(String, String),
}

/// call order of if_not_exists (0) / before (1) / after (2) on `Type::alter().add_value(..)`
pub fn add_value_call_order(a: &TypeAltS) -> [u8; 3] {
    const ORDERS: [[u8; 3]; 6] = [[0, 1, 2], [0, 2, 1], [1, 0, 2], [1, 2, 0], [2, 0, 1], [2, 1, 0]];
    ORDERS[(crate::runner::fingerprint(a) % 6) as usize]
}

#[derive(Clone, Debug, PartialEq, Eq, Hash, Serialize, Deserialize)]
pub enum StmtS {
    CreateTable(TableS),
    AlterTable { table: TName, opts: Vec<AltS> },
    RenameTable { from: TName, to: TName },
    DropTable { tables: Vec<TName>, if_exists: bool, behavior: Option<bool> },
    Truncate { table: TName },
    CreateIndex { index: IndexS, table: TName, if_not_exists: bool, predicate: Vec<E> },
    DropIndex { name: String, table: Option<TName>, if_exists: bool },
    CreateFk(FkS),
    DropFk { name: String, table: TName },
    CreateType { name: TypeName, values: Vec<String> },
    AlterType { name: TypeName, action: TypeAltS },
    DropType { names: Vec<TypeName>, if_exists: bool, behavior: Option<bool> },
    CreateExtension { name: u8, schema: Option<u8>, version: Option<u8>, cascade: bool, if_not_exists: bool },
    DropExtension { name: u8, if_exists: bool, behavior: Option<bool> },
}

fn beh(b: Option<bool>) -> Option<String> {
    b.map(|c| if c { "CASCADE" } else { "RESTRICT" }.to_string())
}

fn conj(d: Dialect, es: &[E]) -> Option<PT> {
    let mut it = es.iter();
    let first = it.next()?.expect(d, false);
    Some(it.fold(first, |acc, e| PT::Bin("AND".into(), Box::new(acc), Box::new(e.expect(d, false)))))
}

macro_rules! render {
    ($d:expr, $s:expr) => {
        match $d {
            Dialect::Mysql => $s.to_string(MysqlQueryBuilder),
            _ => $s.to_string(PostgresQueryBuilder),
        }
    };
    // the statement is finished the way callers do it: rendered from the builder itself, from `take()`, or from a clone
    ($d:expr, $s:expr, $fin:expr) => {
        match $fin % 3 {
            0 => render!($d, $s),
            1 => {
                let t = $s.take();
                render!($d, t)
            }
            _ => {
                let t = $s.clone();
                render!($d, t)
            }
        }
    };
}

impl StmtS {
    pub fn kind(&self) -> &'static str {
        match self {
            StmtS::CreateTable(_) => "create-table",
            StmtS::AlterTable { .. } => "alter-table",
            StmtS::RenameTable { .. } => "rename-table",
            StmtS::DropTable { .. } => "drop-table",
            StmtS::Truncate { .. } => "truncate",
            StmtS::CreateIndex { .. } => "create-index",
            StmtS::DropIndex { .. } => "drop-index",
            StmtS::CreateFk(_) => "create-foreign-key",
            StmtS::DropFk { .. } => "drop-foreign-key",
            StmtS::CreateType { .. } => "create-type",
            StmtS::AlterType { .. } => "alter-type",
            StmtS::DropType { .. } => "drop-type",
            StmtS::CreateExtension { .. } => "create-extension",
            StmtS::DropExtension { .. } => "drop-extension",
        }
    }

    /// Perform the public builder calls and render with the dialect's query builder.
    pub fn render(&self, d: Dialect) -> String {
        let fin = crate::runner::fingerprint(self);
        match self {
            StmtS::CreateTable(t) => {
                let mut s = Table::create();
                s.table(t.table.table_ref());
                if t.temporary {
                    s.temporary();
                }
                if t.if_not_exists {
                    s.if_not_exists();
                }
                for c in &t.cols {
                    s.col(c.build(d, ColCtx::Create));
                }
                for ix in &t.indexes {
                    let mut b = ix.build();
                    if ix.kind == IKind::Primary && ix.via_primary_key {
                        s.primary_key(&mut b);
                    } else {
                        s.index(&mut b);
                    }
                }
                for fk in &t.fks {
                    s.foreign_key(&mut fk.build_create());
                }
                for c in &t.checks {
                    s.check(c.build(d));
                }
                if let Some(c) = &t.comment {
                    s.comment(c.as_str());
                }
                for o in &t.options {
                    match o {
                        TOpt::Engine(i) => s.engine(ENGINES[*i as usize % 2]),
                        TOpt::Collate(i) => s.collate(COLLATIONS[*i as usize % 2]),
                        TOpt::Charset(i) => s.character_set(CHARSETS[*i as usize % 2]),
                    };
                }
                if let Some(x) = t.extra {
                    s.extra(if d == Dialect::Mysql { MY_TABLE_EXTRAS[x as usize % 2] } else { PG_TABLE_EXTRAS[x as usize % 2] });
                }
                render!(d, s, fin)
            }
            StmtS::AlterTable { table, opts } => {
                let mut s = Table::alter();
                s.table(table.table_ref());
                for o in opts {
                    match o {
                        AltS::AddColumn { if_not_exists: false, col } => s.add_column(col.build(d, ColCtx::Add)),
                        AltS::AddColumn { if_not_exists: true, col } => s.add_column_if_not_exists(col.build(d, ColCtx::Add)),
                        AltS::Modify(col) => s.modify_column(col.build(d, ColCtx::Modify)),
                        AltS::Rename(a, b) => s.rename_column(al(col_name(*a)), al(col_name(*b))),
                        AltS::DropColumn(c) => s.drop_column(al(col_name(*c))),
                        AltS::AddFk(fk) => s.add_foreign_key(&fk.build_table_fk()),
                        AltS::DropFk(n) => s.drop_foreign_key(al(n)),
                    };
                }
                render!(d, s, fin)
            }
            StmtS::RenameTable { from, to } => {
                let mut s = Table::rename();
                s.table(from.table_ref(), to.table_ref());
                render!(d, s, fin)
            }
            StmtS::DropTable { tables, if_exists, behavior } => {
                let mut s = Table::drop();
                for t in tables {
                    s.table(t.table_ref());
                }
                if *if_exists {
                    s.if_exists();
                }
                match behavior {
                    Some(true) => {
                        s.cascade();
                    }
                    Some(false) => {
                        s.restrict();
                    }
                    None => {}
                }
                render!(d, s, fin)
            }
            StmtS::Truncate { table } => {
                let mut s = Table::truncate();
                s.table(table.table_ref());
                render!(d, s, fin)
            }
            StmtS::CreateIndex { index, table, if_not_exists, predicate } => {
                let mut s = index.build();
                s.table(table.table_ref());
                if *if_not_exists {
                    s.if_not_exists();
                }
                for p in predicate {
                    s.and_where(p.build(d));
                }
                render!(d, s, fin)
            }
            StmtS::DropIndex { name, table, if_exists } => {
                let mut s = Index::drop();
                s.name(name.as_str());
                if let Some(t) = table {
                    s.table(t.table_ref());
                }
                if *if_exists {
                    s.if_exists();
                }
                render!(d, s)
            }
            StmtS::CreateFk(fk) => {
                let mut s = fk.build_create();
                render!(d, s, fin)
            }
            StmtS::DropFk { name, table } => {
                let mut s = ForeignKey::drop();
                s.name(name.as_str()).table(table.table_ref());
                render!(d, s)
            }
            StmtS::CreateType { name, values } => {
                let mut s = Type::create();
                let n = al(ENUM_NAMES[name.name as usize % ENUM_NAMES.len()]);
                match name.schema {
                    Some(sc) => s.as_enum((al(SCHEMAS[sc as usize % 2]), n)),
                    None => s.as_enum(n),
                };
                s.values(values.iter().map(|v| al(v)));
                s.to_string(PostgresQueryBuilder)
            }
            StmtS::AlterType { name, action } => {
                let n = al(ENUM_NAMES[name.name as usize % ENUM_NAMES.len()]);
                let s: TypeAlterStatement = match name.schema {
                    Some(sc) => Type::alter().name((al(SCHEMAS[sc as usize % 2]), n)),
                    None => Type::alter().name(n),
                };
                let s = match action {
                    TypeAltS::Add { value, if_not_exists, before, after } => {
                        let mut s = s.add_value(al(value));
                        // the three modifiers in one of their six call orders (a function of the action)
                        for step in add_value_call_order(action) {
                            match step {
                                0 => {
                                    if *if_not_exists {
                                        s = s.if_not_exists();
                                    }
                                }
                                1 => {
                                    if let Some(b) = before {
                                        s = s.before(al(b));
                                    }
                                }
                                _ => {
                                    if let Some(a) = after {
                                        s = s.after(al(a));
                                    }
                                }
                            }
                        }
                        s
                    }
                    TypeAltS::RenameTo(n) => s.rename_to(al(n)),
                    TypeAltS::RenameValue(a, b) => s.rename_value(al(a), al(b)),
                };
                s.to_string(PostgresQueryBuilder)
            }
            StmtS::DropType { names, if_exists, behavior } => {
                let mut s = Type::drop();
                if names.len() == 1 {
                    let n = al(ENUM_NAMES[names[0].name as usize % ENUM_NAMES.len()]);
                    match names[0].schema {
                        Some(sc) => s.name((al(SCHEMAS[sc as usize % 2]), n)),
                        None => s.name(n),
                    };
                } else {
                    s.names(names.iter().map(|t| {
                        let n = al(ENUM_NAMES[t.name as usize % ENUM_NAMES.len()]).into_iden();
                        match t.schema {
                            Some(sc) => sea_query::extension::postgres::TypeRef::SchemaType(al(SCHEMAS[sc as usize % 2]).into_iden(), n),
                            None => sea_query::extension::postgres::TypeRef::Type(n),
                        }
                    }));
                }
                if *if_exists {
                    s.if_exists();
                }
                match behavior {
                    Some(true) => {
                        s.cascade();
                    }
                    Some(false) => {
                        s.restrict();
                    }
                    None => {}
                }
                s.to_string(PostgresQueryBuilder)
            }
            StmtS::CreateExtension { name, schema, version, cascade, if_not_exists } => {
                let mut s = Extension::create();
                s.name(EXTENSIONS[*name as usize % 3]);
                if let Some(sc) = schema {
                    s.schema(SCHEMAS[*sc as usize % 2]);
                }
                if let Some(v) = version {
                    s.version(EXT_VERSIONS[*v as usize % 3]);
                }
                if *cascade {
                    s.cascade();
                }
                if *if_not_exists {
                    s.if_not_exists();
                }
                s.to_string(PostgresQueryBuilder)
            }
            StmtS::DropExtension { name, if_exists, behavior } => {
                let mut s = Extension::drop();
                s.name(EXTENSIONS[*name as usize % 3]);
                if *if_exists {
                    s.if_exists();
                }
                match behavior {
                    Some(true) => {
                        s.cascade();
                    }
                    Some(false) => {
                        s.restrict();
                    }
                    None => {}
                }
                s.to_string(PostgresQueryBuilder)
            }
        }
    }

    /// The inventory the statement declares, in the dialect's terms.
    pub fn expect(&self, d: Dialect) -> Stmt<ExpTy> {
        let my = d == Dialect::Mysql;
        match self {
            StmtS::CreateTable(t) => {
                let mut elems: Vec<Elem<ExpTy>> = vec![];
                for c in &t.cols {
                    elems.push(Elem::Column(c.expect_coldef(d, ColCtx::Create)));
                }
                for ix in &t.indexes {
                    elems.push(Elem::Index(ix.expect_table_level(d)));
                }
                for fk in &t.fks {
                    elems.push(Elem::ForeignKey(fk.expect()));
                }
                for c in &t.checks {
                    elems.push(Elem::Check(c.expect(d, false)));
                }
                let mut options = vec![];
                if my {
                    if let Some(c) = &t.comment {
                        options.push(("COMMENT".to_string(), c.clone()));
                    }
                    for o in &t.options {
                        options.push(match o {
                            TOpt::Engine(i) => ("ENGINE".to_string(), ENGINES[*i as usize % 2].to_string()),
                            TOpt::Collate(i) => ("COLLATE".to_string(), COLLATIONS[*i as usize % 2].to_string()),
                            TOpt::Charset(i) => ("CHARSET".to_string(), CHARSETS[*i as usize % 2].to_string()),
                        });
                    }
                    if let Some(x) = t.extra {
                        options.push(match x % 2 {
                            0 => ("ROW_FORMAT".to_string(), "DYNAMIC".to_string()),
                            _ => ("AUTO_INCREMENT".to_string(), "100".to_string()),
                        });
                    }
                } else if let Some(x) = t.extra {
                    options.push(match x % 2 {
                        0 => ("TABLESPACE".to_string(), "ts1".to_string()),
                        _ => ("WITH".to_string(), "( fillfactor = num<70> )".to_string()),
                    });
                }
                Stmt::CreateTable { temporary: t.temporary, if_not_exists: t.if_not_exists, table: t.table.parts(), elems, options }
            }
            StmtS::AlterTable { table, opts } => {
                let mut actions = vec![];
                for o in opts {
                    match o {
                        AltS::AddColumn { if_not_exists, col } => actions.push(Action::AddColumn { if_not_exists: *if_not_exists, col: col.expect_coldef(d, ColCtx::Add) }),
                        AltS::Modify(col) => {
                            if my {
                                actions.push(Action::ModifyColumn(col.expect_coldef(d, ColCtx::Modify)))
                            } else {
                                actions.extend(col.expect_pg_modify(d))
                            }
                        }
                        AltS::Rename(a, b) => actions.push(Action::RenameColumn(col_name(*a).into(), col_name(*b).into())),
                        AltS::DropColumn(c) => actions.push(Action::DropColumn(col_name(*c).into())),
                        AltS::AddFk(fk) => actions.push(Action::AddForeignKey(fk.expect())),
                        AltS::DropFk(n) => actions.push(if my { Action::DropForeignKey(n.clone()) } else { Action::DropConstraint(n.clone()) }),
                    }
                }
                Stmt::AlterTable { table: table.parts(), actions }
            }
            StmtS::RenameTable { from, to } => Stmt::RenameTable { from: from.parts(), to: to.parts() },
            StmtS::DropTable { tables, if_exists, behavior } => Stmt::DropTable { if_exists: *if_exists, tables: tables.iter().map(|t| t.parts()).collect(), behavior: beh(*behavior) },
            StmtS::Truncate { table } => Stmt::Truncate { table: table.parts() },
            StmtS::CreateIndex { index, table, if_not_exists, predicate } => Stmt::CreateIndex {
                unique: index.kind == IKind::Unique,
                fulltext: my && index.kind == IKind::Fulltext,
                // MySQL has no IF NOT EXISTS for CREATE INDEX; the backend leaves it out
                if_not_exists: !my && *if_not_exists,
                name: index.name.clone(),
                table: table.parts(),
                using: index.using_text(d),
                cols: index.expect_cols(),
                include: if my { vec![] } else { index.include.iter().map(|c| col_name(*c).to_string()).collect() },
                nulls_not_distinct: !my && index.nulls_not_distinct,
                predicate: if my { None } else { conj(d, predicate) },
            },
            StmtS::DropIndex { name, table, if_exists } => {
                if my {
                    Stmt::DropIndex { if_exists: false, name: vec![name.clone()], table: table.as_ref().map(|t| t.parts()) }
                } else {
                    // Postgres: an index lives in the schema of its table; only the schema of `table` is written
                    let mut n = vec![];
                    if let Some(TName { schema: Some(s), .. }) = table {
                        n.push(SCHEMAS[*s as usize % 2].to_string());
                    }
                    n.push(name.clone());
                    Stmt::DropIndex { if_exists: *if_exists, name: n, table: None }
                }
            }
            StmtS::CreateFk(fk) => Stmt::AlterTable { table: fk.from_tbl.parts(), actions: vec![Action::AddForeignKey(fk.expect())] },
            StmtS::DropFk { name, table } => {
                Stmt::AlterTable { table: table.parts(), actions: vec![if my { Action::DropForeignKey(name.clone()) } else { Action::DropConstraint(name.clone()) }] }
            }
            StmtS::CreateType { name, values } => Stmt::CreateType { name: name.parts(), labels: values.clone() },
            StmtS::AlterType { name, action } => Stmt::AlterType {
                name: name.parts(),
                action: match action {
                    TypeAltS::Add { value, if_not_exists, before, after } => {
                        // one placement field: of `before` and `after` the one called later stays
                        let order = add_value_call_order(action);
                        let after_last = order.iter().position(|x| *x == 2) > order.iter().position(|x| *x == 1);
                        let (b, a) = match (before, after) {
                            (Some(_), Some(_)) if after_last => (None, after.clone()),
                            (Some(_), Some(_)) => (before.clone(), None),
                            _ => (before.clone(), after.clone()),
                        };
                        TypeAction::AddValue { if_not_exists: *if_not_exists, value: value.clone(), before: b, after: a }
                    }
                    TypeAltS::RenameTo(n) => TypeAction::RenameTo(n.clone()),
                    TypeAltS::RenameValue(a, b) => TypeAction::RenameValue(a.clone(), b.clone()),
                },
            },
            StmtS::DropType { names, if_exists, behavior } => Stmt::DropType { if_exists: *if_exists, names: names.iter().map(|n| n.parts()).collect(), behavior: beh(*behavior) },
            StmtS::CreateExtension { name, schema, version, cascade, if_not_exists } => Stmt::CreateExtension {
                if_not_exists: *if_not_exists,
                name: EXTENSIONS[*name as usize % 3].to_string(),
                schema: schema.map(|s| SCHEMAS[s as usize % 2].to_string()),
                version: version.map(|v| match v % 3 {
                    0 => "'1.2'".to_string(),
                    1 => "v2".to_string(),
                    _ => "1.0".to_string(),
                }),
                cascade: *cascade,
            },
            StmtS::DropExtension { name, if_exists, behavior } => Stmt::DropExtension { if_exists: *if_exists, names: vec![EXTENSIONS[*name as usize % 3].to_string()], behavior: beh(*behavior) },
        }
    }

    // ------------------------------------------------------------------------------------ domain

    /// Err(reason) if the statement is outside the property's domain for this dialect (DESIGN.md 3.6).
    pub fn in_domain(&self, d: Dialect) -> Result<(), String> {
        let my = d == Dialect::Mysql;
        let col_ok = |c: &ColS, ctx: ColCtx| -> Result<(), String> {
            let pg_modify = !my && ctx == ColCtx::Modify;
            match &c.ty {
                None => {
                    if !pg_modify {
                        return Err("a column definition needs a type (engine grammar)".into());
                    }
                }
                Some(t) => {
                    if t.panics_on(d) {
                        return Err(format!("{} is a documented unimplemented! arm of this backend", t.variant()));
                    }
                    if !my && !t.pg_interval_form_ok() {
                        return Err("Postgres: interval fields with a precision must end in SECOND (engine grammar)".into());
                    }
                    if let TyS::Enum { variants, .. } = t {
                        if variants.is_empty() {
                            return Err("an enumeration needs a variant".into());
                        }
                    }
                }
            }
            let mut kinds: Vec<&str> = c.specs.iter().map(|s| s.kind()).collect();
            kinds.sort();
            let n = kinds.len();
            kinds.dedup();
            if kinds.len() != n {
                return Err("a specification kind is given at most once per column".into());
            }
            for s in &c.specs {
                match s {
                    SpecS::Using(_) => {
                        if !(pg_modify && c.ty.is_some()) {
                            return Err("USING belongs to Postgres ALTER COLUMN .. TYPE".into());
                        }
                    }
                    SpecS::AutoIncrement => {
                        if !my && !pg_modify && !matches!(c.ty, Some(TyS::SmallInteger | TyS::Integer | TyS::BigInteger)) {
                            return Err("Postgres: auto_increment only on SmallInteger / Integer / BigInteger (unimplemented! arm)".into());
                        }
                    }
                    _ => {}
                }
            }
            if pg_modify && c.ty.is_none() && !c.specs.iter().any(|s| !s.pg_modify_omitted() && !matches!(s, SpecS::Using(_))) {
                return Err("Postgres: a modify_column needs a type or a specification that ALTER COLUMN can express".into());
            }
            Ok(())
        };
        let idx_ok = |ix: &IndexS, table_level: bool| -> Result<(), String> {
            if ix.cols.is_empty() {
                return Err("an index needs a column".into());
            }
            if my {
                if ix.nulls_not_distinct || !ix.include.is_empty() {
                    return Err("NULLS NOT DISTINCT / INCLUDE are Postgres only".into());
                }
            } else {
                if ix.cols.iter().any(|c| c.prefix.is_some()) {
                    return Err("Postgres has no index-column prefix lengths".into());
                }
                if ix.nulls_not_distinct && ix.kind != IKind::Unique {
                    return Err("NULLS NOT DISTINCT belongs to unique indexes".into());
                }
                if table_level {
                    if matches!(ix.kind, IKind::Plain | IKind::Fulltext) {
                        return Err("table-level plain / fulltext indexes only on MySQL".into());
                    }
                    if ix.index_type.is_some() {
                        return Err("a Postgres table constraint has no USING".into());
                    }
                    if ix.cols.iter().any(|c| c.desc.is_some()) {
                        return Err("a Postgres table constraint has no ASC/DESC".into());
                    }
                }
            }
            if ix.via_primary_key && !(table_level && ix.kind == IKind::Primary) {
                return Err("via_primary_key only for table-level primary keys".into());
            }
            if !table_level && ix.kind == IKind::Primary {
                return Err("a standalone CREATE INDEX is not primary".into());
            }
            Ok(())
        };
        let fk_ok = |fk: &FkS| -> Result<(), String> {
            if fk.cols.is_empty() || fk.cols.len() != fk.ref_cols.len() {
                return Err("a foreign key needs matching non-empty column lists".into());
            }
            if my && (fk.from_tbl.schema.is_some() || fk.ref_tbl.schema.is_some()) {
                return Err("MySQL: qualified table in a foreign key is a documented panic".into());
            }
            Ok(())
        };
        match self {
            StmtS::CreateTable(t) => {
                if t.cols.is_empty() {
                    return Err("CREATE TABLE needs a column".into());
                }
                for c in &t.cols {
                    col_ok(c, ColCtx::Create)?;
                }
                for ix in &t.indexes {
                    idx_ok(ix, true)?;
                }
                for fk in &t.fks {
                    fk_ok(fk)?;
                }
                if !my && (t.comment.is_some() || !t.options.is_empty()) {
                    return Err("table comment / ENGINE / COLLATE / CHARSET are MySQL only".into());
                }
                let mut seen = vec![];
                for o in &t.options {
                    let k = std::mem::discriminant(o);
                    if seen.contains(&k) {
                        return Err("a table option is given at most once".into());
                    }
                    seen.push(k);
                }
                Ok(())
            }
            StmtS::AlterTable { opts, .. } => {
                if opts.is_empty() {
                    return Err("ALTER TABLE without options panics (documented)".into());
                }
                for o in opts {
                    match o {
                        AltS::AddColumn { col, .. } => col_ok(col, ColCtx::Add)?,
                        AltS::Modify(col) => col_ok(col, ColCtx::Modify)?,
                        AltS::Rename(..) => {
                            if !my && opts.len() > 1 {
                                return Err("Postgres: RENAME COLUMN stands alone (engine grammar)".into());
                            }
                        }
                        AltS::DropColumn(_) => {}
                        AltS::AddFk(fk) => fk_ok(fk)?,
                        AltS::DropFk(n) => {
                            if n.is_empty() {
                                return Err("name needed".into());
                            }
                        }
                    }
                }
                Ok(())
            }
            StmtS::RenameTable { .. } | StmtS::Truncate { .. } => Ok(()),
            StmtS::DropTable { tables, .. } => {
                if tables.is_empty() {
                    Err("DROP TABLE needs a table".into())
                } else {
                    Ok(())
                }
            }
            StmtS::CreateIndex { index, table, if_not_exists, predicate } => {
                idx_ok(index, false)?;
                if my {
                    if index.name.is_none() {
                        return Err("MySQL: CREATE INDEX needs a name".into());
                    }
                    if table.schema.is_some() {
                        return Err("MySQL: qualified table in CREATE INDEX is a documented panic".into());
                    }
                    if *if_not_exists || !predicate.is_empty() {
                        return Err("IF NOT EXISTS / partial WHERE are Postgres only".into());
                    }
                    if index.kind == IKind::Fulltext && index.cols.iter().any(|c| c.desc.is_some() || c.prefix.is_some()) {
                        return Err("MySQL: FULLTEXT key parts take no length / direction".into());
                    }
                } else if *if_not_exists && index.name.is_none() {
                    return Err("Postgres: IF NOT EXISTS requires an index name".into());
                }
                Ok(())
            }
            StmtS::DropIndex { table, if_exists, .. } => {
                if my {
                    if *if_exists {
                        return Err("MySQL: IF EXISTS on DROP INDEX is a documented panic".into());
                    }
                    match table {
                        None => return Err("MySQL: DROP INDEX needs the table".into()),
                        Some(t) if t.schema.is_some() => return Err("MySQL: qualified table is a documented panic".into()),
                        _ => {}
                    }
                }
                Ok(())
            }
            StmtS::CreateFk(fk) => fk_ok(fk),
            StmtS::DropFk { table, .. } => {
                if my && table.schema.is_some() {
                    Err("MySQL: qualified table is a documented panic".into())
                } else {
                    Ok(())
                }
            }
            StmtS::CreateType { .. } | StmtS::AlterType { .. } | StmtS::CreateExtension { .. } | StmtS::DropExtension { .. } => {
                if my {
                    Err("Postgres only".into())
                } else {
                    Ok(())
                }
            }
            StmtS::DropType { names, .. } => {
                if my {
                    Err("Postgres only".into())
                } else if names.is_empty() {
                    Err("DROP TYPE needs a name".into())
                } else {
                    Ok(())
                }
            }
        }
    }

    /// element kinds for the non-triviality rule
    pub fn elements(&self) -> Vec<&'static str> {
        let mut v = vec![];
        let col = |c: &ColS, v: &mut Vec<&'static str>| {
            v.push("column");
            for s in &c.specs {
                v.push(s.kind());
            }
        };
        match self {
            StmtS::CreateTable(t) => {
                for c in &t.cols {
                    col(c, &mut v);
                }
                v.extend(t.indexes.iter().map(|_| "index"));
                v.extend(t.fks.iter().map(|_| "foreign-key"));
                v.extend(t.checks.iter().map(|_| "table-check"));
                v.extend(t.options.iter().map(|_| "option"));
                if t.comment.is_some() {
                    v.push("table-comment");
                }
                if t.extra.is_some() {
                    v.push("table-extra");
                }
                if t.temporary {
                    v.push("temporary");
                }
                if t.if_not_exists {
                    v.push("if-not-exists");
                }
            }
            StmtS::AlterTable { opts, .. } => {
                for o in opts {
                    v.push(o.kind());
                }
            }
            StmtS::RenameTable { .. } | StmtS::Truncate { .. } => v.push("table"),
            StmtS::DropTable { tables, if_exists, behavior } => {
                v.extend(tables.iter().map(|_| "table"));
                if *if_exists {
                    v.push("if-exists");
                }
                if behavior.is_some() {
                    v.push("behavior");
                }
            }
            StmtS::CreateIndex { index, if_not_exists, predicate, .. } => {
                v.extend(index.cols.iter().map(|_| "index-column"));
                if index.kind != IKind::Plain {
                    v.push("index-kind");
                }
                if index.index_type.is_some() {
                    v.push("using");
                }
                v.extend(index.include.iter().map(|_| "include-column"));
                if index.nulls_not_distinct {
                    v.push("nulls-not-distinct");
                }
                if *if_not_exists {
                    v.push("if-not-exists");
                }
                v.extend(predicate.iter().map(|_| "predicate"));
            }
            StmtS::DropIndex { if_exists, table, .. } => {
                v.push("index");
                if *if_exists {
                    v.push("if-exists");
                }
                if table.is_some() {
                    v.push("table");
                }
            }
            StmtS::CreateFk(fk) => {
                v.extend(fk.cols.iter().map(|_| "fk-column"));
                if fk.name.is_some() {
                    v.push("name");
                }
                if fk.on_delete.is_some() {
                    v.push("on-delete");
                }
                if fk.on_update.is_some() {
                    v.push("on-update");
                }
            }
            StmtS::DropFk { .. } => v.push("foreign-key"),
            StmtS::CreateType { values, .. } => {
                v.push("type");
                v.extend(values.iter().map(|_| "label"));
            }
            StmtS::AlterType { action, .. } => {
                v.push("type");
                match action {
                    TypeAltS::Add { if_not_exists, before, after, .. } => {
                        v.push("label");
                        if *if_not_exists {
                            v.push("if-not-exists");
                        }
                        if before.is_some() || after.is_some() {
                            v.push("placement");
                        }
                    }
                    TypeAltS::RenameTo(_) => v.push("new-name"),
                    TypeAltS::RenameValue(..) => {
                        v.push("label");
                        v.push("label");
                    }
                }
            }
            StmtS::DropType { names, if_exists, behavior } => {
                v.extend(names.iter().map(|_| "type"));
                if *if_exists {
                    v.push("if-exists");
                }
                if behavior.is_some() {
                    v.push("behavior");
                }
            }
            StmtS::CreateExtension { schema, version, cascade, if_not_exists, .. } => {
                v.push("extension");
                if schema.is_some() {
                    v.push("schema");
                }
                if version.is_some() {
                    v.push("version");
                }
                if *cascade {
                    v.push("cascade");
                }
                if *if_not_exists {
                    v.push("if-not-exists");
                }
            }
            StmtS::DropExtension { if_exists, behavior, .. } => {
                v.push("extension");
                if *if_exists {
                    v.push("if-exists");
                }
                if behavior.is_some() {
                    v.push("behavior");
                }
            }
        }
        v
    }

    /// N: a statement with >= 2 elements of >= 2 kinds; ALTER with >= 2 options or a modify_column with >= 2 specifications
    pub fn nontrivial(&self) -> bool {
        if let StmtS::AlterTable { opts, .. } = self {
            return opts.len() >= 2 || opts.iter().any(|o| matches!(o, AltS::Modify(c) if c.specs.len() >= 2));
        }
        let e = self.elements();
        let mut k = e.clone();
        k.sort();
        k.dedup();
        e.len() >= 2 && k.len() >= 2
    }

    /// Postgres modify_column containing a specification the backend leaves out (root cause of the comma defect F7)
    pub fn has_pg_modify_with_omitted_spec(&self) -> bool {
        matches!(self, StmtS::AlterTable { opts, .. } if opts.iter().any(|o| matches!(o, AltS::Modify(c) if c.specs.iter().any(|s| s.pg_modify_omitted()))))
    }
    pub fn has_pg_modify_check(&self) -> bool {
        matches!(self, StmtS::AlterTable { opts, .. } if opts.iter().any(|o| matches!(o, AltS::Modify(c) if c.specs.iter().any(|s| matches!(s, SpecS::Check(_))))))
    }
}

/// comparison operators used in CHECK / GENERATED / predicates
pub const CMP_OPS: [Op; 6] = [Op::Eq, Op::Ne, Op::Lt, Op::Gt, Op::Le, Op::Ge];
