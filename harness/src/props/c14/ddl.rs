//! Recursive-descent DDL parsers for MySQL 8 and PostgreSQL (DESIGN.md 3.4), over the tokens of `crate::lex`.
//!
//! They follow the reference grammars' clause order for the subset sea-query can emit and REJECT a missing / extra
//! comma, a clause keyword in the wrong place, an unbalanced parenthesis, an unknown token, or a construct of the other
//! dialect.  They are lenient where the manuals leave doubt: column attributes are accepted in any order (both engines'
//! grammars use a free attribute list), optional noise words are accepted, the order of `ON DELETE` / `ON UPDATE` is
//! free, MariaDB's `ADD COLUMN IF NOT EXISTS` is accepted for the MySQL backend.  Type names are NOT judged here (a
//! column type is parsed generically: name words, optional parenthesised parameters, modifiers); whether a name is a
//! type the dialect defines is decided by `types::type_defined`.
//!
//! Embedded expressions (DEFAULT, CHECK, GENERATED, USING, partial-index predicate) are parsed with `crate::parse::P`.
//! Every error carries a `class` (stable, names the grammatical reason) that becomes part of the violation signature.

use crate::lex::{self, Tok, Token};
use crate::parse::{parse_full_expr, PErr, P, PT};
use crate::util::Dialect;

#[derive(Clone, Debug, PartialEq, Eq)]
pub struct DErr {
    pub class: String,
    pub msg: String,
    pub at: usize,
    /// the expression grammar is not certain here (never an alarm)
    pub undecided: bool,
}
pub type DRes<T> = Result<T, DErr>;

pub type Name = Vec<String>;

#[derive(Clone, Debug, PartialEq, Eq)]
pub enum TArg {
    Num(String),
    Str(String),
    Word(String),
}

/// A column type as written.
#[derive(Clone, Debug, PartialEq, Eq, Default)]
pub struct Ty {
    /// bare words lower-cased and joined by one space (`double precision`); a quoted name is kept as is; a qualified
    /// name is joined with `.`
    pub name: String,
    pub quoted: bool,
    /// None = no parenthesis after the name
    pub args: Option<Vec<TArg>>,
    /// Postgres interval fields, upper-cased (`YEAR TO MONTH`)
    pub fields: Option<String>,
    /// `with time zone` = Some(true), `without time zone` = Some(false)
    pub tz: Option<bool>,
    pub unsigned: bool,
    /// other MySQL type modifiers (SIGNED, ZEROFILL, CHARACTER SET x)
    pub modifiers: Vec<String>,
    /// Postgres array dimensions
    pub dims: u32,
}

impl Ty {
    pub fn show(&self) -> String {
        let mut s = self.name.clone();
        if let Some(f) = &self.fields {
            s.push(' ');
            s.push_str(f);
        }
        if let Some(a) = &self.args {
            s.push('(');
            s.push_str(
                &a.iter()
                    .map(|x| match x {
                        TArg::Num(n) => n.clone(),
                        TArg::Str(t) => format!("'{t}'"),
                        TArg::Word(w) => w.clone(),
                    })
                    .collect::<Vec<_>>()
                    .join(", "),
            );
            s.push(')');
        }
        match self.tz {
            Some(true) => s.push_str(" with time zone"),
            Some(false) => s.push_str(" without time zone"),
            None => {}
        }
        if self.unsigned {
            s.push_str(" UNSIGNED");
        }
        for m in &self.modifiers {
            s.push(' ');
            s.push_str(m);
        }
        for _ in 0..self.dims {
            s.push_str("[]");
        }
        s
    }
}

#[derive(Clone, Debug, PartialEq, Eq)]
pub enum Attr {
    Null,
    NotNull,
    Default(PT),
    AutoIncrement,
    Unique,
    PrimaryKey,
    Check(PT),
    Generated(PT, Option<bool>),
    Comment(String),
    /// any other attribute the grammar defines (COLLATE x, ON UPDATE CURRENT_TIMESTAMP, REFERENCES .., INVISIBLE ..),
    /// as the canonical text of its tokens
    Other(String),
}

impl Attr {
    pub fn kind(&self) -> &'static str {
        match self {
            Attr::Null => "null",
            Attr::NotNull => "not-null",
            Attr::Default(_) => "default",
            Attr::AutoIncrement => "auto-increment",
            Attr::Unique => "unique",
            Attr::PrimaryKey => "primary-key",
            Attr::Check(_) => "check",
            Attr::Generated(..) => "generated",
            Attr::Comment(_) => "comment",
            Attr::Other(_) => "extra",
        }
    }
}

#[derive(Clone, Debug, PartialEq, Eq)]
pub struct ColDef<T> {
    pub name: String,
    pub ty: Option<T>,
    pub attrs: Vec<Attr>,
}

#[derive(Clone, Debug, PartialEq, Eq)]
pub struct IdxCol {
    pub name: String,
    pub prefix: Option<String>,
    /// Some(true) = DESC
    pub desc: Option<bool>,
}

#[derive(Clone, Copy, Debug, PartialEq, Eq)]
pub enum IdxKind {
    Primary,
    Unique,
    Plain,
    Fulltext,
}

#[derive(Clone, Debug, PartialEq, Eq)]
pub struct TblIndex {
    pub kind: IdxKind,
    /// name after CONSTRAINT
    pub constraint: Option<String>,
    /// MySQL index name after KEY
    pub name: Option<String>,
    pub using: Option<String>,
    pub cols: Vec<IdxCol>,
    pub include: Vec<String>,
    pub nulls_not_distinct: bool,
}

#[derive(Clone, Debug, PartialEq, Eq)]
pub struct Fk {
    pub name: Option<String>,
    pub cols: Vec<String>,
    pub ref_table: Name,
    pub ref_cols: Vec<String>,
    pub on_delete: Option<String>,
    pub on_update: Option<String>,
}

#[derive(Clone, Debug, PartialEq, Eq)]
pub enum Elem<T> {
    Column(ColDef<T>),
    Index(TblIndex),
    ForeignKey(Fk),
    Check(PT),
}

impl<T> Elem<T> {
    pub fn kind(&self) -> &'static str {
        match self {
            Elem::Column(_) => "column",
            Elem::Index(_) => "index",
            Elem::ForeignKey(_) => "foreign-key",
            Elem::Check(_) => "check",
        }
    }
}

#[derive(Clone, Debug, PartialEq, Eq)]
pub enum Action<T> {
    AddColumn { if_not_exists: bool, col: ColDef<T> },
    /// MySQL MODIFY COLUMN
    ModifyColumn(ColDef<T>),
    RenameColumn(String, String),
    DropColumn(String),
    AddForeignKey(Fk),
    /// MySQL DROP FOREIGN KEY
    DropForeignKey(String),
    /// Postgres DROP CONSTRAINT
    DropConstraint(String),
    // Postgres ALTER COLUMN forms
    AlterType { col: String, ty: T, using: Option<PT> },
    SetNotNull(String),
    DropNotNull(String),
    SetDefault(String, PT),
    DropDefault(String),
    AddUnique(Vec<String>),
    AddPrimaryKey(Vec<String>),
    AddCheck(PT),
    AddIndex(TblIndex),
}

impl<T> Action<T> {
    pub fn kind(&self) -> &'static str {
        match self {
            Action::AddColumn { .. } => "add-column",
            Action::ModifyColumn(_) => "modify-column",
            Action::RenameColumn(..) => "rename-column",
            Action::DropColumn(_) => "drop-column",
            Action::AddForeignKey(_) => "add-foreign-key",
            Action::DropForeignKey(_) => "drop-foreign-key",
            Action::DropConstraint(_) => "drop-constraint",
            Action::AlterType { .. } => "alter-column-type",
            Action::SetNotNull(_) => "set-not-null",
            Action::DropNotNull(_) => "drop-not-null",
            Action::SetDefault(..) => "set-default",
            Action::DropDefault(_) => "drop-default",
            Action::AddUnique(_) => "add-unique",
            Action::AddPrimaryKey(_) => "add-primary-key",
            Action::AddCheck(_) => "add-check",
            Action::AddIndex(_) => "add-index",
        }
    }
}

#[derive(Clone, Debug, PartialEq, Eq)]
pub enum TypeAction {
    AddValue { if_not_exists: bool, value: String, before: Option<String>, after: Option<String> },
    RenameTo(String),
    RenameValue(String, String),
}

#[derive(Clone, Debug, PartialEq, Eq)]
pub enum Stmt<T> {
    CreateTable {
        temporary: bool,
        if_not_exists: bool,
        table: Name,
        elems: Vec<Elem<T>>,
        /// (upper-cased option name, value text); COMMENT's value is the decoded string
        options: Vec<(String, String)>,
    },
    AlterTable { table: Name, actions: Vec<Action<T>> },
    RenameTable { from: Name, to: Name },
    DropTable { if_exists: bool, tables: Vec<Name>, behavior: Option<String> },
    Truncate { table: Name },
    CreateIndex {
        unique: bool,
        fulltext: bool,
        if_not_exists: bool,
        name: Option<String>,
        table: Name,
        using: Option<String>,
        cols: Vec<IdxCol>,
        include: Vec<String>,
        nulls_not_distinct: bool,
        predicate: Option<PT>,
    },
    DropIndex { if_exists: bool, name: Name, table: Option<Name> },
    CreateType { name: Name, labels: Vec<String> },
    AlterType { name: Name, action: TypeAction },
    DropType { if_exists: bool, names: Vec<Name>, behavior: Option<String> },
    CreateExtension { if_not_exists: bool, name: String, schema: Option<String>, version: Option<String>, cascade: bool },
    DropExtension { if_exists: bool, names: Vec<String>, behavior: Option<String> },
}

impl<T> Stmt<T> {
    pub fn kind(&self) -> &'static str {
        match self {
            Stmt::CreateTable { .. } => "create-table",
            Stmt::AlterTable { .. } => "alter-table",
            Stmt::RenameTable { .. } => "rename-table",
            Stmt::DropTable { .. } => "drop-table",
            Stmt::Truncate { .. } => "truncate",
            Stmt::CreateIndex { .. } => "create-index",
            Stmt::DropIndex { .. } => "drop-index",
            Stmt::CreateType { .. } => "create-type",
            Stmt::AlterType { .. } => "alter-type",
            Stmt::DropType { .. } => "drop-type",
            Stmt::CreateExtension { .. } => "create-extension",
            Stmt::DropExtension { .. } => "drop-extension",
        }
    }
}

pub struct D<'a> {
    pub d: Dialect,
    pub t: &'a [Token],
    pub i: usize,
}

const REF_ACTION_START: [&str; 4] = ["RESTRICT", "CASCADE", "SET", "NO"];
const PG_INTERVAL_UNITS: [&str; 6] = ["YEAR", "MONTH", "DAY", "HOUR", "MINUTE", "SECOND"];

impl<'a> D<'a> {
    pub fn new(d: Dialect, t: &'a [Token]) -> Self {
        D { d, t, i: 0 }
    }
    fn my(&self) -> bool {
        self.d == Dialect::Mysql
    }
    fn pg(&self) -> bool {
        self.d == Dialect::Postgres
    }
    fn peek(&self) -> Option<&'a Tok> {
        self.t.get(self.i).map(|t| &t.tok)
    }
    fn peek_at(&self, k: usize) -> Option<&'a Tok> {
        self.t.get(self.i + k).map(|t| &t.tok)
    }
    fn eof(&self) -> bool {
        self.i >= self.t.len()
    }
    fn is_word(&self, w: &str) -> bool {
        matches!(self.peek(), Some(t) if t.is_word(w))
    }
    fn is_word_at(&self, k: usize, w: &str) -> bool {
        matches!(self.peek_at(k), Some(t) if t.is_word(w))
    }
    fn is_any_word(&self, ws: &[&str]) -> bool {
        ws.iter().any(|w| self.is_word(w))
    }
    fn eat_word(&mut self, w: &str) -> bool {
        if self.is_word(w) {
            self.i += 1;
            true
        } else {
            false
        }
    }
    /// all words in sequence or nothing
    fn eat_words(&mut self, ws: &[&str]) -> bool {
        for (k, w) in ws.iter().enumerate() {
            if !self.is_word_at(k, w) {
                return false;
            }
        }
        self.i += ws.len();
        true
    }
    fn eat(&mut self, t: &Tok) -> bool {
        if self.peek() == Some(t) {
            self.i += 1;
            true
        } else {
            false
        }
    }
    fn found(&self) -> String {
        self.peek().map(|x| x.show()).unwrap_or_else(|| "end of statement".into())
    }
    fn err<T>(&self, class: &str, msg: impl Into<String>) -> DRes<T> {
        Err(DErr { class: class.into(), msg: format!("{} (at token {}: {})", msg.into(), self.i, self.found()), at: self.i, undecided: false })
    }
    fn expect_word(&mut self, w: &str) -> DRes<()> {
        if self.eat_word(w) {
            Ok(())
        } else {
            self.err("keyword-expected", format!("expected {w}"))
        }
    }
    fn expect(&mut self, t: &Tok, class: &str) -> DRes<()> {
        if self.eat(t) {
            Ok(())
        } else {
            self.err(class, format!("expected {}", t.show()))
        }
    }

    /// identifier: quoted or bare word; a string literal is not an identifier
    fn ident(&mut self, what: &str) -> DRes<String> {
        match self.peek() {
            Some(Tok::Ident(s)) => {
                self.i += 1;
                Ok(s.clone())
            }
            Some(Tok::Word(w)) => {
                self.i += 1;
                Ok(w.clone())
            }
            Some(Tok::Str(_)) => self.err("string-literal-for-identifier", format!("{what}: a string literal stands where the grammar requires an identifier")),
            Some(Tok::Comma) | Some(Tok::RParen) | None => self.err("identifier-missing", format!("{what} expected")),
            _ => self.err("identifier-expected", format!("{what} expected")),
        }
    }
    fn name(&mut self, what: &str) -> DRes<Name> {
        let mut v = vec![self.ident(what)?];
        while self.peek() == Some(&Tok::Dot) {
            self.i += 1;
            v.push(self.ident(what)?);
        }
        Ok(v)
    }
    fn str_lit(&mut self, what: &str) -> DRes<String> {
        match self.peek() {
            Some(Tok::Str(s)) => {
                self.i += 1;
                Ok(s.clone())
            }
            Some(Tok::Ident(_)) => self.err("identifier-for-string-literal", format!("{what}: string literal expected")),
            _ => self.err("string-literal-expected", format!("{what}: string literal expected")),
        }
    }
    fn paren_idents(&mut self, what: &str) -> DRes<Vec<String>> {
        self.expect(&Tok::LParen, "parenthesis-expected")?;
        let mut v = vec![];
        loop {
            v.push(self.ident(what)?);
            if !self.eat(&Tok::Comma) {
                break;
            }
        }
        self.close_paren()?;
        Ok(v)
    }
    fn close_paren(&mut self) -> DRes<()> {
        if self.eat(&Tok::RParen) {
            Ok(())
        } else if self.eof() {
            self.err("unbalanced-parenthesis", "closing parenthesis missing")
        } else {
            self.err("missing-separator", "expected , or )")
        }
    }

    fn map_perr<T>(&self, r: Result<T, PErr>, base: usize, what: &str) -> DRes<T> {
        match r {
            Ok(v) => Ok(v),
            Err(PErr::Syntax { at, msg }) => Err(DErr { class: format!("expression/{what}"), msg: format!("{what}: {msg}"), at: base + at, undecided: false }),
            Err(PErr::Undecided(w)) => Err(DErr { class: "undecided".into(), msg: w, at: base, undecided: true }),
        }
    }

    /// expression starting here, as far as the dialect's expression grammar goes
    fn expr_here(&mut self, what: &str) -> DRes<PT> {
        let mut p = P::new(self.d, self.t);
        p.i = self.i;
        let r = p.parse_expr();
        let e = self.map_perr(r, 0, what)?;
        self.i = p.i;
        Ok(e)
    }

    /// `( expr )` with the whole parenthesis content being one expression
    fn expr_in_parens(&mut self, what: &str) -> DRes<PT> {
        let open = self.i;
        self.expect(&Tok::LParen, "parenthesis-expected")?;
        let mut depth = 1usize;
        let mut j = self.i;
        while j < self.t.len() {
            match self.t[j].tok {
                Tok::LParen => depth += 1,
                Tok::RParen => {
                    depth -= 1;
                    if depth == 0 {
                        break;
                    }
                }
                _ => {}
            }
            j += 1;
        }
        if depth != 0 {
            self.i = open;
            return self.err("unbalanced-parenthesis", format!("{what}: parenthesis opened here is never closed"));
        }
        let inner = &self.t[self.i..j];
        if inner.is_empty() {
            return self.err("expression-missing", format!("{what}: empty parenthesis"));
        }
        let e = self.map_perr(parse_full_expr(self.d, inner), self.i, what)?;
        self.i = j + 1;
        Ok(e)
    }

    /// expression that extends to the next top-level comma or the end of the statement
    fn expr_to_comma(&mut self, what: &str, stop_words: &[&str]) -> DRes<PT> {
        let mut depth = 0i32;
        let mut j = self.i;
        while j < self.t.len() {
            match &self.t[j].tok {
                Tok::LParen => depth += 1,
                Tok::RParen => {
                    depth -= 1;
                    if depth < 0 {
                        break;
                    }
                }
                Tok::Comma if depth == 0 => break,
                Tok::Word(w) if depth == 0 && stop_words.iter().any(|s| w.eq_ignore_ascii_case(s)) => break,
                _ => {}
            }
            j += 1;
        }
        let inner = &self.t[self.i..j];
        if inner.is_empty() {
            return self.err("expression-missing", format!("{what}: expression expected"));
        }
        let e = self.map_perr(parse_full_expr(self.d, inner), self.i, what)?;
        self.i = j;
        Ok(e)
    }

    // ------------------------------------------------------------------------------------ types

    fn type_args(&mut self) -> DRes<Option<Vec<TArg>>> {
        if self.peek() != Some(&Tok::LParen) {
            return Ok(None);
        }
        self.i += 1;
        let mut v = vec![];
        if self.peek() == Some(&Tok::RParen) {
            return self.err("type-parameters", "empty parameter list after a type name");
        }
        loop {
            match self.peek() {
                Some(Tok::Num(n)) => {
                    v.push(TArg::Num(n.clone()));
                    self.i += 1;
                }
                Some(Tok::Str(s)) => {
                    v.push(TArg::Str(s.clone()));
                    self.i += 1;
                }
                Some(Tok::Word(w)) => {
                    v.push(TArg::Word(w.clone()));
                    self.i += 1;
                }
                _ => return self.err("type-parameters", "type parameter expected"),
            }
            if !self.eat(&Tok::Comma) {
                break;
            }
        }
        self.close_paren()?;
        Ok(Some(v))
    }

    pub fn column_type(&mut self) -> DRes<Ty> {
        let mut ty = Ty::default();
        match self.peek() {
            Some(Tok::Ident(_)) => {
                let n = self.name("type name")?;
                ty.name = n.join(".");
                ty.quoted = true;
                ty.args = self.type_args()?;
            }
            Some(Tok::Word(w)) => {
                let lw = w.to_ascii_lowercase();
                self.i += 1;
                let mut words = vec![lw.clone()];
                let mut done_args = false;
                match lw.as_str() {
                    "double" => {
                        if self.eat_word("precision") {
                            words.push("precision".into());
                        }
                    }
                    "national" => {
                        for w in ["character", "char", "varchar"] {
                            if self.eat_word(w) {
                                words.push(w.into());
                                break;
                            }
                        }
                        if self.eat_word("varying") {
                            words.push("varying".into());
                        }
                    }
                    "character" | "char" | "nchar" | "bit" => {
                        if self.eat_word("varying") {
                            words.push("varying".into());
                        }
                    }
                    "long" if self.my() => {
                        for w in ["varchar", "varbinary"] {
                            if self.eat_word(w) {
                                words.push(w.into());
                                break;
                            }
                        }
                    }
                    "timestamp" | "time" if self.pg() => {
                        ty.args = self.type_args()?;
                        done_args = true;
                        if self.is_word("with") || self.is_word("without") {
                            let with = self.is_word("with");
                            self.i += 1;
                            if !self.eat_words(&["time", "zone"]) {
                                return self.err("type-syntax", "expected TIME ZONE");
                            }
                            ty.tz = Some(with);
                        }
                    }
                    "interval" if self.pg() => {
                        done_args = true;
                        let mut fields: Vec<String> = vec![];
                        if let Some(Tok::Word(f)) = self.peek() {
                            let up = f.to_ascii_uppercase();
                            if PG_INTERVAL_UNITS.contains(&up.as_str()) {
                                self.i += 1;
                                fields.push(up);
                                if self.eat_word("TO") {
                                    match self.peek() {
                                        Some(Tok::Word(g)) if PG_INTERVAL_UNITS.contains(&g.to_ascii_uppercase().as_str()) => {
                                            fields.push(g.to_ascii_uppercase());
                                            self.i += 1;
                                        }
                                        _ => return self.err("type-syntax", "interval: field name expected after TO"),
                                    }
                                }
                            }
                        }
                        if fields.len() == 2 {
                            let ok = matches!(
                                (fields[0].as_str(), fields[1].as_str()),
                                ("YEAR", "MONTH") | ("DAY", "HOUR") | ("DAY", "MINUTE") | ("DAY", "SECOND") | ("HOUR", "MINUTE") | ("HOUR", "SECOND") | ("MINUTE", "SECOND")
                            );
                            if !ok {
                                return self.err("type-syntax", format!("interval: {} TO {} is not a field combination Postgres defines", fields[0], fields[1]));
                            }
                        }
                        if self.peek() == Some(&Tok::LParen) {
                            // gram.y: the precision is written directly after INTERVAL, or after a final SECOND
                            if !fields.is_empty() && fields.last().map(|s| s.as_str()) != Some("SECOND") {
                                return self.err("type-parameters/interval", "interval: a precision is only allowed after SECOND or directly after INTERVAL");
                            }
                            ty.args = self.type_args()?;
                        }
                        if !fields.is_empty() {
                            ty.fields = Some(fields.join(" TO "));
                        }
                    }
                    _ => {
                        // qualified user-defined type name
                        while self.peek() == Some(&Tok::Dot) {
                            self.i += 1;
                            let p = self.ident("type name")?;
                            let last = words.pop().unwrap();
                            words.push(format!("{last}.{p}"));
                        }
                    }
                }
                ty.name = words.join(" ");
                if !done_args {
                    ty.args = self.type_args()?;
                }
            }
            Some(Tok::Str(_)) => return self.err("string-literal-for-identifier", "a string literal stands where a type name is required"),
            _ => return self.err("type-missing", "type name expected"),
        }
        if self.my() {
            loop {
                if self.eat_word("UNSIGNED") {
                    if ty.unsigned {
                        return self.err("type-syntax", "UNSIGNED written twice");
                    }
                    ty.unsigned = true;
                } else if self.eat_word("SIGNED") {
                    ty.modifiers.push("SIGNED".into());
                } else if self.eat_word("ZEROFILL") {
                    ty.modifiers.push("ZEROFILL".into());
                } else if self.is_word("CHARACTER") && self.is_word_at(1, "SET") {
                    self.i += 2;
                    let cs = self.ident("character set name")?;
                    ty.modifiers.push(format!("CHARACTER SET {cs}"));
                } else if self.is_word("CHARSET") {
                    self.i += 1;
                    let cs = self.ident("character set name")?;
                    ty.modifiers.push(format!("CHARACTER SET {cs}"));
                } else {
                    break;
                }
            }
        } else {
            loop {
                if self.peek() == Some(&Tok::LBracket) {
                    self.i += 1;
                    if let Some(Tok::Num(_)) = self.peek() {
                        self.i += 1;
                    }
                    if !self.eat(&Tok::RBracket) {
                        return self.err("type-syntax", "expected ] after [");
                    }
                    ty.dims += 1;
                } else if self.is_word("ARRAY") && ty.dims == 0 {
                    self.i += 1;
                    if self.peek() == Some(&Tok::LBracket) {
                        self.i += 1;
                        if let Some(Tok::Num(_)) = self.peek() {
                            self.i += 1;
                        }
                        if !self.eat(&Tok::RBracket) {
                            return self.err("type-syntax", "expected ] after [");
                        }
                    }
                    ty.dims = 1;
                } else {
                    break;
                }
            }
        }
        Ok(ty)
    }

    // ------------------------------------------------------------------------- column definitions

    fn at_coldef_end(&self) -> bool {
        matches!(self.peek(), None | Some(Tok::Comma) | Some(Tok::RParen)) || (self.my() && (self.is_word("FIRST") || self.is_word("AFTER")))
    }

    fn at_attr_start(&self) -> bool {
        const COMMON: [&str; 12] = ["NOT", "NULL", "DEFAULT", "UNIQUE", "PRIMARY", "CHECK", "GENERATED", "COLLATE", "REFERENCES", "CONSTRAINT", "AS", "KEY"];
        const MY: [&str; 8] = ["AUTO_INCREMENT", "COMMENT", "ON", "VISIBLE", "INVISIBLE", "COLUMN_FORMAT", "STORAGE", "SRID"];
        const PGW: [&str; 3] = ["DEFERRABLE", "INITIALLY", "COMPRESSION"];
        self.is_any_word(&COMMON) || (self.my() && self.is_any_word(&MY)) || (self.pg() && self.is_any_word(&PGW))
    }

    fn ref_action(&mut self) -> DRes<String> {
        if self.eat_word("RESTRICT") {
            Ok("RESTRICT".into())
        } else if self.eat_word("CASCADE") {
            Ok("CASCADE".into())
        } else if self.eat_words(&["SET", "NULL"]) {
            Ok("SET NULL".into())
        } else if self.eat_words(&["SET", "DEFAULT"]) {
            Ok("SET DEFAULT".into())
        } else if self.eat_words(&["NO", "ACTION"]) {
            Ok("NO ACTION".into())
        } else {
            self.err("reference-action", "expected RESTRICT, CASCADE, SET NULL, NO ACTION or SET DEFAULT")
        }
    }

    /// `REFERENCES tbl [(cols)] [MATCH x] [ON DELETE a] [ON UPDATE a]` (the two ON clauses in either order, each once)
    fn references(&mut self) -> DRes<(Name, Vec<String>, Option<String>, Option<String>)> {
        self.expect_word("REFERENCES")?;
        let tbl = self.name("referenced table")?;
        let cols = if self.peek() == Some(&Tok::LParen) {
            self.paren_idents("referenced column")?
        } else if self.my() {
            return self.err("parenthesis-expected", "MySQL requires the referenced column list");
        } else {
            vec![]
        };
        if self.eat_word("MATCH") {
            if !(self.eat_word("FULL") || self.eat_word("PARTIAL") || self.eat_word("SIMPLE")) {
                return self.err("reference-syntax", "expected FULL, PARTIAL or SIMPLE after MATCH");
            }
        }
        let mut on_delete = None;
        let mut on_update = None;
        while self.is_word("ON") && (self.is_word_at(1, "DELETE") || self.is_word_at(1, "UPDATE")) {
            let del = self.is_word_at(1, "DELETE");
            self.i += 2;
            let a = self.ref_action()?;
            let slot = if del { &mut on_delete } else { &mut on_update };
            if slot.is_some() {
                return self.err("clause-repeated", format!("ON {} written twice", if del { "DELETE" } else { "UPDATE" }));
            }
            *slot = Some(a);
        }
        Ok((tbl, cols, on_delete, on_update))
    }

    fn attrs(&mut self) -> DRes<Vec<Attr>> {
        let mut out = vec![];
        loop {
            if self.at_coldef_end() {
                break;
            }
            let start = self.i;
            if self.eat_word("CONSTRAINT") {
                // named column constraint: the name is noise for the inventory
                if self.pg() {
                    self.ident("constraint name")?;
                    if !self.is_any_word(&["NOT", "NULL", "CHECK", "DEFAULT", "UNIQUE", "PRIMARY", "REFERENCES", "GENERATED"]) {
                        return self.err("column-attribute", "a column constraint must follow CONSTRAINT name");
                    }
                } else {
                    if !self.is_word("CHECK") {
                        self.ident("constraint name")?;
                    }
                    if !self.is_word("CHECK") {
                        return self.err("column-attribute", "MySQL: only a CHECK constraint can follow CONSTRAINT [name] in a column definition");
                    }
                }
            }
            if self.eat_words(&["NOT", "NULL"]) {
                out.push(Attr::NotNull);
            } else if self.eat_word("NULL") {
                out.push(Attr::Null);
            } else if self.eat_word("DEFAULT") {
                let e = self.default_value()?;
                out.push(Attr::Default(e));
            } else if self.eat_word("AUTO_INCREMENT") {
                if self.pg() {
                    self.i = start;
                    return self.err("other-dialect", "AUTO_INCREMENT is not Postgres syntax");
                }
                out.push(Attr::AutoIncrement);
            } else if self.eat_word("UNIQUE") {
                if self.my() {
                    self.eat_word("KEY");
                }
                out.push(Attr::Unique);
            } else if self.eat_words(&["PRIMARY", "KEY"]) {
                out.push(Attr::PrimaryKey);
            } else if self.my() && self.eat_word("KEY") {
                out.push(Attr::PrimaryKey);
            } else if self.eat_word("CHECK") {
                let e = self.expr_in_parens("CHECK")?;
                if self.my() {
                    // sql_yacc.yy treats [NOT] ENFORCED as an attribute of its own so that CHECK (..) NOT NULL stays derivable
                    if !self.eat_words(&["NOT", "ENFORCED"]) {
                        self.eat_word("ENFORCED");
                    }
                } else {
                    self.eat_words(&["NO", "INHERIT"]);
                }
                out.push(Attr::Check(e));
            } else if self.is_word("GENERATED") || (self.my() && self.is_word("AS")) {
                if self.eat_word("GENERATED") {
                    if self.pg() && self.eat_words(&["BY", "DEFAULT"]) {
                        self.expect_word("AS")?;
                        self.expect_word("IDENTITY")?;
                        if self.peek() == Some(&Tok::LParen) {
                            self.skip_balanced()?;
                        }
                        out.push(Attr::Other(self.text(start)));
                        continue;
                    }
                    self.expect_word("ALWAYS")?;
                    self.expect_word("AS")?;
                    if self.pg() && self.eat_word("IDENTITY") {
                        if self.peek() == Some(&Tok::LParen) {
                            self.skip_balanced()?;
                        }
                        out.push(Attr::Other(self.text(start)));
                        continue;
                    }
                } else {
                    self.i += 1; // AS
                }
                let e = self.expr_in_parens("GENERATED")?;
                let stored = if self.eat_word("STORED") {
                    Some(true)
                } else if self.eat_word("VIRTUAL") {
                    Some(false)
                } else {
                    None
                };
                out.push(Attr::Generated(e, stored));
            } else if self.eat_word("COMMENT") {
                if self.pg() {
                    self.i = start;
                    return self.err("other-dialect", "COMMENT is not a Postgres column attribute");
                }
                let s = self.str_lit("COMMENT")?;
                out.push(Attr::Comment(s));
            } else if self.eat_word("COLLATE") {
                self.name("collation")?;
                out.push(Attr::Other(self.text(start)));
            } else if self.is_word("REFERENCES") {
                self.references()?;
                out.push(Attr::Other(self.text(start)));
            } else if self.my() && self.eat_words(&["ON", "UPDATE"]) {
                if !(self.eat_word("CURRENT_TIMESTAMP") || self.eat_word("NOW") || self.eat_word("LOCALTIME") || self.eat_word("LOCALTIMESTAMP")) {
                    return self.err("column-attribute", "expected CURRENT_TIMESTAMP after ON UPDATE");
                }
                if self.peek() == Some(&Tok::LParen) {
                    self.skip_balanced()?;
                }
                out.push(Attr::Other(self.text(start)));
            } else if self.my() && (self.eat_word("VISIBLE") || self.eat_word("INVISIBLE")) {
                out.push(Attr::Other(self.text(start)));
            } else if self.my() && (self.eat_word("COLUMN_FORMAT") || self.eat_word("STORAGE")) {
                self.ident("option value")?;
                out.push(Attr::Other(self.text(start)));
            } else if self.pg() && (self.eat_word("DEFERRABLE") || self.eat_words(&["NOT", "DEFERRABLE"])) {
                out.push(Attr::Other(self.text(start)));
            } else if self.pg() && self.eat_word("INITIALLY") {
                if !(self.eat_word("DEFERRED") || self.eat_word("IMMEDIATE")) {
                    return self.err("column-attribute", "expected DEFERRED or IMMEDIATE");
                }
                out.push(Attr::Other(self.text(start)));
            } else {
                return self.err("column-attribute", "this token cannot start a column attribute (expected an attribute, a comma or a closing parenthesis)");
            }
        }
        Ok(out)
    }

    fn text(&self, from: usize) -> String {
        lex::show(&self.t[from..self.i])
    }

    fn skip_balanced(&mut self) -> DRes<()> {
        let open = self.i;
        self.expect(&Tok::LParen, "parenthesis-expected")?;
        let mut depth = 1;
        while depth > 0 {
            match self.peek() {
                None => {
                    self.i = open;
                    return self.err("unbalanced-parenthesis", "parenthesis opened here is never closed");
                }
                Some(Tok::LParen) => depth += 1,
                Some(Tok::RParen) => depth -= 1,
                _ => {}
            }
            self.i += 1;
        }
        Ok(())
    }

    /// MySQL: `DEFAULT {literal | (expr)}` (plus the CURRENT_TIMESTAMP family); Postgres: `DEFAULT default_expr`
    fn default_value(&mut self) -> DRes<PT> {
        if self.at_coldef_end() || (self.at_attr_start() && !self.is_word("NULL")) {
            return self.err("expression-missing", "DEFAULT without a value");
        }
        let paren = self.peek() == Some(&Tok::LParen);
        let e = self.expr_here("DEFAULT")?;
        if self.my() && !paren {
            let ok = match &e {
                PT::Num(_) | PT::Str(_) | PT::Bytes(_) | PT::Kw(_) => true,
                PT::Func(n, a, _) => ["NOW", "CURRENT_TIMESTAMP", "LOCALTIME", "LOCALTIMESTAMP"].contains(&n.as_str()) && a.len() <= 1,
                _ => false,
            };
            if !ok {
                return self.err("default-form", format!("MySQL: a DEFAULT that is not a literal must be written in parentheses, found {}", e.show()));
            }
        }
        Ok(e)
    }

    fn coldef(&mut self) -> DRes<ColDef<Ty>> {
        let name = self.ident("column name")?;
        let ty = if self.at_coldef_end() || self.at_attr_start() { None } else { Some(self.column_type()?) };
        let attrs = self.attrs()?;
        Ok(ColDef { name, ty, attrs })
    }

    // ------------------------------------------------------------------ table-level constraints

    fn index_cols(&mut self, allow_prefix: bool) -> DRes<Vec<IdxCol>> {
        self.expect(&Tok::LParen, "parenthesis-expected")?;
        let mut v = vec![];
        loop {
            if self.peek() == Some(&Tok::LParen) {
                // functional key part
                let start = self.i;
                self.skip_balanced()?;
                let name = format!("({})", lex::show(&self.t[start + 1..self.i - 1]));
                let desc = if self.eat_word("ASC") {
                    Some(false)
                } else if self.eat_word("DESC") {
                    Some(true)
                } else {
                    None
                };
                v.push(IdxCol { name, prefix: None, desc });
            } else {
                let name = self.ident("index column")?;
                let mut prefix = None;
                if self.peek() == Some(&Tok::LParen) {
                    if !allow_prefix {
                        return self.err("index-prefix-length", "a prefix length after an index column is MySQL syntax");
                    }
                    self.i += 1;
                    match self.peek() {
                        Some(Tok::Num(n)) => {
                            prefix = Some(n.clone());
                            self.i += 1;
                        }
                        _ => return self.err("index-prefix-length", "prefix length expected"),
                    }
                    self.close_paren()?;
                }
                if self.pg() {
                    // opclass / collation are not emitted by sea-query; NULLS FIRST|LAST accepted
                    if self.eat_word("COLLATE") {
                        self.name("collation")?;
                    }
                }
                let desc = if self.eat_word("ASC") {
                    Some(false)
                } else if self.eat_word("DESC") {
                    Some(true)
                } else {
                    None
                };
                if self.pg() && self.eat_word("NULLS") {
                    if !(self.eat_word("FIRST") || self.eat_word("LAST")) {
                        return self.err("index-column", "expected FIRST or LAST after NULLS");
                    }
                }
                v.push(IdxCol { name, prefix, desc });
            }
            if !self.eat(&Tok::Comma) {
                break;
            }
        }
        self.close_paren()?;
        Ok(v)
    }

    fn using_clause(&mut self) -> DRes<Option<String>> {
        if self.eat_word("USING") {
            match self.peek() {
                Some(Tok::Word(w)) => {
                    self.i += 1;
                    Ok(Some(w.to_ascii_uppercase()))
                }
                Some(Tok::Ident(s)) => {
                    self.i += 1;
                    Ok(Some(s.clone()))
                }
                _ => self.err("index-type", "index type expected after USING"),
            }
        } else {
            Ok(None)
        }
    }

    fn fk_tail(&mut self, name: Option<String>) -> DRes<Fk> {
        // cursor after FOREIGN KEY
        if self.my() && !matches!(self.peek(), Some(Tok::LParen)) {
            // optional index name
            self.ident("index name")?;
        }
        let cols = self.paren_idents("foreign key column")?;
        let (ref_table, ref_cols, on_delete, on_update) = self.references()?;
        if self.pg() {
            if self.eat_word("DEFERRABLE") || self.eat_words(&["NOT", "DEFERRABLE"]) {}
            if self.eat_word("INITIALLY") && !(self.eat_word("DEFERRED") || self.eat_word("IMMEDIATE")) {
                return self.err("constraint-syntax", "expected DEFERRED or IMMEDIATE");
            }
        }
        Ok(Fk { name, cols, ref_table, ref_cols, on_delete, on_update })
    }

    /// table constraint; the cursor is on CONSTRAINT / PRIMARY / UNIQUE / KEY / INDEX / FULLTEXT / FOREIGN / CHECK
    fn table_constraint(&mut self) -> DRes<Elem<Ty>> {
        let mut cname: Option<String> = None;
        let mut had_constraint = false;
        if self.eat_word("CONSTRAINT") {
            had_constraint = true;
            // MySQL: the symbol is optional
            let next_is_kw = self.is_any_word(&["PRIMARY", "UNIQUE", "FOREIGN", "CHECK"]);
            if !(self.my() && next_is_kw && matches!(self.peek(), Some(Tok::Word(_)))) {
                cname = Some(self.ident("constraint name")?);
            }
        }
        if self.eat_word("FOREIGN") {
            self.expect_word("KEY")?;
            return Ok(Elem::ForeignKey(self.fk_tail(cname)?));
        }
        if self.eat_word("CHECK") {
            let e = self.expr_in_parens("CHECK")?;
            if self.my() {
                if !self.eat_words(&["NOT", "ENFORCED"]) {
                    self.eat_word("ENFORCED");
                }
            } else {
                self.eat_words(&["NO", "INHERIT"]);
            }
            return Ok(Elem::Check(e));
        }
        let kind;
        if self.eat_word("PRIMARY") {
            self.expect_word("KEY")?;
            kind = IdxKind::Primary;
        } else if self.eat_word("UNIQUE") {
            kind = IdxKind::Unique;
            if self.my() {
                let _ = self.eat_word("KEY") || self.eat_word("INDEX");
            }
        } else if self.my() && !had_constraint && (self.eat_word("KEY") || self.eat_word("INDEX")) {
            kind = IdxKind::Plain;
        } else if self.my() && !had_constraint && (self.eat_word("FULLTEXT") || self.eat_word("SPATIAL")) {
            kind = IdxKind::Fulltext;
            let _ = self.eat_word("KEY") || self.eat_word("INDEX");
        } else {
            return self.err("table-constraint", "expected PRIMARY KEY, UNIQUE, FOREIGN KEY or CHECK");
        }
        let mut idx = TblIndex { kind, constraint: cname, name: None, using: None, cols: vec![], include: vec![], nulls_not_distinct: false };
        if self.my() {
            if !matches!(self.peek(), Some(Tok::LParen)) && !self.is_word("USING") {
                idx.name = Some(self.ident("index name")?);
            }
            idx.using = self.using_clause()?;
            if kind == IdxKind::Fulltext && idx.using.is_some() {
                return self.err("index-type", "a FULLTEXT index takes no USING clause");
            }
            idx.cols = self.index_cols(true)?;
            if idx.using.is_none() {
                idx.using = self.using_clause()?;
            }
        } else {
            if self.eat_word("NULLS") {
                if kind != IdxKind::Unique {
                    return self.err("table-constraint", "NULLS [NOT] DISTINCT belongs to UNIQUE constraints");
                }
                let not = self.eat_word("NOT");
                self.expect_word("DISTINCT")?;
                idx.nulls_not_distinct = not;
            }
            idx.cols = self.index_cols(false)?;
            if self.eat_word("INCLUDE") {
                idx.include = self.paren_idents("INCLUDE column")?;
            }
            if self.is_word("WITH") && self.peek_at(1) == Some(&Tok::LParen) {
                self.i += 1;
                self.skip_balanced()?;
            }
        }
        Ok(Elem::Index(idx))
    }

    fn at_table_constraint(&self) -> bool {
        if !matches!(self.peek(), Some(Tok::Word(_))) {
            return false;
        }
        let both = ["CONSTRAINT", "PRIMARY", "UNIQUE", "FOREIGN", "CHECK"];
        let my = ["KEY", "INDEX", "FULLTEXT", "SPATIAL"];
        self.is_any_word(&both) || (self.my() && self.is_any_word(&my))
    }

    // -------------------------------------------------------------------------------- statements

    fn if_not_exists(&mut self) -> DRes<bool> {
        if self.is_word("IF") {
            if self.eat_words(&["IF", "NOT", "EXISTS"]) {
                Ok(true)
            } else {
                self.err("keyword-expected", "expected IF NOT EXISTS")
            }
        } else {
            Ok(false)
        }
    }
    fn if_exists(&mut self) -> DRes<bool> {
        if self.is_word("IF") {
            if self.eat_words(&["IF", "EXISTS"]) {
                Ok(true)
            } else {
                self.err("keyword-expected", "expected IF EXISTS")
            }
        } else {
            Ok(false)
        }
    }

    fn behavior(&mut self) -> Option<String> {
        if self.eat_word("CASCADE") {
            Some("CASCADE".into())
        } else if self.eat_word("RESTRICT") {
            Some("RESTRICT".into())
        } else {
            None
        }
    }

    fn end(&mut self) -> DRes<()> {
        if self.eof() {
            Ok(())
        } else if self.is_any_word(&["CASCADE", "RESTRICT"]) {
            self.err("clause-repeated", "a second CASCADE / RESTRICT")
        } else {
            self.err("trailing-tokens", "tokens left after the end of the statement")
        }
    }

    fn create_table(&mut self, temporary: bool) -> DRes<Stmt<Ty>> {
        let if_not_exists = self.if_not_exists()?;
        let table = self.name("table name")?;
        self.expect(&Tok::LParen, "parenthesis-expected")?;
        let mut elems = vec![];
        loop {
            if matches!(self.peek(), Some(Tok::Comma) | Some(Tok::RParen) | None) {
                return self.err("empty-element", "a table element is missing (comma or parenthesis where a column or constraint must start)");
            }
            if self.at_table_constraint() {
                elems.push(self.table_constraint()?);
            } else if self.pg() && self.is_word("LIKE") {
                return self.err("unsupported-by-oracle", "LIKE source_table");
            } else {
                elems.push(Elem::Column(self.coldef()?));
            }
            if self.eat(&Tok::Comma) {
                continue;
            }
            if self.eat(&Tok::RParen) {
                break;
            }
            if self.eof() {
                return self.err("unbalanced-parenthesis", "the element list is never closed");
            }
            return self.err("missing-separator", "expected , or ) after a table element");
        }
        let mut options = vec![];
        if self.my() {
            loop {
                if self.eof() {
                    break;
                }
                if !options.is_empty() {
                    self.eat(&Tok::Comma);
                }
                let start = self.i;
                let had_default = self.eat_word("DEFAULT");
                let key = if self.eat_words(&["CHARACTER", "SET"]) || self.eat_word("CHARSET") {
                    "CHARSET".to_string()
                } else if self.eat_word("COLLATE") {
                    "COLLATE".to_string()
                } else if had_default {
                    return self.err("table-option", "expected CHARSET or COLLATE after DEFAULT");
                } else if self.eat_word("COMMENT") {
                    self.eat(&Tok::Op("=".into()));
                    let s = self.str_lit("COMMENT")?;
                    options.push(("COMMENT".to_string(), s));
                    continue;
                } else {
                    match self.peek() {
                        Some(Tok::Word(w)) => {
                            let up = w.to_ascii_uppercase();
                            const KNOWN: [&str; 22] = [
                                "ENGINE", "AUTO_INCREMENT", "AVG_ROW_LENGTH", "CHECKSUM", "COMPRESSION", "CONNECTION", "DELAY_KEY_WRITE", "ENCRYPTION",
                                "INSERT_METHOD", "KEY_BLOCK_SIZE", "MAX_ROWS", "MIN_ROWS", "PACK_KEYS", "PASSWORD", "ROW_FORMAT", "STATS_AUTO_RECALC",
                                "STATS_PERSISTENT", "STATS_SAMPLE_PAGES", "TABLESPACE", "ENGINE_ATTRIBUTE", "SECONDARY_ENGINE_ATTRIBUTE", "AUTOEXTEND_SIZE",
                            ];
                            if !KNOWN.contains(&up.as_str()) {
                                return self.err("table-option", "this is not a table option MySQL defines");
                            }
                            self.i += 1;
                            up
                        }
                        _ => return self.err("table-option", "table option expected"),
                    }
                };
                let _ = start;
                self.eat(&Tok::Op("=".into()));
                let val = match self.peek() {
                    Some(Tok::Word(w)) => w.clone(),
                    Some(Tok::Ident(s)) => s.clone(),
                    Some(Tok::Str(s)) => s.clone(),
                    Some(Tok::Num(n)) => n.clone(),
                    _ => return self.err("table-option", format!("value of table option {key} expected")),
                };
                self.i += 1;
                options.push((key, val));
            }
        } else {
            // storage parameters / tablespace / ON COMMIT, each at most once, in the manual's order
            if self.is_word("INHERITS") && self.peek_at(1) == Some(&Tok::LParen) {
                self.i += 1;
                self.skip_balanced()?;
            }
            if self.is_word("USING") {
                self.i += 1;
                self.ident("access method")?;
            }
            if self.is_word("WITH") && self.peek_at(1) == Some(&Tok::LParen) {
                let start = self.i;
                self.i += 1;
                self.skip_balanced()?;
                options.push(("WITH".into(), lex::show(&self.t[start + 1..self.i])));
            }
            if self.eat_words(&["ON", "COMMIT"]) {
                if self.eat_word("DROP") {
                    options.push(("ON COMMIT".into(), "DROP".into()));
                } else if self.eat_words(&["PRESERVE", "ROWS"]) {
                    options.push(("ON COMMIT".into(), "PRESERVE ROWS".into()));
                } else if self.eat_words(&["DELETE", "ROWS"]) {
                    options.push(("ON COMMIT".into(), "DELETE ROWS".into()));
                } else {
                    return self.err("table-option", "expected PRESERVE ROWS, DELETE ROWS or DROP");
                }
            }
            if self.eat_word("TABLESPACE") {
                let n = self.ident("tablespace")?;
                options.push(("TABLESPACE".into(), n));
            }
            if !self.eof() && matches!(self.peek(), Some(Tok::Word(w)) if ["ENGINE", "COLLATE", "DEFAULT", "COMMENT", "CHARSET"].contains(&w.to_ascii_uppercase().as_str())) {
                return self.err("other-dialect", "MySQL table option in a Postgres statement");
            }
        }
        self.end()?;
        Ok(Stmt::CreateTable { temporary, if_not_exists, table, elems, options })
    }

    /// after an action: a comma, or the end
    fn action_separator(&mut self) -> DRes<bool> {
        if self.eat(&Tok::Comma) {
            return Ok(true);
        }
        if self.eof() {
            return Ok(false);
        }
        if self.is_word("USING") {
            return self.err("using-not-after-type", "USING is only defined directly after ALTER COLUMN .. TYPE type");
        }
        self.err("missing-separator", "expected a comma or the end of the statement after an ALTER action")
    }

    fn add_constraint_action(&mut self) -> DRes<Action<Ty>> {
        match self.table_constraint()? {
            Elem::ForeignKey(fk) => Ok(Action::AddForeignKey(fk)),
            Elem::Check(e) => Ok(Action::AddCheck(e)),
            Elem::Index(ix) => {
                if self.pg() && ix.constraint.is_none() && ix.include.is_empty() && !ix.nulls_not_distinct {
                    let cols: Vec<String> = ix.cols.iter().map(|c| c.name.clone()).collect();
                    match ix.kind {
                        IdxKind::Unique => return Ok(Action::AddUnique(cols)),
                        IdxKind::Primary => return Ok(Action::AddPrimaryKey(cols)),
                        _ => {}
                    }
                }
                Ok(Action::AddIndex(ix))
            }
            Elem::Column(_) => unreachable!(),
        }
    }

    fn alter_table(&mut self) -> DRes<Stmt<Ty>> {
        if self.pg() {
            self.if_exists()?;
            self.eat_word("ONLY");
        }
        let table = self.name("table name")?;
        let mut actions = vec![];
        // Postgres: the RENAME forms stand alone
        if self.pg() && self.is_word("RENAME") {
            self.i += 1;
            if self.eat_word("TO") {
                let to = self.name("new table name")?;
                self.end()?;
                return Ok(Stmt::RenameTable { from: table, to });
            }
            self.eat_word("COLUMN");
            let a = self.ident("column name")?;
            self.expect_word("TO")?;
            let b = self.ident("new column name")?;
            if self.peek() == Some(&Tok::Comma) {
                return self.err("rename-in-action-list", "Postgres: RENAME COLUMN cannot be combined with other ALTER TABLE actions");
            }
            self.end()?;
            return Ok(Stmt::AlterTable { table, actions: vec![Action::RenameColumn(a, b)] });
        }
        loop {
            if matches!(self.peek(), Some(Tok::Comma) | None) {
                return self.err("empty-action", "an ALTER TABLE action is missing (comma or end where an action must start)");
            }
            let act = if self.eat_word("ADD") {
                if self.at_table_constraint() {
                    self.add_constraint_action()?
                } else {
                    self.eat_word("COLUMN");
                    let ine = self.if_not_exists()?;
                    let col = self.coldef()?;
                    if self.my() {
                        if self.eat_word("FIRST") {
                        } else if self.eat_word("AFTER") {
                            self.ident("column name")?;
                        }
                    }
                    Action::AddColumn { if_not_exists: ine, col }
                }
            } else if self.my() && self.eat_word("MODIFY") {
                self.eat_word("COLUMN");
                let col = self.coldef()?;
                if self.eat_word("FIRST") {
                } else if self.eat_word("AFTER") {
                    self.ident("column name")?;
                }
                Action::ModifyColumn(col)
            } else if self.eat_word("RENAME") {
                if self.pg() {
                    return self.err("rename-in-action-list", "Postgres: RENAME cannot be combined with other ALTER TABLE actions");
                }
                self.expect_word("COLUMN")?;
                let a = self.ident("column name")?;
                self.expect_word("TO")?;
                let b = self.ident("new column name")?;
                Action::RenameColumn(a, b)
            } else if self.eat_word("DROP") {
                if self.eat_words(&["FOREIGN", "KEY"]) {
                    if self.pg() {
                        return self.err("other-dialect", "DROP FOREIGN KEY is MySQL syntax");
                    }
                    Action::DropForeignKey(self.ident("foreign key name")?)
                } else if self.eat_word("CONSTRAINT") {
                    if self.pg() {
                        self.if_exists()?;
                    }
                    let n = self.ident("constraint name")?;
                    if self.pg() {
                        self.behavior();
                    }
                    Action::DropConstraint(n)
                } else {
                    self.eat_word("COLUMN");
                    if self.pg() {
                        self.if_exists()?;
                    }
                    let c = self.ident("column name")?;
                    if self.pg() {
                        self.behavior();
                    }
                    Action::DropColumn(c)
                }
            } else if self.pg() && self.eat_word("ALTER") {
                self.eat_word("COLUMN");
                let col = self.ident("column name")?;
                if self.eat_words(&["SET", "DATA", "TYPE"]) || self.eat_word("TYPE") {
                    let ty = self.column_type()?;
                    if self.eat_word("COLLATE") {
                        self.name("collation")?;
                    }
                    let using = if self.eat_word("USING") { Some(self.expr_to_comma("USING", &[])?) } else { None };
                    Action::AlterType { col, ty, using }
                } else if self.eat_words(&["SET", "NOT", "NULL"]) {
                    Action::SetNotNull(col)
                } else if self.eat_words(&["DROP", "NOT", "NULL"]) {
                    Action::DropNotNull(col)
                } else if self.eat_words(&["SET", "DEFAULT"]) {
                    let e = self.expr_here("SET DEFAULT")?;
                    Action::SetDefault(col, e)
                } else if self.eat_words(&["DROP", "DEFAULT"]) {
                    Action::DropDefault(col)
                } else {
                    return self.err("alter-column", "expected TYPE, SET DEFAULT, DROP DEFAULT, SET NOT NULL or DROP NOT NULL");
                }
            } else if self.is_word("CHECK") {
                return self.err("check-without-add", "a CHECK constraint is added with ADD [CONSTRAINT name] CHECK (..); a bare CHECK is not an ALTER TABLE action");
            } else if self.is_word("USING") {
                return self.err("using-not-after-type", "USING is only defined directly after ALTER COLUMN .. TYPE type");
            } else if self.my() && self.is_word("ALTER") {
                return self.err("other-dialect", "ALTER COLUMN .. TYPE is Postgres syntax");
            } else if self.pg() && self.is_word("MODIFY") {
                return self.err("other-dialect", "MODIFY COLUMN is MySQL syntax");
            } else {
                return self.err("alter-action", "this token cannot start an ALTER TABLE action");
            };
            actions.push(act);
            if !self.action_separator()? {
                break;
            }
        }
        Ok(Stmt::AlterTable { table, actions })
    }

    fn create_index(&mut self, unique: bool, fulltext: bool) -> DRes<Stmt<Ty>> {
        // cursor after INDEX
        let mut if_not_exists = false;
        let mut name = None;
        if self.pg() {
            self.eat_word("CONCURRENTLY");
            if_not_exists = self.if_not_exists()?;
            if !self.is_word("ON") {
                let n = self.ident("index name")?;
                name = Some(n);
            } else if if_not_exists {
                return self.err("index-name-missing", "IF NOT EXISTS requires an index name");
            }
        } else {
            if self.is_word("IF") {
                return self.err("other-dialect", "MySQL has no IF NOT EXISTS for CREATE INDEX");
            }
            if self.is_word("ON") {
                return self.err("index-name-missing", "MySQL requires an index name");
            }
            name = Some(self.ident("index name")?);
        }
        let mut using = None;
        if self.my() {
            using = self.using_clause()?;
        }
        self.expect_word("ON")?;
        if self.pg() {
            self.eat_word("ONLY");
        }
        let table = self.name("table name")?;
        if self.pg() {
            using = self.using_clause()?;
        }
        let cols = self.index_cols(self.my())?;
        let mut include = vec![];
        let mut nnd = false;
        let mut predicate = None;
        if self.my() {
            if using.is_none() {
                using = self.using_clause()?;
            } else if self.is_word("USING") {
                return self.err("clause-repeated", "USING written twice");
            }
            if self.is_any_word(&["INCLUDE", "WHERE", "NULLS"]) {
                return self.err("other-dialect", "INCLUDE / NULLS NOT DISTINCT / WHERE are Postgres index clauses");
            }
        } else {
            if self.eat_word("INCLUDE") {
                include = self.paren_idents("INCLUDE column")?;
            }
            if self.eat_word("NULLS") {
                let not = self.eat_word("NOT");
                self.expect_word("DISTINCT")?;
                nnd = not;
            }
            if self.is_word("WITH") && self.peek_at(1) == Some(&Tok::LParen) {
                self.i += 1;
                self.skip_balanced()?;
            }
            if self.eat_word("TABLESPACE") {
                self.ident("tablespace")?;
            }
            if self.eat_word("WHERE") {
                if self.eof() {
                    return self.err("expression-missing", "WHERE without a predicate");
                }
                let inner = &self.t[self.i..];
                let e = self.map_perr(parse_full_expr(self.d, inner), self.i, "WHERE")?;
                self.i = self.t.len();
                predicate = Some(e);
            }
            if self.is_any_word(&["INCLUDE", "NULLS", "USING"]) {
                return self.err("clause-order", "index clause out of order");
            }
        }
        self.end()?;
        Ok(Stmt::CreateIndex { unique, fulltext, if_not_exists, name, table, using, cols, include, nulls_not_distinct: nnd, predicate })
    }

    fn statement(&mut self) -> DRes<Stmt<Ty>> {
        if self.eat_word("CREATE") {
            if self.eat_word("TEMPORARY") || self.eat_word("TEMP") {
                self.expect_word("TABLE")?;
                return self.create_table(true);
            }
            if self.eat_word("TABLE") {
                return self.create_table(false);
            }
            if self.eat_word("UNIQUE") {
                if self.is_any_word(&["FULLTEXT", "SPATIAL"]) {
                    return self.err("index-prefix", "UNIQUE and FULLTEXT exclude each other");
                }
                self.expect_word("INDEX")?;
                return self.create_index(true, false);
            }
            if self.my() && (self.eat_word("FULLTEXT") || self.eat_word("SPATIAL")) {
                self.expect_word("INDEX")?;
                return self.create_index(false, true);
            }
            if self.eat_word("INDEX") {
                return self.create_index(false, false);
            }
            if self.pg() && self.eat_word("TYPE") {
                let name = self.name("type name")?;
                self.expect_word("AS")?;
                self.expect_word("ENUM")?;
                if self.peek() != Some(&Tok::LParen) {
                    return self.err("enum-without-label-list", "CREATE TYPE .. AS ENUM requires a parenthesised (possibly empty) label list");
                }
                self.i += 1;
                let mut labels = vec![];
                if !self.eat(&Tok::RParen) {
                    loop {
                        labels.push(self.str_lit("enum label")?);
                        if !self.eat(&Tok::Comma) {
                            break;
                        }
                    }
                    self.close_paren()?;
                }
                self.end()?;
                return Ok(Stmt::CreateType { name, labels });
            }
            if self.pg() && self.eat_word("EXTENSION") {
                let if_not_exists = self.if_not_exists()?;
                let name = self.ident("extension name")?;
                self.eat_word("WITH");
                let mut schema = None;
                let mut version = None;
                let mut cascade = false;
                if self.eat_word("SCHEMA") {
                    schema = Some(self.ident("schema name")?);
                }
                if self.eat_word("VERSION") {
                    version = Some(match self.peek() {
                        Some(Tok::Str(s)) => {
                            self.i += 1;
                            format!("'{s}'")
                        }
                        Some(Tok::Word(_)) | Some(Tok::Ident(_)) => self.ident("version")?,
                        _ => return self.err("extension-version", "the version is an identifier or a string literal"),
                    });
                }
                if self.eat_word("CASCADE") {
                    cascade = true;
                }
                if self.is_any_word(&["SCHEMA", "VERSION"]) {
                    return self.err("clause-order", "extension clause out of order or repeated");
                }
                self.end()?;
                return Ok(Stmt::CreateExtension { if_not_exists, name, schema, version, cascade });
            }
            return self.err("statement", "unknown CREATE statement");
        }
        if self.eat_word("ALTER") {
            if self.eat_word("TABLE") {
                return self.alter_table();
            }
            if self.pg() && self.eat_word("TYPE") {
                let name = self.name("type name")?;
                let action = if self.eat_words(&["ADD", "VALUE"]) {
                    let if_not_exists = self.if_not_exists()?;
                    let value = self.str_lit("enum label")?;
                    let mut before = None;
                    let mut after = None;
                    if self.eat_word("BEFORE") {
                        before = Some(self.str_lit("enum label")?);
                    } else if self.eat_word("AFTER") {
                        after = Some(self.str_lit("enum label")?);
                    }
                    if self.is_any_word(&["BEFORE", "AFTER"]) {
                        return self.err("clause-repeated", "only one of BEFORE / AFTER");
                    }
                    TypeAction::AddValue { if_not_exists, value, before, after }
                } else if self.eat_words(&["RENAME", "TO"]) {
                    TypeAction::RenameTo(self.ident("new type name")?)
                } else if self.eat_words(&["RENAME", "VALUE"]) {
                    let a = self.str_lit("enum label")?;
                    self.expect_word("TO")?;
                    let b = self.str_lit("enum label")?;
                    TypeAction::RenameValue(a, b)
                } else {
                    return self.err("alter-type-action", "expected ADD VALUE, RENAME TO or RENAME VALUE");
                };
                self.end()?;
                return Ok(Stmt::AlterType { name, action });
            }
            return self.err("statement", "unknown ALTER statement");
        }
        if self.eat_word("DROP") {
            if self.eat_word("TEMPORARY") {
                self.expect_word("TABLE")?;
            } else if !self.is_word("TABLE") {
                if self.eat_word("INDEX") {
                    if self.pg() {
                        self.eat_word("CONCURRENTLY");
                        let if_exists = self.if_exists()?;
                        let name = self.name("index name")?;
                        if self.peek() == Some(&Tok::Comma) {
                            return self.err("unsupported-by-oracle", "several indexes in one DROP INDEX");
                        }
                        if self.is_word("ON") {
                            return self.err("other-dialect", "DROP INDEX .. ON table is MySQL syntax");
                        }
                        self.behavior();
                        self.end()?;
                        return Ok(Stmt::DropIndex { if_exists, name, table: None });
                    }
                    if self.is_word("IF") {
                        return self.err("other-dialect", "MySQL has no IF EXISTS for DROP INDEX");
                    }
                    let name = vec![self.ident("index name")?];
                    self.expect_word("ON")?;
                    let table = self.name("table name")?;
                    self.end()?;
                    return Ok(Stmt::DropIndex { if_exists: false, name, table: Some(table) });
                }
                if self.pg() && self.eat_word("TYPE") {
                    let if_exists = self.if_exists()?;
                    let mut names = vec![];
                    loop {
                        names.push(self.name("type name")?);
                        if !self.eat(&Tok::Comma) {
                            break;
                        }
                    }
                    let behavior = self.behavior();
                    self.end()?;
                    return Ok(Stmt::DropType { if_exists, names, behavior });
                }
                if self.pg() && self.eat_word("EXTENSION") {
                    let if_exists = self.if_exists()?;
                    let mut names = vec![];
                    loop {
                        names.push(self.ident("extension name")?);
                        if !self.eat(&Tok::Comma) {
                            break;
                        }
                    }
                    let behavior = self.behavior();
                    self.end()?;
                    return Ok(Stmt::DropExtension { if_exists, names, behavior });
                }
                return self.err("statement", "unknown DROP statement");
            } else {
                self.i += 1;
            }
            let if_exists = self.if_exists()?;
            let mut tables = vec![];
            loop {
                tables.push(self.name("table name")?);
                if !self.eat(&Tok::Comma) {
                    break;
                }
            }
            if matches!(self.peek(), Some(Tok::Ident(_))) {
                return self.err("missing-separator", "expected a comma between table names");
            }
            let behavior = self.behavior();
            self.end()?;
            return Ok(Stmt::DropTable { if_exists, tables, behavior });
        }
        if self.eat_word("TRUNCATE") {
            self.eat_word("TABLE");
            if self.pg() {
                self.eat_word("ONLY");
            }
            let table = self.name("table name")?;
            if self.pg() {
                if self.eat_words(&["RESTART", "IDENTITY"]) || self.eat_words(&["CONTINUE", "IDENTITY"]) {}
                self.behavior();
            }
            self.end()?;
            return Ok(Stmt::Truncate { table });
        }
        if self.my() && self.eat_word("RENAME") {
            self.expect_word("TABLE")?;
            let from = self.name("table name")?;
            self.expect_word("TO")?;
            let to = self.name("new table name")?;
            if self.peek() == Some(&Tok::Comma) {
                return self.err("unsupported-by-oracle", "several renames in one RENAME TABLE");
            }
            self.end()?;
            return Ok(Stmt::RenameTable { from, to });
        }
        self.err("statement", "not a schema statement of this dialect")
    }
}

/// Parse one schema statement; every token must be consumed.
pub fn parse_stmt(d: Dialect, sql: &str) -> DRes<Stmt<Ty>> {
    let toks = match lex::lex(d, sql) {
        Ok(t) => t,
        Err(e) => return Err(DErr { class: "lexical".into(), msg: format!("lexical error at byte {}: {}", e.pos, e.msg), at: 0, undecided: false }),
    };
    if let Some(c) = toks.iter().find(|t| matches!(t.tok, Tok::Comment(_))) {
        return Err(DErr { class: "comment".into(), msg: format!("comment in statement: {}", c.tok.show()), at: 0, undecided: false });
    }
    let mut toks = toks;
    if matches!(toks.last().map(|t| &t.tok), Some(Tok::Semi)) {
        toks.pop();
    }
    // parentheses must balance over the whole statement
    let mut depth = 0i64;
    for (k, t) in toks.iter().enumerate() {
        match t.tok {
            Tok::LParen => depth += 1,
            Tok::RParen => {
                depth -= 1;
                if depth < 0 {
                    return Err(DErr { class: "unbalanced-parenthesis".into(), msg: format!("closing parenthesis without an opening one (token {k})"), at: k, undecided: false });
                }
            }
            _ => {}
        }
    }
    if depth != 0 {
        return Err(DErr { class: "unbalanced-parenthesis".into(), msg: format!("{depth} parenthesis(es) never closed"), at: toks.len(), undecided: false });
    }
    let mut p = D::new(d, &toks);
    let s = p.statement()?;
    Ok(s)
}

#[allow(dead_code)]
pub fn ref_action_words() -> &'static [&'static str] {
    &REF_ACTION_START
}
