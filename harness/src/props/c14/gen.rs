//! Generators: proptest strategies (dialect-aware by construction, normalised into the domain) and the
//! bounded-exhaustive enumerations (types x dialect x position, ordered specification pairs / triples, ALTER option pairs).

use super::spec::*;
use super::Case;
use crate::expr_spec::{Op, E};
use crate::runner::pick_idx;
use crate::util::Dialect;
use proptest::prelude::*;

// ----------------------------------------------------------------------------------- small pieces

fn cmp() -> impl Strategy<Value = E> {
    (0u8..4, any::<u16>(), -3i64..40).prop_map(|(c, o, k)| E::Bin(Box::new(E::Col(c)), CMP_OPS[pick_idx(o, 6)], Box::new(E::Int(k))))
}

/// boolean expression for CHECK / partial-index predicates
pub fn bool_expr() -> impl Strategy<Value = E> {
    prop_oneof![
        4 => cmp(),
        2 => (cmp(), any::<bool>(), cmp()).prop_map(|(l, and, r)| E::Bin(Box::new(l), if and { Op::And } else { Op::Or }, Box::new(r))),
        1 => (0u8..4, 0u8..4, 1i64..9).prop_map(|(a, b, k)| E::Bin(Box::new(E::Bin(Box::new(E::Col(a)), Op::Add, Box::new(E::Col(b)))), Op::Gt, Box::new(E::Int(k)))),
        1 => (0u8..4).prop_map(|c| E::Bin(Box::new(E::Col(c)), Op::IsNot, Box::new(E::Null))),
        // expressions whose text starts with `(` and ends with `)` without those two matching each other
        1 => (cmp(), cmp(), cmp(), cmp()).prop_map(|(a, b, c, d)| {
            E::Bin(Box::new(E::Bin(Box::new(a), Op::Or, Box::new(b))), Op::And, Box::new(E::Bin(Box::new(c), Op::Or, Box::new(d))))
        }),
        1 => (0u8..4, 0u8..4, proptest::collection::vec((0i64..9, 0i64..9), 1..3)).prop_map(|(a, b, rows)| E::InTuples(vec![E::Col(a), E::Col(b)], rows)),
    ]
}

/// value expression for GENERATED / USING
pub fn value_expr() -> impl Strategy<Value = E> {
    prop_oneof![
        3 => (0u8..4, any::<bool>(), 1i64..9).prop_map(|(c, add, k)| E::Bin(Box::new(E::Col(c)), if add { Op::Add } else { Op::Mul }, Box::new(E::Int(k)))),
        1 => (0u8..4).prop_map(|c| E::Cast(Box::new(E::Col(c)), "integer".into())),
        1 => (0u8..4, 0u8..4).prop_map(|(a, b)| E::Bin(Box::new(E::Col(a)), Op::Sub, Box::new(E::Col(b)))),
    ]
}

pub fn text() -> impl Strategy<Value = String> {
    proptest::sample::select(vec!["a", "note", "it's", "x,y", "p)q(", "semi;colon", "back\\slash", "two words", "ünï"]).prop_map(|s| s.to_string())
}

fn label() -> impl Strategy<Value = String> {
    proptest::sample::select(vec!["a", "b", "serif", "it's", "x,y", "Sans Serif", "m)n"]).prop_map(|s| s.to_string())
}

fn ident_name() -> impl Strategy<Value = String> {
    proptest::sample::select(vec!["idx_a", "fk-1", "pk", "uq name", "i\"q", "k`q", "ck_old"]).prop_map(|s| s.to_string())
}

pub fn lit() -> impl Strategy<Value = Lit> {
    prop_oneof![
        3 => (-50i64..1000).prop_map(Lit::Int),
        1 => (0u16..90).prop_map(Lit::Half),
        2 => text().prop_map(Lit::Str),
        1 => any::<bool>().prop_map(Lit::Bool),
        1 => Just(Lit::Null),
        1 => Just(Lit::CurrentTimestamp),
    ]
}

fn slen() -> impl Strategy<Value = SLen> {
    prop_oneof![3 => (1u32..300).prop_map(SLen::N), 1 => Just(SLen::Max), 1 => Just(SLen::None)]
}

fn prec() -> impl Strategy<Value = Option<(u32, u32)>> {
    proptest::option::weighted(0.7, (1u32..38).prop_flat_map(|p| (Just(p), 0..=p.min(12))))
}

fn scalar_type() -> impl Strategy<Value = TyS> {
    prop_oneof![
        proptest::option::of(1u32..200).prop_map(TyS::Char),
        slen().prop_map(TyS::String),
        Just(TyS::Text),
        Just(TyS::Blob),
        Just(TyS::TinyInteger),
        Just(TyS::SmallInteger),
        Just(TyS::Integer),
        Just(TyS::BigInteger),
        Just(TyS::TinyUnsigned),
        Just(TyS::SmallUnsigned),
        Just(TyS::Unsigned),
        Just(TyS::BigUnsigned),
        Just(TyS::Float),
        Just(TyS::Double),
        prec().prop_map(TyS::Decimal),
        Just(TyS::DateTime),
        Just(TyS::Timestamp),
        Just(TyS::TimestampWithTimeZone),
        Just(TyS::Time),
        Just(TyS::Date),
        Just(TyS::Year),
        (proptest::option::of(0u8..13), proptest::option::of(0u32..7)).prop_map(|(f, p)| TyS::Interval(f, p)),
        (1u32..256).prop_map(TyS::Binary),
        slen().prop_map(TyS::VarBinary),
        proptest::option::of(1u32..65).prop_map(TyS::Bit),
        (1u32..65).prop_map(TyS::VarBit),
        Just(TyS::Boolean),
        prec().prop_map(TyS::Money),
        Just(TyS::Json),
        Just(TyS::JsonBinary),
        Just(TyS::Uuid),
        (0u8..3).prop_map(TyS::Custom),
        (0u8..2, proptest::collection::vec(label(), 1..4)).prop_map(|(name, variants)| TyS::Enum { name, variants }),
        proptest::option::of(1u32..2000).prop_map(TyS::Vector),
        Just(TyS::Cidr),
        Just(TyS::Inet),
        Just(TyS::MacAddr),
        Just(TyS::LTree),
    ]
}

pub fn any_type() -> impl Strategy<Value = TyS> {
    prop_oneof![
        12 => scalar_type(),
        1 => scalar_type().prop_map(|t| TyS::Array(Box::new(t))),
        1 => scalar_type().prop_map(|t| TyS::Array(Box::new(TyS::Array(Box::new(t))))),
    ]
}

/// map any type into the dialect's domain (documented panics, interval form)
fn fix_type(d: Dialect, t: TyS) -> TyS {
    match (d, t) {
        (Dialect::Mysql, TyS::Array(e)) => fix_type(d, *e),
        (Dialect::Mysql, TyS::Vector(_)) => TyS::Blob,
        (Dialect::Mysql, TyS::Cidr | TyS::Inet | TyS::MacAddr | TyS::LTree) => TyS::String(SLen::N(64)),
        (Dialect::Postgres, TyS::Year) => TyS::SmallInteger,
        (Dialect::Postgres, TyS::Array(e)) => TyS::Array(Box::new(fix_type(d, *e))),
        (Dialect::Postgres, TyS::Interval(Some(f), Some(p))) => {
            if INTERVAL_FIELDS[f as usize % 13].ends_with("SECOND") {
                TyS::Interval(Some(f), Some(p))
            } else {
                TyS::Interval(Some(f), None)
            }
        }
        (_, t) => t,
    }
}

fn spec_item() -> impl Strategy<Value = SpecS> {
    prop_oneof![
        2 => Just(SpecS::Null),
        4 => Just(SpecS::NotNull),
        4 => lit().prop_map(SpecS::Default),
        2 => Just(SpecS::AutoIncrement),
        2 => Just(SpecS::Unique),
        2 => Just(SpecS::PrimaryKey),
        2 => bool_expr().prop_map(SpecS::Check),
        1 => (value_expr(), any::<bool>()).prop_map(|(e, s)| SpecS::Generated(e, s)),
        1 => (0u8..4).prop_map(SpecS::Extra),
        2 => text().prop_map(SpecS::Comment),
        1 => value_expr().prop_map(SpecS::Using),
    ]
}

/// normalise a column into the domain of (dialect, position)
pub fn fix_col(d: Dialect, ctx: ColCtx, mut c: ColS) -> ColS {
    let pg_modify = d == Dialect::Postgres && ctx == ColCtx::Modify;
    c.ty = match c.ty {
        Some(t) => Some(fix_type(d, t)),
        None if pg_modify => None,
        None => Some(TyS::Integer),
    };
    let mut seen: Vec<&'static str> = vec![];
    let has_ty = c.ty.is_some();
    c.specs.retain(|s| {
        if seen.contains(&s.kind()) {
            return false;
        }
        if matches!(s, SpecS::Using(_)) && !(pg_modify && has_ty) {
            return false;
        }
        seen.push(s.kind());
        true
    });
    if d == Dialect::Postgres && !pg_modify && c.specs.iter().any(|s| matches!(s, SpecS::AutoIncrement)) {
        if !matches!(c.ty, Some(TyS::SmallInteger | TyS::Integer | TyS::BigInteger)) {
            c.ty = Some(TyS::BigInteger);
        }
    }
    if pg_modify && c.ty.is_none() && !c.specs.iter().any(|s| !s.pg_modify_omitted() && !matches!(s, SpecS::Using(_))) {
        c.specs.push(SpecS::NotNull);
    }
    c
}

pub fn column(d: Dialect, ctx: ColCtx) -> impl Strategy<Value = ColS> {
    let ty = if d == Dialect::Postgres && ctx == ColCtx::Modify { proptest::option::weighted(0.7, any_type()).boxed() } else { any_type().prop_map(Some).boxed() };
    let pg_modify = d == Dialect::Postgres && ctx == ColCtx::Modify;
    (0u8..8, ty, proptest::collection::vec(spec_item(), 0..5), proptest::bool::weighted(0.2)).prop_map(move |(name, ty, mut specs, risky)| {
        if pg_modify && !risky {
            // four fifths of the Postgres modify_column cases stay clear of the specification kinds whose rendering is a
            // recorded finding (omitted kinds, CHECK, USING away from the type), so that those findings mask little
            specs.retain(|s| !s.pg_modify_omitted() && !matches!(s, SpecS::Check(_)));
            if let Some(i) = specs.iter().position(|s| matches!(s, SpecS::Using(_))) {
                let u = specs.remove(i);
                specs.insert(0, u);
            }
        }
        fix_col(d, ctx, ColS { name, ty, specs })
    })
}

fn tname(d: Dialect, allow_schema: bool) -> impl Strategy<Value = TName> {
    let schema = if allow_schema { proptest::option::weighted(0.25, 0u8..2).boxed() } else { Just(None).boxed() };
    let _ = d;
    (schema, 0u8..6).prop_map(|(schema, name)| TName { schema, name })
}

fn act() -> impl Strategy<Value = Act> {
    proptest::sample::select(vec![Act::Restrict, Act::Cascade, Act::SetNull, Act::NoAction, Act::SetDefault])
}

pub fn fk(d: Dialect) -> impl Strategy<Value = FkS> {
    let sch = d == Dialect::Postgres;
    (
        proptest::option::weighted(0.8, ident_name()),
        tname(d, sch),
        proptest::collection::vec((0u8..8, 0u8..8), 1..4),
        tname(d, sch),
        proptest::option::weighted(0.7, act()),
        proptest::option::weighted(0.7, act()),
        any::<bool>(),
    )
        .prop_map(|(name, from_tbl, pairs, ref_tbl, on_delete, on_update, via_pairs)| FkS {
            name,
            from_tbl,
            cols: pairs.iter().map(|p| p.0).collect(),
            ref_tbl,
            ref_cols: pairs.iter().map(|p| p.1).collect(),
            on_delete,
            on_update,
            via_pairs,
        })
}

fn icol() -> impl Strategy<Value = ICol> {
    (0u8..8, proptest::option::weighted(0.3, 1u32..200), proptest::option::weighted(0.4, any::<bool>())).prop_map(|(name, prefix, desc)| ICol { name, prefix, desc })
}

fn raw_index() -> impl Strategy<Value = IndexS> {
    (
        proptest::sample::select(vec![IKind::Primary, IKind::Unique, IKind::Unique, IKind::Plain, IKind::Plain, IKind::Fulltext]),
        proptest::option::weighted(0.8, ident_name()),
        proptest::collection::vec(icol(), 1..4),
        proptest::option::weighted(0.4, prop_oneof![Just(IType::BTree), Just(IType::Hash), (0u8..2).prop_map(IType::Custom)]),
        proptest::bool::weighted(0.3),
        proptest::collection::vec(0u8..8, 0..3),
        any::<bool>(),
    )
        .prop_map(|(kind, name, cols, index_type, nulls_not_distinct, include, via_primary_key)| IndexS { kind, name, cols, index_type, nulls_not_distinct, include, via_primary_key })
}

pub fn fix_index(d: Dialect, table_level: bool, mut ix: IndexS) -> IndexS {
    if !table_level && ix.kind == IKind::Primary {
        ix.kind = IKind::Unique;
    }
    if d == Dialect::Mysql {
        ix.nulls_not_distinct = false;
        ix.include.clear();
        if !table_level && ix.name.is_none() {
            ix.name = Some("idx_a".into());
        }
        if ix.kind == IKind::Fulltext {
            for c in &mut ix.cols {
                c.prefix = None;
                c.desc = None;
            }
        }
    } else {
        for c in &mut ix.cols {
            c.prefix = None;
            if table_level {
                c.desc = None;
            }
        }
        if table_level {
            if matches!(ix.kind, IKind::Plain | IKind::Fulltext) {
                ix.kind = IKind::Unique;
            }
            ix.index_type = None;
        }
        if ix.kind != IKind::Unique {
            ix.nulls_not_distinct = false;
        }
    }
    ix.via_primary_key = ix.via_primary_key && table_level && ix.kind == IKind::Primary;
    ix
}

fn table_index(d: Dialect) -> impl Strategy<Value = IndexS> {
    raw_index().prop_map(move |ix| fix_index(d, true, ix))
}

fn topts() -> impl Strategy<Value = Vec<TOpt>> {
    (proptest::option::weighted(0.5, 0u8..2), proptest::option::weighted(0.4, 0u8..2), proptest::option::weighted(0.4, 0u8..2), 0u8..6).prop_map(|(e, c, s, order)| {
        let mut v = vec![];
        if let Some(e) = e {
            v.push(TOpt::Engine(e));
        }
        if let Some(c) = c {
            v.push(TOpt::Collate(c));
        }
        if let Some(s) = s {
            v.push(TOpt::Charset(s));
        }
        // a deterministic permutation
        let n = v.len();
        if n > 1 {
            v.rotate_left(order as usize % n);
            if order >= 3 && n > 2 {
                v.swap(1, 2);
            }
        }
        v
    })
}

pub fn create_table(d: Dialect, max_cols: usize) -> impl Strategy<Value = StmtS> {
    let my = d == Dialect::Mysql;
    (
        (tname(d, true), proptest::bool::weighted(0.2), proptest::bool::weighted(0.3)),
        proptest::collection::vec(column(d, ColCtx::Create), 1..=max_cols),
        proptest::collection::vec(table_index(d), 0..3),
        proptest::collection::vec(fk(d), 0..3),
        proptest::collection::vec(bool_expr(), 0..3),
        (proptest::option::weighted(0.3, text()), topts(), proptest::option::weighted(0.15, 0u8..2)),
    )
        .prop_map(move |((table, temporary, if_not_exists), cols, indexes, fks, checks, (comment, options, extra))| {
            StmtS::CreateTable(TableS {
                table,
                temporary,
                if_not_exists,
                cols,
                indexes,
                fks,
                checks,
                comment: if my { comment } else { None },
                options: if my { options } else { vec![] },
                extra,
            })
        })
}

fn alter_opt(d: Dialect) -> impl Strategy<Value = AltS> {
    prop_oneof![
        3 => (any::<bool>(), column(d, ColCtx::Add)).prop_map(|(if_not_exists, col)| AltS::AddColumn { if_not_exists, col }),
        4 => column(d, ColCtx::Modify).prop_map(AltS::Modify),
        1 => (0u8..8, 0u8..8).prop_map(|(a, b)| AltS::Rename(a, b)),
        2 => (0u8..8).prop_map(AltS::DropColumn),
        2 => fk(d).prop_map(AltS::AddFk),
        2 => ident_name().prop_map(AltS::DropFk),
    ]
}

pub fn alter_table(d: Dialect) -> impl Strategy<Value = StmtS> {
    (tname(d, true), proptest::collection::vec(alter_opt(d), 1..5)).prop_map(move |(table, mut opts)| {
        if d == Dialect::Postgres && opts.len() > 1 {
            // Postgres: RENAME COLUMN stands alone
            opts.retain(|o| !matches!(o, AltS::Rename(..)));
            if opts.is_empty() {
                opts.push(AltS::DropColumn(1));
            }
        }
        StmtS::AlterTable { table, opts }
    })
}

fn create_index(d: Dialect) -> impl Strategy<Value = StmtS> {
    let my = d == Dialect::Mysql;
    (raw_index(), tname(d, !my), proptest::bool::weighted(0.3), proptest::collection::vec(bool_expr(), 0..3)).prop_map(move |(ix, table, ine, predicate)| {
        let mut index = fix_index(d, false, ix);
        if !my && ine && index.name.is_none() {
            index.name = Some("idx_a".into());
        }
        StmtS::CreateIndex { index, table, if_not_exists: !my && ine, predicate: if my { vec![] } else { predicate } }
    })
}

fn type_name() -> impl Strategy<Value = TypeName> {
    (proptest::option::weighted(0.3, 0u8..2), 0u8..2).prop_map(|(schema, name)| TypeName { schema, name })
}

fn behavior() -> impl Strategy<Value = Option<bool>> {
    proptest::option::weighted(0.5, any::<bool>())
}

fn small_stmt(d: Dialect) -> BoxedStrategy<StmtS> {
    let my = d == Dialect::Mysql;
    let mut v: Vec<(u32, BoxedStrategy<StmtS>)> = vec![
        (2, (tname(d, true), tname(d, true)).prop_map(|(from, to)| StmtS::RenameTable { from, to }).boxed()),
        (3, (proptest::collection::vec(tname(d, true), 1..4), any::<bool>(), behavior()).prop_map(|(tables, if_exists, behavior)| StmtS::DropTable { tables, if_exists, behavior }).boxed()),
        (1, tname(d, true).prop_map(|table| StmtS::Truncate { table }).boxed()),
        (6, create_index(d).boxed()),
        (
            2,
            (ident_name(), proptest::option::weighted(0.7, tname(d, !my)), any::<bool>())
                .prop_map(move |(name, table, if_exists)| StmtS::DropIndex {
                    name,
                    table: if my { Some(table.unwrap_or(TName { schema: None, name: 0 })) } else { table },
                    if_exists: !my && if_exists,
                })
                .boxed(),
        ),
        (4, fk(d).prop_map(StmtS::CreateFk).boxed()),
        (1, (ident_name(), tname(d, !my)).prop_map(|(name, table)| StmtS::DropFk { name, table }).boxed()),
    ];
    if !my {
        v.push((3, (type_name(), prop_oneof![9 => proptest::collection::vec(label(), 1..5), 1 => Just(vec![])]).prop_map(|(name, values)| StmtS::CreateType { name, values }).boxed()));
        v.push((
            3,
            (
                type_name(),
                prop_oneof![
                    4 => (label(), any::<bool>(), proptest::option::weighted(0.4, label()), proptest::option::weighted(0.3, label()))
                        .prop_map(|(value, if_not_exists, before, after)| TypeAltS::Add { value, if_not_exists, before, after }),
                    1 => proptest::sample::select(vec!["typeface", "new name"]).prop_map(|s| TypeAltS::RenameTo(s.to_string())),
                    2 => (label(), label()).prop_map(|(a, b)| TypeAltS::RenameValue(a, b)),
                ],
            )
                .prop_map(|(name, action)| StmtS::AlterType { name, action })
                .boxed(),
        ));
        v.push((2, (proptest::collection::vec(type_name(), 1..4), any::<bool>(), behavior()).prop_map(|(names, if_exists, behavior)| StmtS::DropType { names, if_exists, behavior }).boxed()));
        v.push((
            2,
            (0u8..3, proptest::option::of(0u8..2), proptest::option::of(0u8..3), any::<bool>(), any::<bool>())
                .prop_map(|(name, schema, version, cascade, if_not_exists)| StmtS::CreateExtension { name, schema, version, cascade, if_not_exists })
                .boxed(),
        ));
        v.push((1, (0u8..3, any::<bool>(), behavior()).prop_map(|(name, if_exists, behavior)| StmtS::DropExtension { name, if_exists, behavior }).boxed()));
    }
    proptest::strategy::Union::new_weighted(v).boxed()
}

fn dialect() -> impl Strategy<Value = Dialect> {
    prop_oneof![Just(Dialect::Mysql), Just(Dialect::Postgres)]
}

pub fn create_table_case(max_cols: usize) -> impl Strategy<Value = Case> {
    dialect().prop_flat_map(move |d| create_table(d, max_cols).prop_map(move |stmt| Case { dialect: d, stmt }))
}
pub fn alter_table_case() -> impl Strategy<Value = Case> {
    dialect().prop_flat_map(|d| alter_table(d).prop_map(move |stmt| Case { dialect: d, stmt }))
}
pub fn other_case() -> impl Strategy<Value = Case> {
    dialect().prop_flat_map(|d| small_stmt(d).prop_map(move |stmt| Case { dialect: d, stmt }))
}

// -------------------------------------------------------------------------- exhaustive enumerations

/// every ColumnType variant with its parameter forms
pub fn all_types() -> Vec<TyS> {
    let mut v = vec![
        TyS::Char(None),
        TyS::Char(Some(1)),
        TyS::Char(Some(36)),
        TyS::String(SLen::None),
        TyS::String(SLen::Max),
        TyS::String(SLen::N(1)),
        TyS::String(SLen::N(255)),
        TyS::Text,
        TyS::Blob,
        TyS::TinyInteger,
        TyS::SmallInteger,
        TyS::Integer,
        TyS::BigInteger,
        TyS::TinyUnsigned,
        TyS::SmallUnsigned,
        TyS::Unsigned,
        TyS::BigUnsigned,
        TyS::Float,
        TyS::Double,
        TyS::Decimal(None),
        TyS::Decimal(Some((10, 2))),
        TyS::Decimal(Some((7, 7))),
        TyS::Decimal(Some((38, 0))),
        TyS::DateTime,
        TyS::Timestamp,
        TyS::TimestampWithTimeZone,
        TyS::Time,
        TyS::Date,
        TyS::Year,
        TyS::Interval(None, None),
        TyS::Interval(None, Some(3)),
        TyS::Binary(1),
        TyS::Binary(16),
        TyS::VarBinary(SLen::None),
        TyS::VarBinary(SLen::Max),
        TyS::VarBinary(SLen::N(7)),
        TyS::VarBinary(SLen::N(1024)),
        TyS::Bit(None),
        TyS::Bit(Some(1)),
        TyS::Bit(Some(33)),
        TyS::VarBit(1),
        TyS::VarBit(17),
        TyS::Boolean,
        TyS::Money(None),
        TyS::Money(Some((12, 4))),
        TyS::Json,
        TyS::JsonBinary,
        TyS::Uuid,
        TyS::Custom(0),
        TyS::Custom(1),
        TyS::Custom(2),
        TyS::Enum { name: 0, variants: vec!["serif".into()] },
        TyS::Enum { name: 1, variants: vec!["a".into(), "it's".into(), "x,y".into()] },
        TyS::Vector(None),
        TyS::Vector(Some(3)),
        TyS::Vector(Some(1536)),
        TyS::Cidr,
        TyS::Inet,
        TyS::MacAddr,
        TyS::LTree,
    ];
    for f in 0u8..13 {
        v.push(TyS::Interval(Some(f), None));
        v.push(TyS::Interval(Some(f), Some(4)));
    }
    let scalars = v.clone();
    for s in scalars {
        v.push(TyS::Array(Box::new(s.clone())));
        if matches!(s, TyS::Integer | TyS::String(SLen::N(255)) | TyS::Decimal(Some((10, 2))) | TyS::Custom(1)) {
            v.push(TyS::Array(Box::new(TyS::Array(Box::new(s)))));
        }
    }
    v
}

/// type sweep: (type, dialect, position, with auto_increment) -> case; None if outside the domain
pub fn types_total() -> u64 {
    all_types().len() as u64 * 2 * 4
}
pub fn nth_type_case(i: u64) -> Case {
    let types = all_types();
    let n = types.len() as u64;
    let t = types[(i % n) as usize].clone();
    let rest = i / n;
    let d = if rest % 2 == 0 { Dialect::Mysql } else { Dialect::Postgres };
    let pos = rest / 2;
    let table = TName { schema: None, name: 1 };
    let col = |specs: Vec<SpecS>| ColS { name: 1, ty: Some(t.clone()), specs };
    let stmt = match pos {
        0 => StmtS::CreateTable(TableS { table, temporary: false, if_not_exists: false, cols: vec![col(vec![])], indexes: vec![], fks: vec![], checks: vec![], comment: None, options: vec![], extra: None }),
        1 => StmtS::AlterTable { table, opts: vec![AltS::AddColumn { if_not_exists: false, col: col(vec![SpecS::NotNull]) }] },
        2 => StmtS::AlterTable { table, opts: vec![AltS::Modify(col(vec![]))] },
        // with auto_increment: the dialect's form
        _ => StmtS::CreateTable(TableS {
            table,
            temporary: false,
            if_not_exists: false,
            cols: vec![col(vec![SpecS::NotNull, SpecS::AutoIncrement, SpecS::PrimaryKey])],
            indexes: vec![],
            fks: vec![],
            checks: vec![],
            comment: None,
            options: vec![],
            extra: None,
        }),
    };
    Case { dialect: d, stmt }
}

pub fn spec_kinds() -> Vec<SpecS> {
    let chk = E::Bin(Box::new(E::Col(0)), Op::Gt, Box::new(E::Int(10)));
    let val = E::Bin(Box::new(E::Col(1)), Op::Add, Box::new(E::Int(1)));
    vec![
        SpecS::Null,
        SpecS::NotNull,
        SpecS::Default(Lit::Int(7)),
        SpecS::AutoIncrement,
        SpecS::Unique,
        SpecS::PrimaryKey,
        SpecS::Check(chk),
        SpecS::Generated(val.clone(), true),
        SpecS::Extra(0),
        SpecS::Comment("note".into()),
        SpecS::Using(E::Cast(Box::new(E::Col(1)), "integer".into())),
    ]
}

/// ordered sequences of distinct specification kinds of length 1..=max_len (shortest first)
pub fn spec_sequences(max_len: usize) -> Vec<Vec<usize>> {
    let k = spec_kinds().len();
    let mut out: Vec<Vec<usize>> = vec![];
    let mut level: Vec<Vec<usize>> = vec![vec![]];
    for _ in 0..max_len {
        let mut next = vec![];
        for s in &level {
            for j in 0..k {
                if !s.contains(&j) {
                    let mut t = s.clone();
                    t.push(j);
                    next.push(t);
                }
            }
        }
        out.extend(next.iter().cloned());
        level = next;
    }
    out
}

/// positions of the specification sweep: 0 create column, 1 add column, 2 modify with type, 3 modify without type (pg)
pub fn spec_seq_case(seq: &[usize], d: Dialect, pos: u8) -> Case {
    let kinds = spec_kinds();
    let specs: Vec<SpecS> = seq.iter().map(|j| kinds[*j].clone()).collect();
    let table = TName { schema: None, name: 1 };
    let ty = if pos == 3 { None } else { Some(TyS::Integer) };
    let c = ColS { name: 1, ty, specs };
    let stmt = match pos {
        0 => StmtS::CreateTable(TableS { table, temporary: false, if_not_exists: false, cols: vec![c], indexes: vec![], fks: vec![], checks: vec![], comment: None, options: vec![], extra: None }),
        1 => StmtS::AlterTable { table, opts: vec![AltS::AddColumn { if_not_exists: false, col: c }] },
        _ => StmtS::AlterTable { table, opts: vec![AltS::Modify(c)] },
    };
    Case { dialect: d, stmt }
}

pub fn alter_kinds(d: Dialect) -> Vec<AltS> {
    let fk = FkS {
        name: Some("fk-1".into()),
        from_tbl: TName { schema: None, name: 1 },
        cols: vec![2],
        ref_tbl: TName { schema: None, name: 2 },
        ref_cols: vec![0],
        on_delete: Some(Act::Cascade),
        on_update: Some(Act::SetNull),
        via_pairs: false,
    };
    let mut v = vec![
        AltS::AddColumn { if_not_exists: false, col: ColS { name: 1, ty: Some(TyS::Integer), specs: vec![SpecS::NotNull, SpecS::Default(Lit::Int(1))] } },
        AltS::AddColumn { if_not_exists: true, col: ColS { name: 2, ty: Some(TyS::String(SLen::N(20))), specs: vec![] } },
        AltS::Modify(ColS { name: 3, ty: Some(TyS::BigInteger), specs: vec![SpecS::NotNull, SpecS::Default(Lit::Int(5))] }),
        AltS::Modify(ColS { name: 4, ty: Some(TyS::Text), specs: vec![] }),
        AltS::DropColumn(5),
        AltS::AddFk(fk),
        AltS::DropFk("fk-1".into()),
    ];
    if d == Dialect::Mysql {
        v.push(AltS::Rename(1, 2));
    } else {
        v.push(AltS::Modify(ColS { name: 6, ty: None, specs: vec![SpecS::Null, SpecS::Unique] }));
    }
    v
}
