//! The data types MySQL 8 and PostgreSQL define, with their admissible parameter forms, transcribed from
//! the MySQL 8.0 Reference Manual chapter 13 "Data Types" (13.1.1 numeric, 13.2.1 date and time, 13.3.1 string syntax,
//! 13.4 spatial, 13.5 JSON) and the PostgreSQL manual chapter 8 (Table 8.1 "Data Types" with its aliases, 8.5 date/time,
//! 8.10 bit strings, 8.17 range types) plus the two extension types sea-query's own mapping table names (ltree, vector).
//!
//! `type_defined` answers: is this spelling (name + parameter count + modifiers) something the dialect defines?  It
//! returns the canonical name of the type so that aliases compare equal (`int4` = `integer`, `dec` = `decimal`).

use super::ddl::{TArg, Ty};
use crate::util::Dialect;

pub struct TypeDef {
    pub names: &'static [&'static str],
    pub canon: &'static str,
    pub min_args: usize,
    pub max_args: usize,
    /// MySQL: UNSIGNED / ZEROFILL admissible
    pub numeric: bool,
}

const fn t(names: &'static [&'static str], canon: &'static str, min_args: usize, max_args: usize, numeric: bool) -> TypeDef {
    TypeDef { names, canon, min_args, max_args, numeric }
}

pub const MYSQL_TYPES: &[TypeDef] = &[
    t(&["bit"], "bit", 0, 1, false),
    t(&["tinyint"], "tinyint", 0, 1, true),
    t(&["bool", "boolean"], "bool", 0, 0, false),
    t(&["smallint"], "smallint", 0, 1, true),
    t(&["mediumint"], "mediumint", 0, 1, true),
    t(&["int", "integer"], "int", 0, 1, true),
    t(&["bigint"], "bigint", 0, 1, true),
    t(&["serial"], "serial", 0, 0, false),
    t(&["decimal", "dec", "numeric", "fixed"], "decimal", 0, 2, true),
    t(&["float"], "float", 0, 2, true),
    t(&["double", "double precision", "real"], "double", 0, 2, true),
    t(&["date"], "date", 0, 0, false),
    t(&["datetime"], "datetime", 0, 1, false),
    t(&["timestamp"], "timestamp", 0, 1, false),
    t(&["time"], "time", 0, 1, false),
    t(&["year"], "year", 0, 1, false),
    t(&["char", "character", "nchar", "national char", "national character"], "char", 0, 1, false),
    t(&["varchar", "character varying", "char varying", "nvarchar", "national varchar", "national char varying", "national character varying"], "varchar", 1, 1, false),
    t(&["binary"], "binary", 0, 1, false),
    t(&["varbinary"], "varbinary", 1, 1, false),
    t(&["tinyblob"], "tinyblob", 0, 0, false),
    t(&["blob"], "blob", 0, 1, false),
    t(&["mediumblob", "long varbinary"], "mediumblob", 0, 0, false),
    t(&["longblob"], "longblob", 0, 0, false),
    t(&["tinytext"], "tinytext", 0, 0, false),
    t(&["text"], "text", 0, 1, false),
    t(&["mediumtext", "long varchar", "long"], "mediumtext", 0, 0, false),
    t(&["longtext"], "longtext", 0, 0, false),
    t(&["enum"], "enum", 1, usize::MAX, false),
    t(&["set"], "set", 1, 64, false),
    t(&["json"], "json", 0, 0, false),
    t(&["geometry"], "geometry", 0, 0, false),
    t(&["point"], "point", 0, 0, false),
    t(&["linestring"], "linestring", 0, 0, false),
    t(&["polygon"], "polygon", 0, 0, false),
    t(&["multipoint"], "multipoint", 0, 0, false),
    t(&["multilinestring"], "multilinestring", 0, 0, false),
    t(&["multipolygon"], "multipolygon", 0, 0, false),
    t(&["geometrycollection", "geomcollection"], "geometrycollection", 0, 0, false),
];

pub const PG_TYPES: &[TypeDef] = &[
    t(&["bigint", "int8"], "bigint", 0, 0, false),
    t(&["bigserial", "serial8"], "bigserial", 0, 0, false),
    t(&["bit"], "bit", 0, 1, false),
    t(&["bit varying", "varbit"], "varbit", 0, 1, false),
    t(&["boolean", "bool"], "boolean", 0, 0, false),
    t(&["box"], "box", 0, 0, false),
    t(&["bytea"], "bytea", 0, 0, false),
    t(&["character", "char", "bpchar", "nchar", "national character", "national char"], "char", 0, 1, false),
    t(&["character varying", "varchar", "char varying", "national character varying", "national char varying", "nchar varying"], "varchar", 0, 1, false),
    t(&["cidr"], "cidr", 0, 0, false),
    t(&["circle"], "circle", 0, 0, false),
    t(&["date"], "date", 0, 0, false),
    t(&["double precision", "float8"], "double precision", 0, 0, false),
    t(&["inet"], "inet", 0, 0, false),
    t(&["integer", "int", "int4"], "integer", 0, 0, false),
    t(&["interval"], "interval", 0, 1, false),
    t(&["json"], "json", 0, 0, false),
    t(&["jsonb"], "jsonb", 0, 0, false),
    t(&["jsonpath"], "jsonpath", 0, 0, false),
    t(&["line"], "line", 0, 0, false),
    t(&["lseg"], "lseg", 0, 0, false),
    t(&["macaddr"], "macaddr", 0, 0, false),
    t(&["macaddr8"], "macaddr8", 0, 0, false),
    t(&["money"], "money", 0, 0, false),
    t(&["numeric", "decimal", "dec"], "numeric", 0, 2, false),
    t(&["path"], "path", 0, 0, false),
    t(&["pg_lsn"], "pg_lsn", 0, 0, false),
    t(&["pg_snapshot"], "pg_snapshot", 0, 0, false),
    t(&["point"], "point", 0, 0, false),
    t(&["polygon"], "polygon", 0, 0, false),
    t(&["real", "float4"], "real", 0, 0, false),
    t(&["float"], "float", 0, 1, false),
    t(&["smallint", "int2"], "smallint", 0, 0, false),
    t(&["smallserial", "serial2"], "smallserial", 0, 0, false),
    t(&["serial", "serial4"], "serial", 0, 0, false),
    t(&["text"], "text", 0, 0, false),
    t(&["time"], "time", 0, 1, false),
    t(&["timetz"], "timetz", 0, 1, false),
    t(&["timestamp"], "timestamp", 0, 1, false),
    t(&["timestamptz"], "timestamptz", 0, 1, false),
    t(&["tsquery"], "tsquery", 0, 0, false),
    t(&["tsvector"], "tsvector", 0, 0, false),
    t(&["txid_snapshot"], "txid_snapshot", 0, 0, false),
    t(&["uuid"], "uuid", 0, 0, false),
    t(&["xml"], "xml", 0, 0, false),
    t(&["oid"], "oid", 0, 0, false),
    t(&["name"], "name", 0, 0, false),
    t(&["int4range"], "int4range", 0, 0, false),
    t(&["int8range"], "int8range", 0, 0, false),
    t(&["numrange"], "numrange", 0, 0, false),
    t(&["tsrange"], "tsrange", 0, 0, false),
    t(&["tstzrange"], "tstzrange", 0, 0, false),
    t(&["daterange"], "daterange", 0, 0, false),
    t(&["int4multirange"], "int4multirange", 0, 0, false),
    t(&["int8multirange"], "int8multirange", 0, 0, false),
    t(&["nummultirange"], "nummultirange", 0, 0, false),
    t(&["tsmultirange"], "tsmultirange", 0, 0, false),
    t(&["tstzmultirange"], "tstzmultirange", 0, 0, false),
    t(&["datemultirange"], "datemultirange", 0, 0, false),
    // extension types named by sea-query's documented mapping (additional supplied modules / pgvector)
    t(&["ltree"], "ltree", 0, 0, false),
    t(&["vector"], "vector", 0, 1, false),
    t(&["citext"], "citext", 0, 0, false),
    t(&["hstore"], "hstore", 0, 0, false),
];

pub fn table(d: Dialect) -> &'static [TypeDef] {
    match d {
        Dialect::Mysql => MYSQL_TYPES,
        _ => PG_TYPES,
    }
}

/// Ok(canonical name) if the dialect defines this type in this parameter form; Err((class, message)) otherwise.
pub fn type_defined(d: Dialect, ty: &Ty) -> Result<&'static str, (String, String)> {
    let clean = |s: &str| -> String { s.chars().map(|c| if c.is_ascii_alphanumeric() || c == '_' { c } else { '-' }).take(24).collect() };
    if ty.quoted {
        return Err((format!("undefined/{}", clean(&ty.name)), format!("the quoted name \"{}\" refers to a user-defined type, not to a type the dialect defines", ty.name)));
    }
    let Some(def) = table(d).iter().find(|t| t.names.contains(&ty.name.as_str())) else {
        return Err((
            format!("undefined/{}", clean(&ty.name)),
            format!("`{}` is not a data type {} defines (written as `{}`)", ty.name, if d == Dialect::Mysql { "MySQL" } else { "PostgreSQL" }, ty.show()),
        ));
    };
    let n = ty.args.as_ref().map(|a| a.len()).unwrap_or(0);
    if n < def.min_args || n > def.max_args {
        let form = if def.max_args == 0 {
            "no parameters".to_string()
        } else if def.min_args == def.max_args {
            format!("exactly {} parameter(s)", def.min_args)
        } else {
            format!("{} to {} parameters", def.min_args, if def.max_args == usize::MAX { "any number of".to_string() } else { def.max_args.to_string() })
        };
        return Err((format!("params/{}", def.canon.replace(' ', "-")), format!("`{}`: the type {} takes {form}", ty.show(), def.canon)));
    }
    if let Some(args) = &ty.args {
        let strings = matches!(def.canon, "enum" | "set");
        for a in args {
            let ok = match a {
                TArg::Num(x) => !strings && x.chars().all(|c| c.is_ascii_digit()),
                TArg::Str(_) => strings,
                TArg::Word(_) => false,
            };
            if !ok {
                return Err((format!("params/{}", def.canon.replace(' ', "-")), format!("`{}`: inadmissible parameter for {}", ty.show(), def.canon)));
            }
        }
    }
    if d == Dialect::Mysql {
        if (ty.unsigned || ty.modifiers.iter().any(|m| m == "ZEROFILL" || m == "SIGNED")) && !def.numeric {
            return Err((format!("unsigned-on/{}", def.canon), format!("`{}`: UNSIGNED / ZEROFILL only apply to numeric types", ty.show())));
        }
        if ty.fields.is_some() || ty.tz.is_some() || ty.dims > 0 {
            return Err(("other-dialect".into(), format!("`{}`: Postgres type syntax", ty.show())));
        }
    } else {
        if ty.unsigned || !ty.modifiers.is_empty() {
            return Err(("other-dialect".into(), format!("`{}`: MySQL type modifier", ty.show())));
        }
        if ty.fields.is_some() && def.canon != "interval" {
            return Err((format!("params/{}", def.canon), format!("`{}`: fields only apply to interval", ty.show())));
        }
        if ty.tz.is_some() && !matches!(def.canon, "time" | "timestamp") {
            return Err((format!("params/{}", def.canon), format!("`{}`: time zone only applies to time / timestamp", ty.show())));
        }
    }
    Ok(match (def.canon, ty.tz) {
        ("timestamp", Some(true)) => "timestamptz",
        ("time", Some(true)) => "timetz",
        (c, _) => c,
    })
}
