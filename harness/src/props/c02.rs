//! C02 — inline rendering and parameterised rendering are the same statement.
//!
//! Oracle: an exact text relation. In `build(B).0` the i-th parameter token (n-th for `$n`),
//! located by the harness's own dialect lexer, is replaced by `B.value_to_string(values[i])`; the
//! result must equal `to_string(B)` byte for byte (the literal's own correctness is C03's
//! concern; this relates the two writers). All rendering entry points must agree, rendering twice
//! gives the same text, and rendering does not modify the statement (`==` against a clone taken
//! before, and unchanged `Debug` text). For executable statements the inline and the bound form
//! are additionally run on the SQLite engine and must return the same rows / leave the same tables.

use crate::expr_spec::{vs_strategy, VS};
use crate::lex::{self, Tok};
use crate::runner::*;
use crate::stmt_gen;
use crate::stmt_params::substitute_values;
use crate::stmt_spec::*;
use crate::util::*;
use crate::{on_built, with_backend};
use proptest::prelude::*;
use sea_query::*;
use serde::{Deserialize, Serialize};
use serde_json::Value as J;

#[derive(Serialize, Deserialize, Clone, Debug, PartialEq, Eq, Hash)]
pub struct Case {
    pub dialect: Dialect,
    pub stmt: Stmt,
    pub values: Vec<VS>,
}

fn substituted(d: Dialect, sql: &str, values: &Values) -> Result<String, Stop> {
    let toks = match lex::lex(d, sql) {
        Ok(t) => t,
        Err(e) => return fail(format!("lex-error/{}", d.name()), format!("{sql:?}: {e:?}")),
    };
    let mut out = String::new();
    let mut last = 0usize;
    let mut k = 0usize;
    for t in &toks {
        if let Tok::Param(p) = &t.tok {
            let idx = match p {
                Some(n) => (*n as usize).wrapping_sub(1),
                None => k,
            };
            k += 1;
            let Some(v) = values.0.get(idx) else {
                return fail(format!("placeholder-without-value/{}", d.name()), format!("{sql:?}: placeholder {} has no value (returned {})", t.tok.show(), values.0.len()));
            };
            out.push_str(&sql[last..t.start]);
            let literal = guard("value_to_string", || with_backend!(d, b => b.value_to_string(v)))?;
            literal_denotes(d, v, &literal)?;
            out.push_str(&literal);
            last = t.end;
        }
    }
    out.push_str(&sql[last..]);
    if k != values.0.len() {
        return fail(format!("placeholder-count/{}", d.name()), format!("{sql:?}: {k} placeholders, {} values", values.0.len()));
    }
    Ok(out)
}

/// The literal that replaces a placeholder must denote the bound value under the engine's lexical rules (decided here for text,
/// characters and byte strings, whose literal forms differ between the backends; C03 explores them in depth).
fn literal_denotes(d: Dialect, v: &Value, literal: &str) -> R {
    let want_text: Option<String> = match v {
        Value::String(Some(s)) => Some((**s).clone()),
        Value::Char(Some(c)) => Some(c.to_string()),
        _ => None,
    };
    let want_bytes: Option<&Vec<u8>> = match v {
        Value::Bytes(Some(b)) => Some(&**b),
        _ => None,
    };
    if want_text.is_none() && want_bytes.is_none() {
        return Ok(());
    }
    // NUL has no representation outside MySQL: such values are outside the inline domain (C03)
    if d != Dialect::Mysql && want_text.as_deref().map(|t| t.contains('\0')).unwrap_or(false) {
        return Ok(());
    }
    let toks = match lex::lex(d, literal) {
        Ok(t) => t,
        Err(e) => return fail(format!("literal-does-not-lex/{}", d.name()), format!("value {v:?} is inlined as {literal:?}: {e:?}")),
    };
    let ok = match (toks.as_slice(), &want_text, want_bytes) {
        ([t], Some(w), _) => matches!(&t.tok, Tok::Str(s) if s == w),
        ([t], _, Some(w)) => match &t.tok {
            Tok::Bytes(b) => b == w,
            Tok::Str(s) if d == Dialect::Postgres => lex::pg_bytea_from_text(s).as_ref() == Some(w),
            _ => false,
        },
        _ => false,
    };
    if ok {
        Ok(())
    } else {
        fail(
            format!("literal-denotes-another-value/{}/{}", d.name(), if want_bytes.is_some() { "bytes" } else { "text" }),
            format!("value {v:?} is inlined as {literal:?}, which the engine reads as {}", lex::show(&toks)),
        )
    }
}

pub fn check(c: &Case, obs: &mut Obs) -> R {
    let d = c.dialect;
    let mut st = c.stmt.clone();
    substitute_values(&mut st, &c.values);
    let built = guard("builder-calls", || st.build(d))?;
    let kind = st.kind();
    // snapshot before any rendering
    let (snapshot_dbg, snapshot): (String, Built) = on_built!(&built, s => (format!("{s:?}"), s.clone().into_built()));
    let inline = guard("to_string", || built.to_string(d))?;
    let (sql, values) = guard("build", || built.build(d))?;
    obs.note(inline.clone());
    let want = substituted(d, &sql, &values)?;
    if want != inline {
        let i = want.bytes().zip(inline.bytes()).position(|(a, b)| a != b).unwrap_or(want.len().min(inline.len()));
        let ctx = |s: &str| s.char_indices().filter(|(j, _)| *j + 30 >= i && *j < i + 30).map(|(_, c)| c).collect::<String>();
        return fail(
            format!("inline-differs-from-substituted/{}/{kind}", d.name()),
            format!("to_string: …{}…\nbuild with literals substituted: …{}…\nfull inline {inline:?}\nfull build {sql:?}\nspec {:?}", ctx(&inline), ctx(&want), c.stmt),
        );
    }
    // ---- entry points
    let inline2 = guard("build_collect(String)", || on_built!(&built, s => with_backend!(d, b => { let mut w = String::new(); s.build_collect(b, &mut w) })))?;
    let inline3 = guard("build_collect_any(String)", || on_built!(&built, s => with_backend!(d, b => { let mut w = String::new(); s.build_collect_any(&b, &mut w) })))?;
    let inline4 = guard("build_collect_into(String)", || on_built!(&built, s => with_backend!(d, b => { let mut w = String::new(); s.build_collect_into(b, &mut w); w })))?;
    let inline5 = guard("build_collect_any_into(String)", || on_built!(&built, s => with_backend!(d, b => { let mut w = String::new(); s.build_collect_any_into(&b, &mut w); w })))?;
    for (name, text) in [("build_collect", &inline2), ("build_collect_any", &inline3), ("build_collect_into", &inline4), ("build_collect_any_into", &inline5)] {
        if *text != inline {
            return fail(format!("entry-point/{name}/{}", d.name()), format!("to_string gave {inline:?}, {name} with a String writer gave {text:?}"));
        }
    }
    let (sql_any, values_any) = guard("build_any", || on_built!(&built, s => with_backend!(d, b => s.build_any(&b))))?;
    if sql_any != sql || values_any != values {
        return fail(format!("entry-point/build_any/{}", d.name()), format!("build gave {sql:?}, build_any gave {sql_any:?}"));
    }
    let sql_into = guard("build_collect_into(values)", || {
        on_built!(&built, s => with_backend!(d, b => {
            let (ph, numbered) = b.placeholder();
            let mut w = SqlWriterValues::new(ph, numbered);
            s.build_collect_into(b, &mut w);
            w.into_parts()
        }))
    })?;
    if sql_into.0 != sql || sql_into.1 != values {
        return fail(format!("entry-point/build_collect_into/{}", d.name()), format!("build gave {sql:?}, build_collect_into gave {:?}", sql_into.0));
    }
    // ---- idempotence and immutability
    let again = guard("to_string", || built.to_string(d))?;
    let (sql_again, values_again) = guard("build", || built.build(d))?;
    if again != inline || sql_again != sql || values_again != values {
        return fail(format!("render-twice-differs/{}", d.name()), format!("first {inline:?}, second {again:?}"));
    }
    let same = match (&built, &snapshot) {
        (Built::Select(a), Built::Select(b)) => a == b,
        (Built::Insert(a), Built::Insert(b)) => a == b,
        (Built::Update(a), Built::Update(b)) => a == b,
        (Built::Delete(a), Built::Delete(b)) => a == b,
        (Built::With(a), Built::With(b)) => a == b,
        _ => false,
    };
    let dbg_now: String = on_built!(&built, s => format!("{s:?}"));
    if !same || dbg_now != snapshot_dbg {
        return fail(format!("rendering-modified-statement/{}/{kind}", d.name()), format!("statement differs from the clone taken before rendering (==: {same}); spec {:?}", c.stmt));
    }
    // ---- classification
    let inlined_site = inline.contains("ESCAPE") || inline.contains("CASE WHEN") || sql.contains("TRUE") || sql.contains("FALSE");
    obs.label(kind);
    if values.0.len() >= 1 && (inlined_site || sql.matches("SELECT").count() > 1) {
        obs.nontrivial(&(d, &sql, &inline));
        obs.label("param+inlined-site-or-nesting");
    }
    for v in &c.values {
        obs.label(format!("vs/{}", format!("{v:?}").split('(').next().unwrap_or("")));
    }
    Ok(())
}

trait IntoBuilt {
    fn into_built(self) -> Built;
}
impl IntoBuilt for SelectStatement {
    fn into_built(self) -> Built {
        Built::Select(self)
    }
}
impl IntoBuilt for InsertStatement {
    fn into_built(self) -> Built {
        Built::Insert(self)
    }
}
impl IntoBuilt for UpdateStatement {
    fn into_built(self) -> Built {
        Built::Update(self)
    }
}
impl IntoBuilt for WithQuery {
    fn into_built(self) -> Built {
        Built::With(self)
    }
}
impl IntoBuilt for DeleteStatement {
    fn into_built(self) -> Built {
        Built::Delete(self)
    }
}

pub fn case_strategy() -> impl Strategy<Value = Case> {
    (stmt_gen::dialect_stmt_render(), proptest::collection::vec(vs_strategy(), 0..5)).prop_map(|((dialect, stmt), values)| Case { dialect, stmt, values })
}

pub fn run(ctx: &mut Ctx) {
    ctx.rule = "cases = (backend, statement spec, list of typed values): the statements of C01's generator with about two thirds of their value atoms replaced by values of every supported \
type (all integer widths, finite f32 / f64 from bit patterns incl. whole numbers and extreme exponents, text with quotes / backslashes / NUL, char, bytes, bool, typed NULLs, JSON, chrono date / datetime, \
time date, Decimal, BigDecimal, Uuid). Non-trivial = at least one parameter and (a directly inlined site — LIKE ESCAPE, ORDER BY FIELD, constant, TRUE/FALSE of an empty group — or nesting); distinct by (backend, both texts)."
        .into();
    ctx.assumptions.push("the literal used for the substitution is the backend's own value_to_string (C03 decides whether that literal is right)".into());
    ctx.domain_restrictions.push("non-finite floats are not generated (no engine has literals for them)".into());
    let n = ctx.tier.pick(120_000, 3_000_000);
    ctx.run_proptest("statements", n, &case_strategy, &check);
    // every parameter count up to a bound (C01's statements with exactly k bound values)
    let max_params: u64 = ctx.tier.pick(1_300, 6_000);
    ctx.run_indexed(
        "parameter-counts",
        max_params * 3,
        &|i| {
            let c = crate::props::c01::many_params_case(DIALECTS[(i % 3) as usize], 1 + (i / 3) as usize);
            Case { dialect: c.dialect, stmt: c.stmt, values: vec![] }
        },
        &check,
    );
}

pub fn replay(_part: &str, case: &J, obs: &mut Obs) -> R {
    let c: Case = from_case(case)?;
    check(&c, obs)
}
