//! `SelectStatement` call histories for C15.

use super::args::*;
use super::*;
use sea_query::extension::mysql::{IndexHintScope, MySqlSelectStatementExt};
use sea_query::extension::postgres::{PostgresSelectStatementExt, SampleMethod};
use sea_query::*;

#[derive(Serialize, Deserialize, Clone, Copy, Debug, PartialEq, Eq, Hash)]
pub enum Jk {
    Join,
    Cross,
    Inner,
    Left,
    Right,
    FullOuter,
}

impl Jk {
    pub fn build(self) -> JoinType {
        match self {
            Jk::Join => JoinType::Join,
            Jk::Cross => JoinType::CrossJoin,
            Jk::Inner => JoinType::InnerJoin,
            Jk::Left => JoinType::LeftJoin,
            Jk::Right => JoinType::RightJoin,
            Jk::FullOuter => JoinType::FullOuterJoin,
        }
    }
}

#[derive(Serialize, Deserialize, Clone, Copy, Debug, PartialEq, Eq, Hash)]
pub enum Un {
    Union,
    All,
    Intersect,
    Except,
}

impl Un {
    pub fn build(self) -> UnionType {
        match self {
            Un::Union => UnionType::Distinct,
            Un::All => UnionType::All,
            Un::Intersect => UnionType::Intersect,
            Un::Except => UnionType::Except,
        }
    }
}

fn lock_type(t: u8) -> LockType {
    [LockType::Update, LockType::NoKeyUpdate, LockType::Share, LockType::KeyShare][t as usize % 4]
}
fn lock_behavior(skip: bool) -> LockBehavior {
    if skip {
        LockBehavior::SkipLocked
    } else {
        LockBehavior::Nowait
    }
}
fn hint_scope(s: u8) -> IndexHintScope {
    [IndexHintScope::All, IndexHintScope::Join, IndexHintScope::OrderBy, IndexHintScope::GroupBy][s as usize % 4]
}

/// Every public `SelectStatement` builder method that can set a field.
#[derive(Serialize, Deserialize, Clone, Debug, PartialEq, Eq, Hash)]
pub enum SCall {
    // distinct
    Distinct,
    DistinctOn(Vec<ColR>),
    // selects
    Expr(X),
    Exprs(Vec<X>),
    Column(ColR),
    Columns(Vec<ColR>),
    ExprAs(X, u8),
    ExprWindow(X, W),
    ExprWindowAs(X, W, u8),
    ExprWindowName(X, u8),
    ExprWindowNameAs(X, u8, u8),
    /// exprs_mut_for_each(|e| e.alias = Some(name))
    ExprsMutForEach(u8),
    // from
    From(T),
    FromAs(T, u8),
    FromSubquery(Sub, u8),
    FromValues(Vec<Vec<i64>>, u8),
    FromFunction(u8, u8),
    // join
    Join(Jk, T, Cn),
    CrossJoin(T, Cn),
    LeftJoin(T, Cn),
    RightJoin(T, Cn),
    InnerJoin(T, Cn),
    FullOuterJoin(T, Cn),
    JoinAs(Jk, T, u8, Cn),
    JoinSubquery(Jk, Sub, u8, Cn),
    JoinLateral(Jk, Sub, u8, Cn),
    // where
    AndWhere(X),
    AndWhereOption(Option<X>),
    CondWhere(Cnd),
    // groups
    GroupByCol(ColR),
    GroupByColumns(Vec<ColR>),
    AddGroupBy(Vec<X>),
    // having
    AndHaving(X),
    CondHaving(Cnd),
    // unions
    Union(Un, Sub),
    Unions(Vec<(Un, Sub)>),
    // orders
    OrderBy(ColR, Dir),
    OrderByExpr(X, Dir),
    OrderByWithNulls(ColR, Dir, bool),
    OrderByExprWithNulls(X, Dir, bool),
    OrderByCustoms(Vec<(String, Dir)>),
    OrderByColumns(Vec<(ColR, Dir)>),
    OrderByCustomsWithNulls(Vec<(String, Dir, bool)>),
    OrderByColumnsWithNulls(Vec<(ColR, Dir, bool)>),
    // limit / offset
    Limit(u64),
    Offset(u64),
    // lock
    Lock(u8),
    LockWithTables(u8, Vec<T>),
    LockWithBehavior(u8, bool),
    LockWithTablesBehavior(u8, Vec<T>, bool),
    LockShared,
    LockExclusive,
    // window, with
    Window(u8, W),
    WithCte(With),
    // MySQL index hints
    UseIndex(u8, u8),
    ForceIndex(u8, u8),
    IgnoreIndex(u8, u8),
    // Postgres TABLESAMPLE
    TableSample(bool, u32, Option<u32>),
    // closure-taking forms: the inner call is made inside the closure
    Apply(Box<SCall>),
    ApplyIf(bool, Box<SCall>),
    Conditions(bool, Box<SCall>, Box<SCall>),
}

pub fn apply_call(q: &mut SelectStatement, c: &SCall) {
    match c {
        SCall::Distinct => {
            q.distinct();
        }
        SCall::DistinctOn(cols) => {
            q.distinct_on(cols.iter().map(|c| c.build()).collect::<Vec<_>>());
        }
        SCall::Expr(x) => {
            q.expr(x.build());
        }
        SCall::Exprs(xs) => {
            q.exprs(xs.iter().map(|x| x.build()).collect::<Vec<_>>());
        }
        SCall::Column(c) => {
            q.column(c.build());
        }
        SCall::Columns(cs) => {
            q.columns(cs.iter().map(|c| c.build()).collect::<Vec<_>>());
        }
        SCall::ExprAs(x, a) => {
            q.expr_as(x.build(), name(*a));
        }
        SCall::ExprWindow(x, w) => {
            q.expr_window(x.build(), w.build());
        }
        SCall::ExprWindowAs(x, w, a) => {
            q.expr_window_as(x.build(), w.build(), name(*a));
        }
        SCall::ExprWindowName(x, w) => {
            q.expr_window_name(x.build(), name(*w));
        }
        SCall::ExprWindowNameAs(x, w, a) => {
            q.expr_window_name_as(x.build(), name(*w), name(*a));
        }
        SCall::ExprsMutForEach(a) => {
            let a = *a;
            q.exprs_mut_for_each(|e| e.alias = Some(name(a).into_iden()));
        }
        SCall::From(t) => {
            q.from(t.build());
        }
        SCall::FromAs(t, a) => {
            q.from_as(t.build(), tblname(*a));
        }
        SCall::FromSubquery(s, a) => {
            q.from_subquery(s.build(), tblname(*a));
        }
        SCall::FromValues(rows, a) => {
            let tuples: Vec<ValueTuple> = rows.iter().map(|r| ValueTuple::Many(r.iter().map(|v| Value::BigInt(Some(*v))).collect())).collect();
            q.from_values(tuples, tblname(*a));
        }
        SCall::FromFunction(f, a) => {
            let func = match f % 3 {
                0 => Func::random(),
                1 => Func::cust(al("gen_rows")).arg(3),
                _ => Func::coalesce([Expr::val(1).into(), Expr::col(colname(*f)).into()]),
            };
            q.from_function(func, tblname(*a));
        }
        SCall::Join(k, t, c) => {
            q.join(k.build(), t.build(), c.build());
        }
        SCall::CrossJoin(t, c) => {
            q.cross_join(t.build(), c.build());
        }
        SCall::LeftJoin(t, c) => {
            q.left_join(t.build(), c.build());
        }
        SCall::RightJoin(t, c) => {
            q.right_join(t.build(), c.build());
        }
        SCall::InnerJoin(t, c) => {
            q.inner_join(t.build(), c.build());
        }
        SCall::FullOuterJoin(t, c) => {
            q.full_outer_join(t.build(), c.build());
        }
        SCall::JoinAs(k, t, a, c) => {
            q.join_as(k.build(), t.build(), tblname(*a), c.build());
        }
        SCall::JoinSubquery(k, s, a, c) => {
            q.join_subquery(k.build(), s.build(), tblname(*a), c.build());
        }
        SCall::JoinLateral(k, s, a, c) => {
            q.join_lateral(k.build(), s.build(), tblname(*a), c.build());
        }
        SCall::AndWhere(x) => {
            q.and_where(x.build());
        }
        SCall::AndWhereOption(x) => {
            q.and_where_option(x.as_ref().map(|x| x.build()));
        }
        SCall::CondWhere(c) => {
            q.cond_where(c.build());
        }
        SCall::GroupByCol(c) => {
            q.group_by_col(c.build());
        }
        SCall::GroupByColumns(cs) => {
            q.group_by_columns(cs.iter().map(|c| c.build()).collect::<Vec<_>>());
        }
        SCall::AddGroupBy(xs) => {
            q.add_group_by(xs.iter().map(|x| x.build()).collect::<Vec<_>>());
        }
        SCall::AndHaving(x) => {
            q.and_having(x.build());
        }
        SCall::CondHaving(c) => {
            q.cond_having(c.build());
        }
        SCall::Union(u, s) => {
            q.union(u.build(), s.build());
        }
        SCall::Unions(us) => {
            q.unions(us.iter().map(|(u, s)| (u.build(), s.build())).collect::<Vec<_>>());
        }
        SCall::OrderBy(c, d) => {
            q.order_by(c.build(), d.build());
        }
        SCall::OrderByExpr(x, d) => {
            q.order_by_expr(x.build(), d.build());
        }
        SCall::OrderByWithNulls(c, d, n) => {
            q.order_by_with_nulls(c.build(), d.build(), nulls(*n));
        }
        SCall::OrderByExprWithNulls(x, d, n) => {
            q.order_by_expr_with_nulls(x.build(), d.build(), nulls(*n));
        }
        SCall::OrderByCustoms(v) => {
            q.order_by_customs(v.iter().map(|(s, d)| (s.clone(), d.build())).collect::<Vec<_>>());
        }
        SCall::OrderByColumns(v) => {
            q.order_by_columns(v.iter().map(|(c, d)| (c.build(), d.build())).collect::<Vec<_>>());
        }
        SCall::OrderByCustomsWithNulls(v) => {
            q.order_by_customs_with_nulls(v.iter().map(|(s, d, n)| (s.clone(), d.build(), nulls(*n))).collect::<Vec<_>>());
        }
        SCall::OrderByColumnsWithNulls(v) => {
            q.order_by_columns_with_nulls(v.iter().map(|(c, d, n)| (c.build(), d.build(), nulls(*n))).collect::<Vec<_>>());
        }
        SCall::Limit(n) => {
            q.limit(*n);
        }
        SCall::Offset(n) => {
            q.offset(*n);
        }
        SCall::Lock(t) => {
            q.lock(lock_type(*t));
        }
        SCall::LockWithTables(t, ts) => {
            q.lock_with_tables(lock_type(*t), ts.iter().map(|t| t.build()).collect::<Vec<_>>());
        }
        SCall::LockWithBehavior(t, b) => {
            q.lock_with_behavior(lock_type(*t), lock_behavior(*b));
        }
        SCall::LockWithTablesBehavior(t, ts, b) => {
            q.lock_with_tables_behavior(lock_type(*t), ts.iter().map(|t| t.build()).collect::<Vec<_>>(), lock_behavior(*b));
        }
        SCall::LockShared => {
            q.lock_shared();
        }
        SCall::LockExclusive => {
            q.lock_exclusive();
        }
        SCall::Window(n, w) => {
            q.window(name(*n), w.build());
        }
        SCall::WithCte(w) => {
            q.with_cte(w.build());
        }
        SCall::UseIndex(i, s) => {
            q.use_index(name(*i), hint_scope(*s));
        }
        SCall::ForceIndex(i, s) => {
            q.force_index(name(*i), hint_scope(*s));
        }
        SCall::IgnoreIndex(i, s) => {
            q.ignore_index(name(*i), hint_scope(*s));
        }
        SCall::TableSample(bern, pct, rep) => {
            q.table_sample(if *bern { SampleMethod::BERNOULLI } else { SampleMethod::SYSTEM }, *pct as f64, rep.map(|r| r as f64));
        }
        SCall::Apply(inner) => {
            q.apply(|q| apply_call(q, inner));
        }
        SCall::ApplyIf(b, inner) => {
            q.apply_if(if *b { Some(()) } else { None }, |q, _| apply_call(q, inner));
        }
        SCall::Conditions(b, x, y) => {
            q.conditions(*b, |q| apply_call(q, x), |q| apply_call(q, y));
        }
    }
}

pub fn field_of_call(c: &SCall) -> &'static str {
    use SCall::*;
    match c {
        Distinct | DistinctOn(_) => "distinct",
        Expr(_) | Exprs(_) | Column(_) | Columns(_) | ExprAs(..) | ExprWindow(..) | ExprWindowAs(..) | ExprWindowName(..) | ExprWindowNameAs(..) | ExprsMutForEach(_) => "selects",
        From(_) | FromAs(..) | FromSubquery(..) | FromValues(..) | FromFunction(..) => "from",
        Join(..) | CrossJoin(..) | LeftJoin(..) | RightJoin(..) | InnerJoin(..) | FullOuterJoin(..) | JoinAs(..) | JoinSubquery(..) | JoinLateral(..) => "join",
        AndWhere(_) | AndWhereOption(_) | CondWhere(_) => "where",
        GroupByCol(_) | GroupByColumns(_) | AddGroupBy(_) => "groups",
        AndHaving(_) | CondHaving(_) => "having",
        Union(..) | Unions(_) => "unions",
        OrderBy(..) | OrderByExpr(..) | OrderByWithNulls(..) | OrderByExprWithNulls(..) | OrderByCustoms(_) | OrderByColumns(_) | OrderByCustomsWithNulls(_) | OrderByColumnsWithNulls(_) => "orders",
        Limit(_) => "limit",
        Offset(_) => "offset",
        Lock(_) | LockWithTables(..) | LockWithBehavior(..) | LockWithTablesBehavior(..) | LockShared | LockExclusive => "lock",
        Window(..) => "window",
        WithCte(_) => "with",
        UseIndex(..) | ForceIndex(..) | IgnoreIndex(..) => "index_hints",
        TableSample(..) => "table_sample",
        Apply(inner) => field_of_call(inner),
        ApplyIf(true, inner) => field_of_call(inner),
        ApplyIf(false, _) => "-",
        Conditions(true, x, _) => field_of_call(x),
        Conditions(false, _, y) => field_of_call(y),
    }
}

pub struct SelectM {
    q: SelectStatement,
}

pub fn render_select(s: &SelectStatement) -> Vec<(String, String)> {
    let mut v = Vec::with_capacity(6);
    for d in DIALECTS {
        v.push((format!("to_string/{}", d.name()), outcome(|| crate::with_backend!(d, b => s.to_string(b)))));
        v.push((
            format!("build/{}", d.name()),
            outcome(|| {
                let (sql, vals) = crate::with_backend!(d, b => s.build(b));
                format!("{sql} -- {vals:?}")
            }),
        ));
    }
    v
}

impl Machine for SelectM {
    type S = SelectStatement;
    type Call = SCall;
    const NAME: &'static str = "select";
    const CLEARS: &'static [(&'static str, &'static str)] =
        &[("clear_selects", "selects"), ("from_clear", "from"), ("reset_limit", "limit"), ("reset_offset", "offset"), ("clear_order_by", "orders")];
    const LEFTOVER_NEW: bool = true;

    fn new() -> Self {
        SelectM { q: SelectStatement::new() }
    }
    fn stmt(&self) -> &SelectStatement {
        &self.q
    }
    fn stmt_mut(&mut self) -> &mut SelectStatement {
        &mut self.q
    }
    fn apply(&mut self, c: &SCall) {
        apply_call(&mut self.q, c);
    }
    fn take(&mut self) -> SelectStatement {
        self.q.take()
    }
    fn to_owned_via_ref(s: &mut SelectStatement) -> SelectStatement {
        // the idiom at the end of a builder chain: `Query::select().x().y().to_owned()`
        let r: &mut SelectStatement = s;
        r.to_owned()
    }
    fn clear(&mut self, op: usize) {
        match op {
            0 => self.q.clear_selects(),
            1 => self.q.from_clear(),
            2 => self.q.reset_limit(),
            3 => self.q.reset_offset(),
            _ => self.q.clear_order_by(),
        };
    }
    fn field_of(c: &SCall) -> &'static str {
        field_of_call(c)
    }
    fn eq(a: &SelectStatement, b: &SelectStatement) -> Option<bool> {
        Some(a == b && b == a)
    }
    fn renders(s: &SelectStatement) -> Vec<(String, String)> {
        render_select(s)
    }
}

// ------------------------------------------------------------------------------------ strategies

fn one_of_field(field: usize) -> BoxedStrategy<SCall> {
    let a = || 0u8..5;
    let t6 = || 0u8..6;
    match field {
        0 => prop_oneof![Just(SCall::Distinct), proptest::collection::vec(colr(), 0..3).prop_map(SCall::DistinctOn)].boxed(),
        1 => prop_oneof![
            3 => x(2).prop_map(SCall::Expr),
            1 => proptest::collection::vec(x(1), 0..3).prop_map(SCall::Exprs),
            2 => colr().prop_map(SCall::Column),
            1 => proptest::collection::vec(colr(), 0..3).prop_map(SCall::Columns),
            2 => (x(2), a()).prop_map(|(x, a)| SCall::ExprAs(x, a)),
            1 => (x(1), w()).prop_map(|(x, w)| SCall::ExprWindow(x, w)),
            1 => (x(1), w(), a()).prop_map(|(x, w, a)| SCall::ExprWindowAs(x, w, a)),
            1 => (x(1), a()).prop_map(|(x, a)| SCall::ExprWindowName(x, a)),
            1 => (x(1), a(), a()).prop_map(|(x, w, a)| SCall::ExprWindowNameAs(x, w, a)),
            1 => a().prop_map(SCall::ExprsMutForEach),
        ]
        .boxed(),
        2 => prop_oneof![
            3 => tref().prop_map(SCall::From),
            1 => (tref(), t6()).prop_map(|(t, a)| SCall::FromAs(t, a)),
            1 => (sub(), t6()).prop_map(|(s, a)| SCall::FromSubquery(s, a)),
            1 => (proptest::collection::vec(proptest::collection::vec(0i64..9, 1..3), 1..3), t6()).prop_map(|(r, a)| SCall::FromValues(r, a)),
            1 => (0u8..6, t6()).prop_map(|(f, a)| SCall::FromFunction(f, a)),
        ]
        .boxed(),
        3 => {
            let jk = || proptest::sample::select(vec![Jk::Join, Jk::Cross, Jk::Inner, Jk::Left, Jk::Right, Jk::FullOuter]);
            prop_oneof![
                2 => (jk(), tref(), cn()).prop_map(|(k, t, c)| SCall::Join(k, t, c)),
                1 => (tref(), cn()).prop_map(|(t, c)| SCall::CrossJoin(t, c)),
                1 => (tref(), cn()).prop_map(|(t, c)| SCall::LeftJoin(t, c)),
                1 => (tref(), cn()).prop_map(|(t, c)| SCall::RightJoin(t, c)),
                1 => (tref(), cn()).prop_map(|(t, c)| SCall::InnerJoin(t, c)),
                1 => (tref(), cn()).prop_map(|(t, c)| SCall::FullOuterJoin(t, c)),
                1 => (jk(), tref(), t6(), cn()).prop_map(|(k, t, a, c)| SCall::JoinAs(k, t, a, c)),
                1 => (jk(), sub(), t6(), cn()).prop_map(|(k, s, a, c)| SCall::JoinSubquery(k, s, a, c)),
                1 => (jk(), sub(), t6(), cn()).prop_map(|(k, s, a, c)| SCall::JoinLateral(k, s, a, c)),
            ]
            .boxed()
        }
        4 => prop_oneof![
            3 => x(2).prop_map(SCall::AndWhere),
            1 => proptest::option::of(x(1)).prop_map(SCall::AndWhereOption),
            2 => cnd(1).prop_map(SCall::CondWhere),
        ]
        .boxed(),
        5 => prop_oneof![
            colr().prop_map(SCall::GroupByCol),
            proptest::collection::vec(colr(), 0..3).prop_map(SCall::GroupByColumns),
            proptest::collection::vec(x(1), 0..3).prop_map(SCall::AddGroupBy),
        ]
        .boxed(),
        6 => prop_oneof![x(2).prop_map(SCall::AndHaving), cnd(1).prop_map(SCall::CondHaving)].boxed(),
        7 => {
            let un = || proptest::sample::select(vec![Un::Union, Un::All, Un::Intersect, Un::Except]);
            prop_oneof![
                3 => (un(), sub()).prop_map(|(u, s)| SCall::Union(u, s)),
                1 => proptest::collection::vec((un(), sub_leaf()), 0..3).prop_map(SCall::Unions),
            ]
            .boxed()
        }
        8 => prop_oneof![
            2 => (colr(), dir()).prop_map(|(c, d)| SCall::OrderBy(c, d)),
            2 => (x(1), dir()).prop_map(|(x, d)| SCall::OrderByExpr(x, d)),
            1 => (colr(), dir(), any::<bool>()).prop_map(|(c, d, n)| SCall::OrderByWithNulls(c, d, n)),
            1 => (x(1), dir(), any::<bool>()).prop_map(|(x, d, n)| SCall::OrderByExprWithNulls(x, d, n)),
            1 => proptest::collection::vec((small_string(), dir()), 0..3).prop_map(SCall::OrderByCustoms),
            1 => proptest::collection::vec((colr(), dir()), 0..3).prop_map(SCall::OrderByColumns),
            1 => proptest::collection::vec((small_string(), dir(), any::<bool>()), 0..3).prop_map(SCall::OrderByCustomsWithNulls),
            1 => proptest::collection::vec((colr(), dir(), any::<bool>()), 0..3).prop_map(SCall::OrderByColumnsWithNulls),
        ]
        .boxed(),
        9 => (0u64..1000).prop_map(SCall::Limit).boxed(),
        10 => (0u64..1000).prop_map(SCall::Offset).boxed(),
        11 => prop_oneof![
            (0u8..4).prop_map(SCall::Lock),
            (0u8..4, proptest::collection::vec(tref(), 0..3)).prop_map(|(t, ts)| SCall::LockWithTables(t, ts)),
            (0u8..4, any::<bool>()).prop_map(|(t, b)| SCall::LockWithBehavior(t, b)),
            (0u8..4, proptest::collection::vec(tref(), 0..3), any::<bool>()).prop_map(|(t, ts, b)| SCall::LockWithTablesBehavior(t, ts, b)),
            Just(SCall::LockShared),
            Just(SCall::LockExclusive),
        ]
        .boxed(),
        12 => (a(), w()).prop_map(|(n, w)| SCall::Window(n, w)).boxed(),
        13 => with().prop_map(SCall::WithCte).boxed(),
        14 => prop_oneof![
            (a(), 0u8..4).prop_map(|(i, s)| SCall::UseIndex(i, s)),
            (a(), 0u8..4).prop_map(|(i, s)| SCall::ForceIndex(i, s)),
            (a(), 0u8..4).prop_map(|(i, s)| SCall::IgnoreIndex(i, s)),
        ]
        .boxed(),
        _ => (any::<bool>(), 0u32..100, proptest::option::of(0u32..1000)).prop_map(|(b, p, r)| SCall::TableSample(b, p, r)).boxed(),
    }
}

/// fields are drawn uniformly (then a flavour of setter), so that long histories touch many fields
pub fn plain_call() -> BoxedStrategy<SCall> {
    proptest::strategy::Union::new((0..16).map(one_of_field)).boxed()
}

pub fn call() -> BoxedStrategy<SCall> {
    prop_oneof![
        30 => plain_call(),
        1 => plain_call().prop_map(|c| SCall::Apply(Box::new(c))),
        1 => (any::<bool>(), plain_call()).prop_map(|(b, c)| SCall::ApplyIf(b, Box::new(c))),
        1 => (any::<bool>(), plain_call(), plain_call()).prop_map(|(b, c, d)| SCall::Conditions(b, Box::new(c), Box::new(d))),
    ]
    .boxed()
}

// ---------------------------------------------------------------------- bounded-exhaustive family

fn xc(c: u8) -> X {
    X::Col(ColR::Col(c))
}
fn xeq(c: u8, v: i64) -> X {
    X::Bin(2, Box::new(xc(c)), Box::new(X::Int(v)))
}
fn sub1(t: u8) -> Sub {
    Sub { distinct: false, cols: vec![1], from: Some(T::Tbl(t)), wh: Some(Box::new(xeq(2, 5))), order: None, limit: Some(3) }
}
fn w1() -> W {
    W { partition: vec![xc(1)], order: vec![(xc(2), Dir::Desc, Some(true))], frame: Some((true, Fr::Preceding(1), Some(Fr::Following(2)))) }
}
fn cte1() -> Cte {
    Cte { name: 5, cols: vec![1], materialized: Some(true), query: Some(sub1(1)) }
}

/// one call per field of `SelectStatement`, in three flavours
pub fn full_history(variant: u8) -> Vec<SCall> {
    match variant {
        0 => vec![
            SCall::Distinct,
            SCall::Expr(xc(1)),
            SCall::From(T::Tbl(0)),
            SCall::LeftJoin(T::Tbl(1), Cn::X(xeq(0, 1))),
            SCall::AndWhere(xeq(1, 2)),
            SCall::GroupByCol(ColR::Col(2)),
            SCall::AndHaving(xeq(2, 3)),
            SCall::Union(Un::All, sub1(2)),
            SCall::OrderBy(ColR::Col(1), Dir::Asc),
            SCall::Limit(10),
            SCall::Offset(20),
            SCall::LockExclusive,
            SCall::Window(2, w1()),
            SCall::WithCte(With::Single(cte1())),
            SCall::UseIndex(4, 0),
            SCall::TableSample(true, 50, Some(7)),
        ],
        1 => vec![
            SCall::TableSample(false, 10, None),
            SCall::ForceIndex(4, 2),
            SCall::WithCte(With::Clause { recursive: true, ctes: vec![cte1()], search: Some((true, 1)), cycle: Some(2) }),
            SCall::Window(3, W { partition: vec![], order: vec![(xc(3), Dir::Asc, None)], frame: None }),
            SCall::LockWithTablesBehavior(2, vec![T::Tbl(0), T::Sch(0, 1)], true),
            SCall::Offset(1),
            SCall::Limit(2),
            SCall::OrderByExprWithNulls(xeq(3, 1), Dir::Field(vec![1, 2]), false),
            SCall::Unions(vec![(Un::Intersect, sub1(0)), (Un::Except, sub1(1))]),
            SCall::CondHaving(Cnd { any: true, not: true, items: vec![CndItem::X(xeq(1, 1)), CndItem::X(xeq(2, 2))] }),
            SCall::AddGroupBy(vec![xc(1), xc(2)]),
            SCall::CondWhere(Cnd { any: false, not: false, items: vec![CndItem::X(xeq(4, 4)), CndItem::Nested(Cnd { any: true, not: false, items: vec![CndItem::X(xeq(3, 3))] })] }),
            SCall::JoinLateral(Jk::Inner, sub1(2), 3, Cn::C(Cnd { any: false, not: false, items: vec![CndItem::X(xeq(0, 0))] })),
            SCall::FromSubquery(sub1(0), 4),
            SCall::ExprWindowAs(X::Func(1, vec![xc(2)]), w1(), 0),
            SCall::DistinctOn(vec![ColR::Col(1), ColR::TCol(0, 2)]),
        ],
        _ => vec![
            SCall::Columns(vec![ColR::Col(1), ColR::TStar(0)]),
            SCall::DistinctOn(vec![ColR::Col(3)]),
            SCall::FromValues(vec![vec![1, 2], vec![3, 4]], 3),
            SCall::JoinSubquery(Jk::Cross, sub1(1), 4, Cn::X(X::Bool(true))),
            SCall::AndWhere(X::InSub(Box::new(xc(1)), Box::new(sub1(2)))),
            SCall::GroupByColumns(vec![ColR::Col(1), ColR::TCol(1, 2)]),
            SCall::AndHaving(X::Exists(Box::new(sub1(0)))),
            SCall::Union(Un::Union, sub1(1)),
            SCall::OrderByCustoms(vec![("p + 1".into(), Dir::Desc)]),
            SCall::Apply(Box::new(SCall::Limit(5))),
            SCall::Conditions(false, Box::new(SCall::Limit(9)), Box::new(SCall::Offset(6))),
            SCall::LockWithTables(1, vec![T::Tbl(2)]),
            SCall::Window(2, W { partition: vec![xc(4)], order: vec![], frame: Some((false, Fr::UnboundedPreceding, None)) }),
            SCall::WithCte(With::Clause { recursive: false, ctes: vec![cte1(), Cte { name: 4, cols: vec![], materialized: None, query: Some(sub1(0)) }], search: None, cycle: None }),
            SCall::IgnoreIndex(4, 3),
            SCall::TableSample(true, 1, Some(0)),
        ],
    }
}

pub fn family() -> Family<SCall> {
    let tail = vec![
        SCall::Column(ColR::Col(5)),
        SCall::From(T::Tbl(2)),
        SCall::AndWhere(xeq(5, 9)),
        SCall::OrderBy(ColR::Col(5), Dir::Desc),
        SCall::Limit(77),
        SCall::Offset(88),
        SCall::Window(3, w1()),
        SCall::ForceIndex(0, 1),
    ];
    Family::new(vec![full_history(0), full_history(1), full_history(2)], tail, SelectM::CLEARS.len())
}

pub fn run(ctx: &mut Ctx) {
    run_machine::<SelectM>(ctx, &call, family(), 48, 4, Plan { quick: 40_000, thorough: 640_000 });
}

pub fn coverage(labels: &BTreeMap<String, u64>, out: &mut BTreeMap<String, J>, missing: &mut Vec<String>) {
    coverage_of::<SelectM>(labels, out, missing);
}
