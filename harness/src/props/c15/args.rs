//! Argument specs for the C15 call histories: small serialisable descriptions of the values passed to
//! builder methods, their construction through the public API, and proptest strategies.
//!
//! All identifiers come from fixed tables of plain `[a-z0-9_]` names: `Debug` of a `DynIden` prints the
//! raw name, and the per-field `Debug` splitter in `c15.rs` relies on that.

use proptest::prelude::*;
use sea_query::*;
use serde::{Deserialize, Serialize};

pub const COLS: [&str; 6] = ["id", "p", "q", "r", "s", "k"];
pub const TBLS: [&str; 6] = ["t1", "t2", "t3", "a1", "a2", "c1"];
pub const NAMES: [&str; 5] = ["x1", "x2", "w", "w2", "ix1"];

pub fn al(s: &str) -> Alias {
    Alias::new(s)
}
pub fn colname(i: u8) -> Alias {
    al(COLS[i as usize % COLS.len()])
}
pub fn tblname(i: u8) -> Alias {
    al(TBLS[i as usize % TBLS.len()])
}
pub fn name(i: u8) -> Alias {
    al(NAMES[i as usize % NAMES.len()])
}

// ---------------------------------------------------------------------------------- column refs

#[derive(Serialize, Deserialize, Clone, Debug, PartialEq, Eq, Hash)]
pub enum ColR {
    Col(u8),
    TCol(u8, u8),
    STCol(u8, u8, u8),
    Star,
    TStar(u8),
}

impl ColR {
    pub fn build(&self) -> ColumnRef {
        match self {
            ColR::Col(c) => colname(*c).into_column_ref(),
            ColR::TCol(t, c) => (tblname(*t), colname(*c)).into_column_ref(),
            ColR::STCol(s, t, c) => (al(if *s % 2 == 0 { "sch" } else { "sch2" }), tblname(*t), colname(*c)).into_column_ref(),
            ColR::Star => Asterisk.into_column_ref(),
            ColR::TStar(t) => (tblname(*t), Asterisk).into_column_ref(),
        }
    }
}

pub fn colr() -> impl Strategy<Value = ColR> {
    prop_oneof![
        4 => (0u8..6).prop_map(ColR::Col),
        2 => (0u8..6, 0u8..6).prop_map(|(t, c)| ColR::TCol(t, c)),
        1 => (0u8..2, 0u8..6, 0u8..6).prop_map(|(s, t, c)| ColR::STCol(s, t, c)),
        1 => Just(ColR::Star),
        1 => (0u8..6).prop_map(ColR::TStar),
    ]
}

// ---------------------------------------------------------------------------------- table refs

#[derive(Serialize, Deserialize, Clone, Debug, PartialEq, Eq, Hash)]
pub enum T {
    Tbl(u8),
    Sch(u8, u8),
    Db(u8, u8, u8),
    /// table with alias (`TableRef::alias`)
    Aliased(u8, u8),
}

impl T {
    pub fn build(&self) -> TableRef {
        let sch = |s: u8| al(if s % 2 == 0 { "sch" } else { "sch2" });
        match self {
            T::Tbl(t) => tblname(*t).into_table_ref(),
            T::Sch(s, t) => (sch(*s), tblname(*t)).into_table_ref(),
            T::Db(d, s, t) => (al(if *d % 2 == 0 { "db" } else { "db2" }), sch(*s), tblname(*t)).into_table_ref(),
            T::Aliased(t, a) => tblname(*t).into_table_ref().alias(tblname(*a)),
        }
    }
}

pub fn tref() -> impl Strategy<Value = T> {
    prop_oneof![
        5 => (0u8..6).prop_map(T::Tbl),
        2 => (0u8..2, 0u8..6).prop_map(|(s, t)| T::Sch(s, t)),
        1 => (0u8..2, 0u8..2, 0u8..6).prop_map(|(d, s, t)| T::Db(d, s, t)),
        2 => (0u8..6, 0u8..6).prop_map(|(t, a)| T::Aliased(t, a)),
    ]
}

// ---------------------------------------------------------------------------------- expressions

/// A small sub-select used as an argument (sub-query, union arm, CTE body).
#[derive(Serialize, Deserialize, Clone, Debug, PartialEq, Eq, Hash)]
pub struct Sub {
    pub distinct: bool,
    pub cols: Vec<u8>,
    pub from: Option<T>,
    pub wh: Option<Box<X>>,
    pub order: Option<u8>,
    pub limit: Option<u64>,
}

impl Sub {
    pub fn build(&self) -> SelectStatement {
        let mut q = Query::select();
        if self.distinct {
            q.distinct();
        }
        for c in &self.cols {
            q.column(colname(*c));
        }
        if let Some(t) = &self.from {
            q.from(t.build());
        }
        if let Some(w) = &self.wh {
            q.and_where(w.build());
        }
        if let Some(o) = self.order {
            q.order_by(colname(o), Order::Desc);
        }
        if let Some(l) = self.limit {
            q.limit(l);
        }
        q.take()
    }
}

#[derive(Serialize, Deserialize, Clone, Debug, PartialEq, Eq, Hash)]
pub enum X {
    Col(ColR),
    Int(i64),
    Str(String),
    Null,
    Bool(bool),
    /// binary operator by index into `BINOPS`
    Bin(u8, Box<X>, Box<X>),
    Not(Box<X>),
    IsNull(Box<X>),
    /// function by index: max, sum, coalesce(args), custom name
    Func(u8, Vec<X>),
    Tuple(Vec<X>),
    InSub(Box<X>, Box<Sub>),
    Exists(Box<Sub>),
    SubQ(Box<Sub>),
    Case(Box<X>, Box<X>, Box<X>),
    Cust(String),
    CustVals(Vec<i64>),
    AsEnum(u8, Box<X>),
    Cast(Box<X>, u8),
}

pub const BINOPS: [BinOper; 10] = [
    BinOper::And,
    BinOper::Or,
    BinOper::Equal,
    BinOper::NotEqual,
    BinOper::SmallerThan,
    BinOper::GreaterThanOrEqual,
    BinOper::Add,
    BinOper::Mul,
    BinOper::Like,
    BinOper::Custom("<=>"),
];

impl X {
    pub fn build(&self) -> SimpleExpr {
        match self {
            X::Col(c) => SimpleExpr::Column(c.build()),
            X::Int(i) => Expr::val(*i).into(),
            X::Str(s) => Expr::val(s.as_str()).into(),
            X::Null => Expr::val(Value::Int(None)).into(),
            X::Bool(b) => Expr::val(*b).into(),
            X::Bin(op, a, b) => a.build().binary(BINOPS[*op as usize % BINOPS.len()], b.build()),
            X::Not(a) => a.build().not(),
            X::IsNull(a) => Expr::expr(a.build()).is_null(),
            X::Func(f, args) => {
                let first = args.first().map(|a| a.build()).unwrap_or_else(|| Expr::val(1).into());
                match f % 4 {
                    0 => Func::max(first).into(),
                    1 => Func::sum(first).into(),
                    2 => Func::coalesce(args.iter().map(|a| a.build()).collect::<Vec<_>>()).into(),
                    _ => Func::cust(al("my_fn")).args(args.iter().map(|a| a.build())).into(),
                }
            }
            X::Tuple(v) => Expr::tuple(v.iter().map(|a| a.build())).into(),
            X::InSub(a, s) => Expr::expr(a.build()).in_subquery(s.build()),
            X::Exists(s) => Expr::exists(s.build()),
            X::SubQ(s) => SimpleExpr::SubQuery(None, Box::new(s.build().into_sub_query_statement())),
            X::Case(c, t, e) => Expr::case(Condition::all().add(c.build()), t.build()).finally(e.build()).into(),
            X::Cust(s) => Expr::cust(s.as_str()),
            X::CustVals(v) => Expr::cust_with_values(
                v.iter().map(|_| "?").collect::<Vec<_>>().join(" + "),
                v.iter().map(|i| Value::BigInt(Some(*i))).collect::<Vec<_>>(),
            ),
            X::AsEnum(n, a) => Expr::expr(a.build()).as_enum(name(*n)),
            X::Cast(a, n) => a.build().cast_as(name(*n)),
        }
    }
}

/// strings that stress the `Debug` splitter (quotes, braces, commas) but stay short
pub fn small_string() -> impl Strategy<Value = String> {
    prop_oneof![
        3 => "[a-z]{0,5}",
        1 => proptest::collection::vec(proptest::sample::select(vec!['a', 'b', ' ', '\'', '"', '\\', '{', '}', '[', ']', '(', ')', ',', ':', '?', '$', '%']), 0..6)
            .prop_map(|v| v.into_iter().collect::<String>()),
    ]
}

pub fn sub_leaf() -> impl Strategy<Value = Sub> {
    (
        any::<bool>(),
        proptest::collection::vec(0u8..6, 0..3),
        proptest::option::weighted(0.8, tref()),
        proptest::option::weighted(0.4, x_leaf().prop_map(Box::new)),
        proptest::option::weighted(0.2, 0u8..6),
        proptest::option::weighted(0.3, 0u64..50),
    )
        .prop_map(|(distinct, cols, from, wh, order, limit)| Sub { distinct, cols, from, wh, order, limit })
}

pub fn x_leaf() -> impl Strategy<Value = X> {
    prop_oneof![
        5 => colr().prop_map(X::Col),
        3 => (-5i64..100).prop_map(X::Int),
        2 => small_string().prop_map(X::Str),
        1 => Just(X::Null),
        1 => any::<bool>().prop_map(X::Bool),
        1 => small_string().prop_map(X::Cust),
        1 => proptest::collection::vec(0i64..9, 0..3).prop_map(X::CustVals),
    ]
}

pub fn x(depth: u32) -> BoxedStrategy<X> {
    if depth == 0 {
        return x_leaf().boxed();
    }
    let inner = x(depth - 1);
    prop_oneof![
        6 => x_leaf(),
        4 => (0u8..10, inner.clone(), inner.clone()).prop_map(|(o, a, b)| X::Bin(o, Box::new(a), Box::new(b))),
        1 => inner.clone().prop_map(|a| X::Not(Box::new(a))),
        1 => inner.clone().prop_map(|a| X::IsNull(Box::new(a))),
        2 => (0u8..4, proptest::collection::vec(inner.clone(), 0..3)).prop_map(|(f, a)| X::Func(f, a)),
        1 => proptest::collection::vec(inner.clone(), 1..3).prop_map(X::Tuple),
        2 => (inner.clone(), sub_leaf()).prop_map(|(a, s)| X::InSub(Box::new(a), Box::new(s))),
        1 => sub_leaf().prop_map(|s| X::Exists(Box::new(s))),
        1 => sub_leaf().prop_map(|s| X::SubQ(Box::new(s))),
        1 => (inner.clone(), inner.clone(), inner.clone()).prop_map(|(a, b, c)| X::Case(Box::new(a), Box::new(b), Box::new(c))),
        1 => (0u8..5, inner.clone()).prop_map(|(n, a)| X::AsEnum(n, Box::new(a))),
        1 => (inner.clone(), 0u8..5).prop_map(|(a, n)| X::Cast(Box::new(a), n)),
    ]
    .boxed()
}

pub fn sub() -> impl Strategy<Value = Sub> {
    (
        any::<bool>(),
        proptest::collection::vec(0u8..6, 0..3),
        proptest::option::weighted(0.8, tref()),
        proptest::option::weighted(0.4, x(1).prop_map(Box::new)),
        proptest::option::weighted(0.2, 0u8..6),
        proptest::option::weighted(0.3, 0u64..50),
    )
        .prop_map(|(distinct, cols, from, wh, order, limit)| Sub { distinct, cols, from, wh, order, limit })
}

// ---------------------------------------------------------------------------------- conditions

#[derive(Serialize, Deserialize, Clone, Debug, PartialEq, Eq, Hash)]
pub enum CndItem {
    X(X),
    Nested(Cnd),
}

#[derive(Serialize, Deserialize, Clone, Debug, PartialEq, Eq, Hash)]
pub struct Cnd {
    pub any: bool,
    pub not: bool,
    pub items: Vec<CndItem>,
}

impl Cnd {
    pub fn build(&self) -> Condition {
        let mut c = if self.any { Condition::any() } else { Condition::all() };
        for it in &self.items {
            c = match it {
                CndItem::X(x) => c.add(x.build()),
                CndItem::Nested(n) => c.add(n.build()),
            };
        }
        if self.not {
            c = c.not();
        }
        c
    }
}

pub fn cnd(depth: u32) -> BoxedStrategy<Cnd> {
    let item: BoxedStrategy<CndItem> = if depth == 0 {
        x(1).prop_map(CndItem::X).boxed()
    } else {
        prop_oneof![3 => x(1).prop_map(CndItem::X), 1 => cnd(depth - 1).prop_map(CndItem::Nested)].boxed()
    };
    (any::<bool>(), proptest::bool::weighted(0.2), proptest::collection::vec(item, 0..3)).prop_map(|(any, not, items)| Cnd { any, not, items }).boxed()
}

/// a join / filter condition argument: either a plain expression or a condition tree
#[derive(Serialize, Deserialize, Clone, Debug, PartialEq, Eq, Hash)]
pub enum Cn {
    X(X),
    C(Cnd),
}

impl Cn {
    pub fn build(&self) -> Condition {
        match self {
            Cn::X(x) => x.build().into_condition(),
            Cn::C(c) => c.build().into_condition(),
        }
    }
}

pub fn cn() -> impl Strategy<Value = Cn> {
    prop_oneof![2 => x(1).prop_map(Cn::X), 1 => cnd(1).prop_map(Cn::C)]
}

// ---------------------------------------------------------------------------------- ordering, windows

#[derive(Serialize, Deserialize, Clone, Debug, PartialEq, Eq, Hash)]
pub enum Dir {
    Asc,
    Desc,
    Field(Vec<i64>),
}

impl Dir {
    pub fn build(&self) -> Order {
        match self {
            Dir::Asc => Order::Asc,
            Dir::Desc => Order::Desc,
            Dir::Field(v) => Order::Field(Values(v.iter().map(|x| Value::BigInt(Some(*x))).collect())),
        }
    }
}

pub fn dir() -> impl Strategy<Value = Dir> {
    prop_oneof![3 => Just(Dir::Asc), 3 => Just(Dir::Desc), 1 => proptest::collection::vec(0i64..9, 1..3).prop_map(Dir::Field)]
}

pub fn nulls(first: bool) -> NullOrdering {
    if first {
        NullOrdering::First
    } else {
        NullOrdering::Last
    }
}

#[derive(Serialize, Deserialize, Clone, Copy, Debug, PartialEq, Eq, Hash)]
pub enum Fr {
    UnboundedPreceding,
    Preceding(u32),
    CurrentRow,
    Following(u32),
    UnboundedFollowing,
}

impl Fr {
    pub fn build(self) -> Frame {
        match self {
            Fr::UnboundedPreceding => Frame::UnboundedPreceding,
            Fr::Preceding(n) => Frame::Preceding(n),
            Fr::CurrentRow => Frame::CurrentRow,
            Fr::Following(n) => Frame::Following(n),
            Fr::UnboundedFollowing => Frame::UnboundedFollowing,
        }
    }
}

pub fn fr() -> impl Strategy<Value = Fr> {
    prop_oneof![
        Just(Fr::UnboundedPreceding),
        (0u32..5).prop_map(Fr::Preceding),
        Just(Fr::CurrentRow),
        (0u32..5).prop_map(Fr::Following),
        Just(Fr::UnboundedFollowing),
    ]
}

pub fn frame_type(rows: bool) -> FrameType {
    if rows {
        FrameType::Rows
    } else {
        FrameType::Range
    }
}

/// an order item: expression, direction, optional NULLS FIRST(true)/LAST(false)
pub type Ord3 = (X, Dir, Option<bool>);

/// A window specification given as an argument (built through `WindowStatement`'s own builder calls).
#[derive(Serialize, Deserialize, Clone, Debug, PartialEq, Eq, Hash)]
pub struct W {
    pub partition: Vec<X>,
    pub order: Vec<Ord3>,
    pub frame: Option<(bool, Fr, Option<Fr>)>,
}

impl W {
    pub fn build(&self) -> WindowStatement {
        let mut w = WindowStatement::new();
        for p in &self.partition {
            w.add_partition_by(p.build());
        }
        for (e, d, n) in &self.order {
            match n {
                None => w.order_by_expr(e.build(), d.build()),
                Some(f) => w.order_by_expr_with_nulls(e.build(), d.build(), nulls(*f)),
            };
        }
        if let Some((rows, s, e)) = &self.frame {
            w.frame(frame_type(*rows), s.build(), e.map(|e| e.build()));
        }
        w
    }
}

pub fn ord3() -> impl Strategy<Value = Ord3> {
    (x(1), dir(), proptest::option::weighted(0.3, any::<bool>()))
}

pub fn w() -> impl Strategy<Value = W> {
    (
        proptest::collection::vec(x(1), 0..3),
        proptest::collection::vec(ord3(), 0..3),
        proptest::option::weighted(0.5, (any::<bool>(), fr(), proptest::option::weighted(0.5, fr()))),
    )
        .prop_map(|(partition, order, frame)| W { partition, order, frame })
}

// ---------------------------------------------------------------------------------- WITH clauses

#[derive(Serialize, Deserialize, Clone, Debug, PartialEq, Eq, Hash)]
pub struct Cte {
    pub name: u8,
    pub cols: Vec<u8>,
    pub materialized: Option<bool>,
    pub query: Option<Sub>,
}

impl Cte {
    pub fn build(&self) -> CommonTableExpression {
        let mut c = CommonTableExpression::new();
        c.table_name(tblname(self.name));
        for col in &self.cols {
            c.column(colname(*col));
        }
        if let Some(m) = self.materialized {
            c.materialized(m);
        }
        if let Some(q) = &self.query {
            c.query(q.build());
        }
        c
    }
}

#[derive(Serialize, Deserialize, Clone, Debug, PartialEq, Eq, Hash)]
pub enum With {
    /// `with_cte(CommonTableExpression)` (through `From<CommonTableExpression> for WithClause`)
    Single(Cte),
    Clause { recursive: bool, ctes: Vec<Cte>, search: Option<(bool, u8)>, cycle: Option<u8> },
}

impl With {
    pub fn build(&self) -> WithClause {
        match self {
            With::Single(c) => c.build().into(),
            With::Clause { recursive, ctes, search, cycle } => {
                let mut wc = WithClause::new();
                wc.recursive(*recursive);
                for c in ctes {
                    wc.cte(c.build());
                }
                if let Some((breadth, col)) = search {
                    wc.search(Search::new_from_order_and_expr(
                        if *breadth { SearchOrder::BREADTH } else { SearchOrder::DEPTH },
                        SelectExpr { expr: Expr::col(colname(*col)).into(), alias: Some(al("ordcol").into_iden()), window: None },
                    ));
                }
                if let Some(col) = cycle {
                    wc.cycle(Cycle::new_from_expr_set_using(Expr::col(colname(*col)), al("is_cycle"), al("path")));
                }
                wc
            }
        }
    }
}

pub fn cte() -> impl Strategy<Value = Cte> {
    (0u8..6, proptest::collection::vec(0u8..6, 0..3), proptest::option::weighted(0.3, any::<bool>()), proptest::option::weighted(0.9, sub_leaf()))
        .prop_map(|(name, cols, materialized, query)| Cte { name, cols, materialized, query })
}

pub fn with() -> impl Strategy<Value = With> {
    prop_oneof![
        1 => cte().prop_map(With::Single),
        2 => (
            any::<bool>(),
            proptest::collection::vec(cte(), 0..3),
            proptest::option::weighted(0.2, (any::<bool>(), 0u8..6)),
            proptest::option::weighted(0.2, 0u8..6)
        )
            .prop_map(|(recursive, ctes, search, cycle)| With::Clause { recursive, ctes, search, cycle }),
    ]
}
