//! Call histories for the other builders having `take()` and `Clone`: `WindowStatement`, `ColumnDef`,
//! `Table{Create,Alter,Drop,Rename,Truncate}Statement`, `IndexCreateStatement`, `ForeignKeyCreateStatement`,
//! `TableForeignKey`, `TableIndex`. Only `WindowStatement` has `PartialEq`; the others are compared by
//! `Debug` text, getters and renderings.

use super::args::*;
use super::select::render_select;
use super::*;
use sea_query::*;

fn schema_renders<S>(to_string: impl Fn(Dialect, &S) -> String, build: impl Fn(Dialect, &S) -> String, s: &S) -> Vec<(String, String)> {
    let mut v = vec![];
    for d in DIALECTS {
        v.push((format!("to_string/{}", d.name()), outcome(|| to_string(d, s))));
        v.push((format!("build/{}", d.name()), outcome(|| build(d, s))));
    }
    v
}

macro_rules! schema_render_fn {
    ($s:expr) => {
        schema_renders(|d, s| crate::with_backend!(d, b => s.to_string(b)), |d, s| crate::with_backend!(d, b => s.build(b)), $s)
    };
}

// =================================================================================== WindowStatement

#[derive(Serialize, Deserialize, Clone, Debug, PartialEq, Eq, Hash)]
pub enum WCall {
    /// `WindowStatement::partition_by(col)` (constructor)
    NewPartitionBy(ColR),
    /// `WindowStatement::partition_by_custom(s)` (constructor)
    NewPartitionByCustom(String),
    PartitionBy(ColR),
    PartitionByCustoms(Vec<String>),
    PartitionByColumns(Vec<ColR>),
    AddPartitionBy(X),
    OrderBy(ColR, Dir),
    OrderByExpr(X, Dir),
    OrderByWithNulls(ColR, Dir, bool),
    OrderByExprWithNulls(X, Dir, bool),
    OrderByCustoms(Vec<(String, Dir)>),
    OrderByColumns(Vec<(ColR, Dir)>),
    OrderByCustomsWithNulls(Vec<(String, Dir, bool)>),
    OrderByColumnsWithNulls(Vec<(ColR, Dir, bool)>),
    Frame(bool, Fr, Option<Fr>),
    FrameStart(bool, Fr),
    FrameBetween(bool, Fr, Fr),
}

pub struct WindowM {
    w: WindowStatement,
}

impl Machine for WindowM {
    type S = WindowStatement;
    type Call = WCall;
    const NAME: &'static str = "window";
    const CLEARS: &'static [(&'static str, &'static str)] = &[("clear_order_by", "order_by")];
    const LEFTOVER_NEW: bool = true;
    fn new() -> Self {
        WindowM { w: WindowStatement::new() }
    }
    fn stmt(&self) -> &WindowStatement {
        &self.w
    }
    fn stmt_mut(&mut self) -> &mut WindowStatement {
        &mut self.w
    }
    fn is_ctor(c: &WCall) -> bool {
        matches!(c, WCall::NewPartitionBy(_) | WCall::NewPartitionByCustom(_))
    }
    fn apply(&mut self, c: &WCall) {
        let w = &mut self.w;
        match c {
            WCall::NewPartitionBy(c) => *w = WindowStatement::partition_by(c.build()),
            WCall::NewPartitionByCustom(s) => *w = WindowStatement::partition_by_custom(s.as_str()),
            WCall::PartitionBy(c) => {
                OverStatement::partition_by(w, c.build());
            }
            WCall::PartitionByCustoms(v) => {
                w.partition_by_customs(v.iter().map(|s| s.as_str()));
            }
            WCall::PartitionByColumns(v) => {
                w.partition_by_columns(v.iter().map(|c| c.build()));
            }
            WCall::AddPartitionBy(x) => {
                w.add_partition_by(x.build());
            }
            WCall::OrderBy(c, d) => {
                w.order_by(c.build(), d.build());
            }
            WCall::OrderByExpr(x, d) => {
                w.order_by_expr(x.build(), d.build());
            }
            WCall::OrderByWithNulls(c, d, n) => {
                w.order_by_with_nulls(c.build(), d.build(), nulls(*n));
            }
            WCall::OrderByExprWithNulls(x, d, n) => {
                w.order_by_expr_with_nulls(x.build(), d.build(), nulls(*n));
            }
            WCall::OrderByCustoms(v) => {
                w.order_by_customs(v.iter().map(|(s, d)| (s.clone(), d.build())).collect::<Vec<_>>());
            }
            WCall::OrderByColumns(v) => {
                w.order_by_columns(v.iter().map(|(c, d)| (c.build(), d.build())).collect::<Vec<_>>());
            }
            WCall::OrderByCustomsWithNulls(v) => {
                w.order_by_customs_with_nulls(v.iter().map(|(s, d, n)| (s.clone(), d.build(), nulls(*n))).collect::<Vec<_>>());
            }
            WCall::OrderByColumnsWithNulls(v) => {
                w.order_by_columns_with_nulls(v.iter().map(|(c, d, n)| (c.build(), d.build(), nulls(*n))).collect::<Vec<_>>());
            }
            WCall::Frame(r, s, e) => {
                w.frame(frame_type(*r), s.build(), e.map(|e| e.build()));
            }
            WCall::FrameStart(r, s) => {
                w.frame_start(frame_type(*r), s.build());
            }
            WCall::FrameBetween(r, s, e) => {
                w.frame_between(frame_type(*r), s.build(), e.build());
            }
        }
    }
    fn take(&mut self) -> WindowStatement {
        self.w.take()
    }
    fn to_owned_via_ref(s: &mut WindowStatement) -> WindowStatement {
        let r: &mut WindowStatement = s;
        r.to_owned()
    }
    fn clear(&mut self, _op: usize) {
        self.w.clear_order_by();
    }
    fn field_of(c: &WCall) -> &'static str {
        use WCall::*;
        match c {
            NewPartitionBy(_) | NewPartitionByCustom(_) | PartitionBy(_) | PartitionByCustoms(_) | PartitionByColumns(_) | AddPartitionBy(_) => "partition_by",
            Frame(..) | FrameStart(..) | FrameBetween(..) => "frame",
            _ => "order_by",
        }
    }
    fn eq(a: &WindowStatement, b: &WindowStatement) -> Option<bool> {
        Some(a == b && b == a)
    }
    fn renders(s: &WindowStatement) -> Vec<(String, String)> {
        let mut v = vec![];
        let mut q = Query::select();
        q.expr_window(Expr::col(al("v")), s.clone()).from(al("t1"));
        for (k, t) in render_select(&q) {
            v.push((format!("inline-over/{k}"), t));
        }
        let mut q = Query::select();
        q.expr_window_name(Expr::col(al("v")), al("w")).from(al("t1")).window(al("w"), s.clone());
        for (k, t) in render_select(&q) {
            v.push((format!("named-window/{k}"), t));
        }
        v
    }
}

fn w_call() -> BoxedStrategy<WCall> {
    prop_oneof![
        // partition_by
        1 => colr().prop_map(WCall::NewPartitionBy),
        1 => small_string().prop_map(WCall::NewPartitionByCustom),
        2 => colr().prop_map(WCall::PartitionBy),
        1 => proptest::collection::vec(small_string(), 0..3).prop_map(WCall::PartitionByCustoms),
        1 => proptest::collection::vec(colr(), 0..3).prop_map(WCall::PartitionByColumns),
        2 => x(2).prop_map(WCall::AddPartitionBy),
        // order_by
        1 => (colr(), dir()).prop_map(|(c, d)| WCall::OrderBy(c, d)),
        1 => (x(2), dir()).prop_map(|(x, d)| WCall::OrderByExpr(x, d)),
        1 => (colr(), dir(), any::<bool>()).prop_map(|(c, d, n)| WCall::OrderByWithNulls(c, d, n)),
        1 => (x(1), dir(), any::<bool>()).prop_map(|(x, d, n)| WCall::OrderByExprWithNulls(x, d, n)),
        1 => proptest::collection::vec((small_string(), dir()), 0..3).prop_map(WCall::OrderByCustoms),
        1 => proptest::collection::vec((colr(), dir()), 0..3).prop_map(WCall::OrderByColumns),
        1 => proptest::collection::vec((small_string(), dir(), any::<bool>()), 0..3).prop_map(WCall::OrderByCustomsWithNulls),
        1 => proptest::collection::vec((colr(), dir(), any::<bool>()), 0..3).prop_map(WCall::OrderByColumnsWithNulls),
        // frame
        2 => (any::<bool>(), fr(), proptest::option::of(fr())).prop_map(|(r, s, e)| WCall::Frame(r, s, e)),
        2 => (any::<bool>(), fr()).prop_map(|(r, s)| WCall::FrameStart(r, s)),
        2 => (any::<bool>(), fr(), fr()).prop_map(|(r, s, e)| WCall::FrameBetween(r, s, e)),
    ]
    .boxed()
}

fn xc(c: u8) -> X {
    X::Col(ColR::Col(c))
}
fn xeq(c: u8, v: i64) -> X {
    X::Bin(2, Box::new(xc(c)), Box::new(X::Int(v)))
}

fn w_family() -> Family<WCall> {
    Family::new(
        vec![
            vec![WCall::PartitionBy(ColR::Col(1)), WCall::OrderBy(ColR::Col(2), Dir::Desc), WCall::FrameBetween(true, Fr::Preceding(1), Fr::CurrentRow)],
            vec![WCall::FrameStart(false, Fr::UnboundedPreceding), WCall::OrderByExprWithNulls(xeq(1, 2), Dir::Asc, true), WCall::OrderBy(ColR::Col(3), Dir::Asc), WCall::AddPartitionBy(xeq(3, 4)), WCall::PartitionByCustoms(vec!["a".into(), "b".into()])],
            vec![WCall::NewPartitionBy(ColR::TCol(0, 1)), WCall::OrderByCustoms(vec![("x".into(), Dir::Asc)]), WCall::Frame(true, Fr::CurrentRow, None)],
        ],
        vec![WCall::PartitionBy(ColR::Col(5)), WCall::OrderBy(ColR::Col(5), Dir::Asc), WCall::FrameStart(true, Fr::Following(3))],
        1,
    )
}

// ========================================================================================= ColumnDef

#[derive(Serialize, Deserialize, Clone, Debug, PartialEq, Eq, Hash)]
pub enum Ty {
    Char(Option<u32>),
    String(Option<u32>),
    Text,
    TinyInteger,
    SmallInteger,
    Integer,
    BigInteger,
    TinyUnsigned,
    SmallUnsigned,
    Unsigned,
    BigUnsigned,
    Float,
    Double,
    Decimal(Option<(u32, u32)>),
    DateTime,
    Timestamp,
    TimestampWithTimeZone,
    Time,
    Date,
    Year,
    Interval(Option<u8>, Option<u32>),
    Binary(Option<u32>),
    VarBinary(u32),
    Bit(Option<u32>),
    VarBit(u32),
    Blob,
    Boolean,
    Money(Option<(u32, u32)>),
    Json,
    JsonBinary,
    Uuid,
    Custom(u8),
    Enum(u8, Vec<u8>),
    Array(Box<Ty>),
    Vector(Option<u32>),
    Cidr,
    Inet,
    MacAddr,
    LTree,
}

fn pg_interval(i: u8) -> PgInterval {
    [PgInterval::Year, PgInterval::Month, PgInterval::Day, PgInterval::Hour, PgInterval::DayToSecond, PgInterval::MinuteToSecond][i as usize % 6].clone()
}

impl Ty {
    /// through the dedicated `ColumnDef` setter
    pub fn set(&self, c: &mut ColumnDef) {
        match self {
            Ty::Char(None) => c.char(),
            Ty::Char(Some(n)) => c.char_len(*n),
            Ty::String(None) => c.string(),
            Ty::String(Some(n)) => c.string_len(*n),
            Ty::Text => c.text(),
            Ty::TinyInteger => c.tiny_integer(),
            Ty::SmallInteger => c.small_integer(),
            Ty::Integer => c.integer(),
            Ty::BigInteger => c.big_integer(),
            Ty::TinyUnsigned => c.tiny_unsigned(),
            Ty::SmallUnsigned => c.small_unsigned(),
            Ty::Unsigned => c.unsigned(),
            Ty::BigUnsigned => c.big_unsigned(),
            Ty::Float => c.float(),
            Ty::Double => c.double(),
            Ty::Decimal(None) => c.decimal(),
            Ty::Decimal(Some((p, s))) => c.decimal_len(*p, *s),
            Ty::DateTime => c.date_time(),
            Ty::Timestamp => c.timestamp(),
            Ty::TimestampWithTimeZone => c.timestamp_with_time_zone(),
            Ty::Time => c.time(),
            Ty::Date => c.date(),
            Ty::Year => c.year(),
            Ty::Interval(f, p) => c.interval(f.map(pg_interval), *p),
            Ty::Binary(None) => c.binary(),
            Ty::Binary(Some(n)) => c.binary_len(*n),
            Ty::VarBinary(n) => c.var_binary(*n),
            Ty::Bit(n) => c.bit(*n),
            Ty::VarBit(n) => c.varbit(*n),
            Ty::Blob => c.blob(),
            Ty::Boolean => c.boolean(),
            Ty::Money(None) => c.money(),
            Ty::Money(Some((p, s))) => c.money_len(*p, *s),
            Ty::Json => c.json(),
            Ty::JsonBinary => c.json_binary(),
            Ty::Uuid => c.uuid(),
            Ty::Custom(n) => c.custom(name(*n)),
            Ty::Enum(n, vs) => c.enumeration(name(*n), vs.iter().map(|v| colname(*v))),
            Ty::Array(t) => c.array(t.build()),
            Ty::Vector(n) => c.vector(*n),
            Ty::Cidr => c.cidr(),
            Ty::Inet => c.inet(),
            Ty::MacAddr => c.mac_address(),
            Ty::LTree => c.ltree(),
        };
    }
    pub fn build(&self) -> ColumnType {
        match self {
            Ty::Char(n) => ColumnType::Char(*n),
            Ty::String(n) => ColumnType::string(*n),
            Ty::Text => ColumnType::Text,
            Ty::TinyInteger => ColumnType::TinyInteger,
            Ty::SmallInteger => ColumnType::SmallInteger,
            Ty::Integer => ColumnType::Integer,
            Ty::BigInteger => ColumnType::BigInteger,
            Ty::TinyUnsigned => ColumnType::TinyUnsigned,
            Ty::SmallUnsigned => ColumnType::SmallUnsigned,
            Ty::Unsigned => ColumnType::Unsigned,
            Ty::BigUnsigned => ColumnType::BigUnsigned,
            Ty::Float => ColumnType::Float,
            Ty::Double => ColumnType::Double,
            Ty::Decimal(p) => ColumnType::Decimal(*p),
            Ty::DateTime => ColumnType::DateTime,
            Ty::Timestamp => ColumnType::Timestamp,
            Ty::TimestampWithTimeZone => ColumnType::TimestampWithTimeZone,
            Ty::Time => ColumnType::Time,
            Ty::Date => ColumnType::Date,
            Ty::Year => ColumnType::Year,
            Ty::Interval(f, p) => ColumnType::Interval(f.map(pg_interval), *p),
            Ty::Binary(n) => ColumnType::Binary(n.unwrap_or(1)),
            Ty::VarBinary(n) => ColumnType::var_binary(*n),
            Ty::Bit(n) => ColumnType::Bit(*n),
            Ty::VarBit(n) => ColumnType::VarBit(*n),
            Ty::Blob => ColumnType::Blob,
            Ty::Boolean => ColumnType::Boolean,
            Ty::Money(p) => ColumnType::Money(*p),
            Ty::Json => ColumnType::Json,
            Ty::JsonBinary => ColumnType::JsonBinary,
            Ty::Uuid => ColumnType::Uuid,
            Ty::Custom(n) => ColumnType::Custom(name(*n).into_iden()),
            Ty::Enum(n, vs) => ColumnType::Enum { name: name(*n).into_iden(), variants: vs.iter().map(|v| colname(*v).into_iden()).collect() },
            Ty::Array(t) => ColumnType::Array(RcOrArc::new(t.build())),
            Ty::Vector(n) => ColumnType::Vector(*n),
            Ty::Cidr => ColumnType::Cidr,
            Ty::Inet => ColumnType::Inet,
            Ty::MacAddr => ColumnType::MacAddr,
            Ty::LTree => ColumnType::LTree,
        }
    }
}

fn ty_leaf() -> BoxedStrategy<Ty> {
    let n = || proptest::option::of(1u32..64);
    let ps = || proptest::option::of((1u32..20, 0u32..6));
    prop_oneof![
        n().prop_map(Ty::Char),
        n().prop_map(Ty::String),
        proptest::sample::select(vec![
            Ty::Text,
            Ty::TinyInteger,
            Ty::SmallInteger,
            Ty::Integer,
            Ty::BigInteger,
            Ty::TinyUnsigned,
            Ty::SmallUnsigned,
            Ty::Unsigned,
            Ty::BigUnsigned,
            Ty::Float,
            Ty::Double,
            Ty::DateTime,
            Ty::Timestamp,
            Ty::TimestampWithTimeZone,
            Ty::Time,
            Ty::Date,
            Ty::Year,
            Ty::Blob,
            Ty::Boolean,
            Ty::Json,
            Ty::JsonBinary,
            Ty::Uuid,
            Ty::Cidr,
            Ty::Inet,
            Ty::MacAddr,
            Ty::LTree,
        ]),
        ps().prop_map(Ty::Decimal),
        (proptest::option::of(0u8..6), proptest::option::of(0u32..7)).prop_map(|(f, p)| Ty::Interval(f, p)),
        n().prop_map(Ty::Binary),
        (1u32..64).prop_map(Ty::VarBinary),
        n().prop_map(Ty::Bit),
        (1u32..64).prop_map(Ty::VarBit),
        ps().prop_map(Ty::Money),
        (0u8..5).prop_map(Ty::Custom),
        (0u8..5, proptest::collection::vec(0u8..6, 0..3)).prop_map(|(n, v)| Ty::Enum(n, v)),
        n().prop_map(Ty::Vector),
    ]
    .boxed()
}

fn ty() -> BoxedStrategy<Ty> {
    prop_oneof![
        8 => ty_leaf(),
        1 => ty_leaf().prop_map(|t| Ty::Array(Box::new(t))),
        1 => ty_leaf().prop_map(|t| Ty::Array(Box::new(Ty::Array(Box::new(t))))),
    ]
    .boxed()
}

#[derive(Serialize, Deserialize, Clone, Debug, PartialEq, Eq, Hash)]
pub enum CCall {
    /// `ColumnDef::new(name)` (constructor)
    New(u8),
    /// `ColumnDef::new_with_type(name, type)` (constructor)
    NewWithType(u8, Ty),
    Type(Ty),
    NotNull,
    Null,
    Default(X),
    AutoIncrement,
    UniqueKey,
    PrimaryKey,
    Check(X),
    Generated(X, bool),
    Extra(String),
    Using(X),
    Comment(String),
    /// the only public route to the `table` field: `Table::create().table(t).col(def)`, read back with `get_columns()`
    ViaTable(T),
}

pub fn apply_ccall(cd: &mut ColumnDef, c: &CCall) {
    match c {
        CCall::New(n) => *cd = ColumnDef::new(colname(*n)),
        CCall::NewWithType(n, t) => *cd = ColumnDef::new_with_type(colname(*n), t.build()),
        CCall::Type(t) => t.set(cd),
        CCall::NotNull => {
            cd.not_null();
        }
        CCall::Null => {
            cd.null();
        }
        CCall::Default(x) => {
            cd.default(x.build());
        }
        CCall::AutoIncrement => {
            cd.auto_increment();
        }
        CCall::UniqueKey => {
            cd.unique_key();
        }
        CCall::PrimaryKey => {
            cd.primary_key();
        }
        CCall::Check(x) => {
            cd.check(x.build());
        }
        CCall::Generated(x, s) => {
            cd.generated(x.build(), *s);
        }
        CCall::Extra(s) => {
            cd.extra(s.as_str());
        }
        CCall::Using(x) => {
            cd.using(x.build());
        }
        CCall::Comment(s) => {
            cd.comment(s.as_str());
        }
        CCall::ViaTable(t) => {
            let owned = std::mem::replace(cd, ColumnDef::new(al("tmp")));
            let mut tc = Table::create();
            tc.table(t.build()).col(owned);
            *cd = tc.get_columns()[0].clone();
        }
    }
}

pub fn build_column(spec: &[CCall]) -> ColumnDef {
    let mut cd = ColumnDef::new(al("c0"));
    for c in spec {
        apply_ccall(&mut cd, c);
    }
    cd
}

pub struct ColumnM {
    c: ColumnDef,
}

fn column_renders(cd: &ColumnDef) -> Vec<(String, String)> {
    let mut v = vec![
        ("get_column_name".to_string(), outcome(|| cd.get_column_name())),
        ("get_column_type".to_string(), outcome(|| format!("{:?}", cd.get_column_type()))),
        ("get_column_spec".to_string(), outcome(|| format!("{:?}", cd.get_column_spec()))),
    ];
    for d in DIALECTS {
        v.push((format!("in-create-table/{}", d.name()), outcome(|| crate::with_backend!(d, b => Table::create().table(al("t")).col(cd.clone()).to_string(b)))));
        v.push((format!("in-add-column/{}", d.name()), outcome(|| crate::with_backend!(d, b => Table::alter().table(al("t")).add_column(cd.clone()).to_string(b)))));
        v.push((format!("in-modify-column/{}", d.name()), outcome(|| crate::with_backend!(d, b => Table::alter().table(al("t")).modify_column(cd.clone()).to_string(b)))));
    }
    v
}

impl Machine for ColumnM {
    type S = ColumnDef;
    type Call = CCall;
    const NAME: &'static str = "columndef";
    const CLEARS: &'static [(&'static str, &'static str)] = &[];
    const LEFTOVER_NEW: bool = false;
    fn new() -> Self {
        ColumnM { c: ColumnDef::new(al("c0")) }
    }
    fn stmt(&self) -> &ColumnDef {
        &self.c
    }
    fn stmt_mut(&mut self) -> &mut ColumnDef {
        &mut self.c
    }
    fn is_ctor(c: &CCall) -> bool {
        matches!(c, CCall::New(_) | CCall::NewWithType(..))
    }
    fn apply(&mut self, c: &CCall) {
        apply_ccall(&mut self.c, c);
    }
    fn take(&mut self) -> ColumnDef {
        self.c.take()
    }
    fn to_owned_via_ref(s: &mut ColumnDef) -> ColumnDef {
        let r: &mut ColumnDef = s;
        r.to_owned()
    }
    fn clear(&mut self, _op: usize) {}
    fn field_of(c: &CCall) -> &'static str {
        match c {
            CCall::New(_) => "name",
            CCall::NewWithType(..) | CCall::Type(_) => "types",
            CCall::ViaTable(_) => "table",
            _ => "spec",
        }
    }
    fn eq(_: &ColumnDef, _: &ColumnDef) -> Option<bool> {
        None
    }
    fn renders(s: &ColumnDef) -> Vec<(String, String)> {
        column_renders(s)
    }
}

fn c_setter() -> BoxedStrategy<CCall> {
    prop_oneof![
        4 => ty().prop_map(CCall::Type),
        1 => Just(CCall::NotNull),
        1 => Just(CCall::Null),
        2 => x(1).prop_map(CCall::Default),
        1 => Just(CCall::AutoIncrement),
        1 => Just(CCall::UniqueKey),
        1 => Just(CCall::PrimaryKey),
        1 => x(2).prop_map(CCall::Check),
        1 => (x(1), any::<bool>()).prop_map(|(x, s)| CCall::Generated(x, s)),
        1 => small_string().prop_map(CCall::Extra),
        1 => x(1).prop_map(CCall::Using),
        1 => small_string().prop_map(CCall::Comment),
        3 => tref().prop_map(CCall::ViaTable),
    ]
    .boxed()
}

fn c_call() -> BoxedStrategy<CCall> {
    prop_oneof![
        12 => c_setter(),
        1 => (1u8..6).prop_map(CCall::New),
        1 => (1u8..6, ty()).prop_map(|(n, t)| CCall::NewWithType(n, t)),
    ]
    .boxed()
}

/// a column definition given as an argument to a table statement
fn cd_spec() -> BoxedStrategy<Vec<CCall>> {
    ((0u8..6).prop_map(CCall::New), proptest::collection::vec(c_setter(), 0..4))
        .prop_map(|(n, mut v)| {
            v.insert(0, n);
            v
        })
        .boxed()
}

fn c_family() -> Family<CCall> {
    Family::new(
        vec![
            vec![CCall::New(1), CCall::Type(Ty::Integer), CCall::NotNull, CCall::ViaTable(T::Tbl(1)), CCall::Default(X::Int(3))],
            vec![CCall::NewWithType(2, Ty::Array(Box::new(Ty::Enum(0, vec![1, 2])))), CCall::ViaTable(T::Sch(0, 2)), CCall::Check(xeq(2, 0)), CCall::Comment("c".into()), CCall::Generated(xeq(1, 1), true)],
        ],
        vec![CCall::Type(Ty::Text), CCall::UniqueKey],
        0,
    )
}

// ============================================================================== index / foreign key

#[derive(Serialize, Deserialize, Clone, Debug, PartialEq, Eq, Hash)]
pub enum IdxCol {
    Plain(u8),
    Prefix(u8, u32),
    Order(u8, bool),
    PrefixOrder(u8, u32, bool),
}

fn idx_order(desc: bool) -> IndexOrder {
    if desc {
        IndexOrder::Desc
    } else {
        IndexOrder::Asc
    }
}

impl IdxCol {
    fn build(&self) -> IndexColumn {
        match self {
            IdxCol::Plain(c) => colname(*c).into_index_column(),
            IdxCol::Prefix(c, p) => (colname(*c), *p).into_index_column(),
            IdxCol::Order(c, o) => (colname(*c), idx_order(*o)).into_index_column(),
            IdxCol::PrefixOrder(c, p, o) => (colname(*c), *p, idx_order(*o)).into_index_column(),
        }
    }
}

fn idx_col() -> BoxedStrategy<IdxCol> {
    prop_oneof![
        (0u8..6).prop_map(IdxCol::Plain),
        (0u8..6, 1u32..20).prop_map(|(c, p)| IdxCol::Prefix(c, p)),
        (0u8..6, any::<bool>()).prop_map(|(c, o)| IdxCol::Order(c, o)),
        (0u8..6, 1u32..20, any::<bool>()).prop_map(|(c, p, o)| IdxCol::PrefixOrder(c, p, o)),
    ]
    .boxed()
}

#[derive(Serialize, Deserialize, Clone, Debug, PartialEq, Eq, Hash)]
pub enum ICall {
    IfNotExists,
    Name(String),
    Table(T),
    Col(IdxCol),
    Primary,
    Unique,
    NullsNotDistinct,
    FullText,
    /// 0 BTree, 1 Hash, 2 FullText, 3.. Custom(name)
    IndexType(u8),
    Include(u8),
    AndWhere(X),
    CondWhere(Cnd),
}

pub fn apply_icall(s: &mut IndexCreateStatement, c: &ICall) {
    match c {
        ICall::IfNotExists => {
            s.if_not_exists();
        }
        ICall::Name(n) => {
            s.name(n.as_str());
        }
        ICall::Table(t) => {
            s.table(t.build());
        }
        ICall::Col(c) => {
            s.col(c.build());
        }
        ICall::Primary => {
            s.primary();
        }
        ICall::Unique => {
            s.unique();
        }
        ICall::NullsNotDistinct => {
            s.nulls_not_distinct();
        }
        ICall::FullText => {
            s.full_text();
        }
        ICall::IndexType(t) => {
            s.index_type(match t % 4 {
                0 => IndexType::BTree,
                1 => IndexType::Hash,
                2 => IndexType::FullText,
                _ => IndexType::Custom(name(*t).into_iden()),
            });
        }
        ICall::Include(c) => {
            s.include(colname(*c));
        }
        ICall::AndWhere(x) => {
            s.and_where(x.build());
        }
        ICall::CondWhere(c) => {
            s.cond_where(c.build());
        }
    }
}

pub fn build_index(spec: &[ICall]) -> IndexCreateStatement {
    let mut s = Index::create();
    for c in spec {
        apply_icall(&mut s, c);
    }
    s
}

pub struct IndexM {
    s: IndexCreateStatement,
}

impl Machine for IndexM {
    type S = IndexCreateStatement;
    type Call = ICall;
    const NAME: &'static str = "indexcreate";
    const CLEARS: &'static [(&'static str, &'static str)] = &[];
    const LEFTOVER_NEW: bool = false;
    fn new() -> Self {
        IndexM { s: IndexCreateStatement::new() }
    }
    fn stmt(&self) -> &IndexCreateStatement {
        &self.s
    }
    fn stmt_mut(&mut self) -> &mut IndexCreateStatement {
        &mut self.s
    }
    fn apply(&mut self, c: &ICall) {
        apply_icall(&mut self.s, c);
    }
    fn take(&mut self) -> IndexCreateStatement {
        self.s.take()
    }
    fn to_owned_via_ref(s: &mut IndexCreateStatement) -> IndexCreateStatement {
        let r: &mut IndexCreateStatement = s;
        r.to_owned()
    }
    fn clear(&mut self, _op: usize) {}
    fn field_of(c: &ICall) -> &'static str {
        match c {
            ICall::IfNotExists => "if_not_exists",
            ICall::Name(_) => "index.name",
            ICall::Table(_) => "table",
            ICall::Col(_) => "index.columns",
            ICall::Primary => "primary",
            ICall::Unique => "unique",
            ICall::NullsNotDistinct => "nulls_not_distinct",
            ICall::FullText | ICall::IndexType(_) => "index_type",
            ICall::Include(_) => "include_columns",
            ICall::AndWhere(_) | ICall::CondWhere(_) => "where",
        }
    }
    fn eq(_: &IndexCreateStatement, _: &IndexCreateStatement) -> Option<bool> {
        None
    }
    fn renders(s: &IndexCreateStatement) -> Vec<(String, String)> {
        let mut v = schema_render_fn!(s);
        v.push(("getters".into(), outcome(|| format!("{} {} {} {:?}", s.is_primary_key(), s.is_unique_key(), s.is_nulls_not_distinct(), s.get_index_spec().get_column_names()))));
        for d in DIALECTS {
            // as a table constraint
            v.push((format!("in-create-table/{}", d.name()), outcome(|| crate::with_backend!(d, b => Table::create().table(al("t")).index(&mut s.clone()).to_string(b)))));
        }
        v
    }
    fn fields(dbg: &str) -> Option<Vec<(String, String)>> {
        flatten_field(top_fields(dbg)?, "index")
    }
}

fn i_call() -> BoxedStrategy<ICall> {
    prop_oneof![
        1 => Just(ICall::IfNotExists),
        1 => small_string().prop_map(ICall::Name),
        1 => tref().prop_map(ICall::Table),
        2 => idx_col().prop_map(ICall::Col),
        1 => Just(ICall::Primary),
        1 => Just(ICall::Unique),
        1 => Just(ICall::NullsNotDistinct),
        1 => Just(ICall::FullText),
        1 => (0u8..6).prop_map(ICall::IndexType),
        1 => (0u8..6).prop_map(ICall::Include),
        1 => x(1).prop_map(ICall::AndWhere),
        1 => cnd(1).prop_map(ICall::CondWhere),
    ]
    .boxed()
}

fn i_family() -> Family<ICall> {
    Family::new(
        vec![
            vec![
                ICall::Table(T::Tbl(0)),
                ICall::Name("ix".into()),
                ICall::Col(IdxCol::Plain(1)),
                ICall::Primary,
                ICall::Unique,
                ICall::NullsNotDistinct,
                ICall::IndexType(1),
                ICall::IfNotExists,
                ICall::AndWhere(xeq(1, 1)),
                ICall::Include(2),
            ],
            vec![
                ICall::Include(3),
                ICall::CondWhere(Cnd { any: true, not: false, items: vec![CndItem::X(xeq(1, 1)), CndItem::X(xeq(2, 2))] }),
                ICall::IfNotExists,
                ICall::FullText,
                ICall::NullsNotDistinct,
                ICall::Unique,
                ICall::Primary,
                ICall::Col(IdxCol::PrefixOrder(2, 5, true)),
                ICall::Name("ix2".into()),
                ICall::Table(T::Sch(0, 1)),
            ],
        ],
        vec![ICall::Col(IdxCol::Plain(5)), ICall::Include(5), ICall::AndWhere(xeq(5, 5))],
        0,
    )
}

// ---------------------------------------------------------------------------------------- TableIndex

#[derive(Serialize, Deserialize, Clone, Debug, PartialEq, Eq, Hash)]
pub enum TICall {
    Name(String),
    Col(IdxCol),
}

pub struct TableIndexM {
    s: TableIndex,
}

impl Machine for TableIndexM {
    type S = TableIndex;
    type Call = TICall;
    const NAME: &'static str = "tableindex";
    const CLEARS: &'static [(&'static str, &'static str)] = &[];
    const LEFTOVER_NEW: bool = false;
    fn new() -> Self {
        TableIndexM { s: TableIndex::new() }
    }
    fn stmt(&self) -> &TableIndex {
        &self.s
    }
    fn stmt_mut(&mut self) -> &mut TableIndex {
        &mut self.s
    }
    fn apply(&mut self, c: &TICall) {
        match c {
            TICall::Name(n) => {
                self.s.name(n.as_str());
            }
            TICall::Col(c) => {
                self.s.col(c.build());
            }
        }
    }
    fn take(&mut self) -> TableIndex {
        self.s.take()
    }
    fn to_owned_via_ref(s: &mut TableIndex) -> TableIndex {
        let r: &mut TableIndex = s;
        r.to_owned()
    }
    fn clear(&mut self, _op: usize) {}
    fn field_of(c: &TICall) -> &'static str {
        match c {
            TICall::Name(_) => "name",
            TICall::Col(_) => "columns",
        }
    }
    fn eq(_: &TableIndex, _: &TableIndex) -> Option<bool> {
        None
    }
    fn renders(s: &TableIndex) -> Vec<(String, String)> {
        // a TableIndex cannot be put into a statement through the public API; its getter is the only view
        vec![("get_column_names".into(), outcome(|| format!("{:?}", s.get_column_names())))]
    }
}

fn ti_call() -> BoxedStrategy<TICall> {
    prop_oneof![1 => small_string().prop_map(TICall::Name), 2 => idx_col().prop_map(TICall::Col)].boxed()
}

fn ti_family() -> Family<TICall> {
    Family::new(
        vec![vec![TICall::Name("n".into()), TICall::Col(IdxCol::Plain(1))], vec![TICall::Col(IdxCol::Order(2, true)), TICall::Col(IdxCol::Prefix(3, 4)), TICall::Name("m".into())]],
        vec![TICall::Col(IdxCol::Plain(5))],
        0,
    )
}

// --------------------------------------------------------------------------------------- foreign keys

fn fk_action(a: u8) -> ForeignKeyAction {
    [ForeignKeyAction::Restrict, ForeignKeyAction::Cascade, ForeignKeyAction::SetNull, ForeignKeyAction::NoAction, ForeignKeyAction::SetDefault][a as usize % 5]
}

#[derive(Serialize, Deserialize, Clone, Debug, PartialEq, Eq, Hash)]
pub enum FCall {
    Name(String),
    /// `from(table, columns)` (ForeignKeyCreateStatement only; 1..=3 columns)
    From(T, Vec<u8>),
    /// `to(table, columns)` (ForeignKeyCreateStatement only; 1..=3 columns)
    To(T, Vec<u8>),
    FromTbl(T),
    ToTbl(T),
    FromCol(u8),
    ToCol(u8),
    OnDelete(u8),
    OnUpdate(u8),
}

pub fn apply_fcall(s: &mut ForeignKeyCreateStatement, c: &FCall) {
    match c {
        FCall::Name(n) => {
            s.name(n.as_str());
        }
        FCall::From(t, cols) => {
            match cols.as_slice() {
                [] | [_] => s.from(t.build(), colname(cols.first().copied().unwrap_or(0))),
                [a, b] => s.from(t.build(), (colname(*a), colname(*b))),
                [a, b, c, ..] => s.from(t.build(), (colname(*a), colname(*b), colname(*c))),
            };
        }
        FCall::To(t, cols) => {
            match cols.as_slice() {
                [] | [_] => s.to(t.build(), colname(cols.first().copied().unwrap_or(0))),
                [a, b] => s.to(t.build(), (colname(*a), colname(*b))),
                [a, b, c, ..] => s.to(t.build(), (colname(*a), colname(*b), colname(*c))),
            };
        }
        FCall::FromTbl(t) => {
            s.from_tbl(t.build());
        }
        FCall::ToTbl(t) => {
            s.to_tbl(t.build());
        }
        FCall::FromCol(c) => {
            s.from_col(colname(*c));
        }
        FCall::ToCol(c) => {
            s.to_col(colname(*c));
        }
        FCall::OnDelete(a) => {
            s.on_delete(fk_action(*a));
        }
        FCall::OnUpdate(a) => {
            s.on_update(fk_action(*a));
        }
    }
}

/// the same calls on a bare `TableForeignKey` (`From`/`To` are spelled as table + columns there)
pub fn apply_fcall_tfk(s: &mut TableForeignKey, c: &FCall) {
    match c {
        FCall::Name(n) => {
            s.name(n.as_str());
        }
        FCall::From(t, cols) => {
            s.from_tbl(t.build());
            for c in cols.iter().take(3) {
                s.from_col(colname(*c));
            }
            if cols.is_empty() {
                s.from_col(colname(0));
            }
        }
        FCall::To(t, cols) => {
            s.to_tbl(t.build());
            for c in cols.iter().take(3) {
                s.to_col(colname(*c));
            }
            if cols.is_empty() {
                s.to_col(colname(0));
            }
        }
        FCall::FromTbl(t) => {
            s.from_tbl(t.build());
        }
        FCall::ToTbl(t) => {
            s.to_tbl(t.build());
        }
        FCall::FromCol(c) => {
            s.from_col(colname(*c));
        }
        FCall::ToCol(c) => {
            s.to_col(colname(*c));
        }
        FCall::OnDelete(a) => {
            s.on_delete(fk_action(*a));
        }
        FCall::OnUpdate(a) => {
            s.on_update(fk_action(*a));
        }
    }
}

pub fn build_fk(spec: &[FCall]) -> ForeignKeyCreateStatement {
    let mut s = ForeignKey::create();
    for c in spec {
        apply_fcall(&mut s, c);
    }
    s
}

pub fn build_tfk(spec: &[FCall]) -> TableForeignKey {
    let mut s = TableForeignKey::new();
    for c in spec {
        apply_fcall_tfk(&mut s, c);
    }
    s
}

fn tfk_getters(s: &TableForeignKey) -> String {
    format!("{:?} {:?} {:?} {:?} {:?}", s.get_ref_table(), s.get_columns(), s.get_ref_columns(), s.get_on_delete(), s.get_on_update())
}

fn fcall_field(c: &FCall) -> &'static str {
    match c {
        FCall::Name(_) => "name",
        FCall::From(..) | FCall::FromTbl(_) => "table",
        FCall::To(..) | FCall::ToTbl(_) => "ref_table",
        FCall::FromCol(_) => "columns",
        FCall::ToCol(_) => "ref_columns",
        FCall::OnDelete(_) => "on_delete",
        FCall::OnUpdate(_) => "on_update",
    }
}

pub struct FkM {
    s: ForeignKeyCreateStatement,
}

impl Machine for FkM {
    type S = ForeignKeyCreateStatement;
    type Call = FCall;
    const NAME: &'static str = "fkcreate";
    const CLEARS: &'static [(&'static str, &'static str)] = &[];
    const LEFTOVER_NEW: bool = false;
    fn new() -> Self {
        FkM { s: ForeignKeyCreateStatement::new() }
    }
    fn stmt(&self) -> &ForeignKeyCreateStatement {
        &self.s
    }
    fn stmt_mut(&mut self) -> &mut ForeignKeyCreateStatement {
        &mut self.s
    }
    fn apply(&mut self, c: &FCall) {
        apply_fcall(&mut self.s, c);
    }
    fn take(&mut self) -> ForeignKeyCreateStatement {
        self.s.take()
    }
    fn to_owned_via_ref(s: &mut ForeignKeyCreateStatement) -> ForeignKeyCreateStatement {
        let r: &mut ForeignKeyCreateStatement = s;
        r.to_owned()
    }
    fn clear(&mut self, _op: usize) {}
    fn field_of(c: &FCall) -> &'static str {
        fcall_field(c)
    }
    fn eq(_: &ForeignKeyCreateStatement, _: &ForeignKeyCreateStatement) -> Option<bool> {
        None
    }
    fn renders(s: &ForeignKeyCreateStatement) -> Vec<(String, String)> {
        let mut v = schema_render_fn!(s);
        v.push(("getters".into(), outcome(|| tfk_getters(s.get_foreign_key()))));
        for d in DIALECTS {
            v.push((format!("in-create-table/{}", d.name()), outcome(|| crate::with_backend!(d, b => Table::create().table(al("t")).foreign_key(&mut s.clone()).to_string(b)))));
        }
        v
    }
    fn fields(dbg: &str) -> Option<Vec<(String, String)>> {
        flatten_field(top_fields(dbg)?, "foreign_key")
    }
}

pub struct TfkM {
    s: TableForeignKey,
}

impl Machine for TfkM {
    type S = TableForeignKey;
    type Call = FCall;
    const NAME: &'static str = "tableforeignkey";
    const CLEARS: &'static [(&'static str, &'static str)] = &[];
    const LEFTOVER_NEW: bool = false;
    fn new() -> Self {
        TfkM { s: TableForeignKey::new() }
    }
    fn stmt(&self) -> &TableForeignKey {
        &self.s
    }
    fn stmt_mut(&mut self) -> &mut TableForeignKey {
        &mut self.s
    }
    fn apply(&mut self, c: &FCall) {
        apply_fcall_tfk(&mut self.s, c);
    }
    fn take(&mut self) -> TableForeignKey {
        self.s.take()
    }
    fn to_owned_via_ref(s: &mut TableForeignKey) -> TableForeignKey {
        let r: &mut TableForeignKey = s;
        r.to_owned()
    }
    fn clear(&mut self, _op: usize) {}
    fn field_of(c: &FCall) -> &'static str {
        fcall_field(c)
    }
    fn eq(_: &TableForeignKey, _: &TableForeignKey) -> Option<bool> {
        None
    }
    fn renders(s: &TableForeignKey) -> Vec<(String, String)> {
        let mut v = vec![("getters".to_string(), outcome(|| tfk_getters(s)))];
        for d in DIALECTS {
            v.push((format!("in-alter-table/{}", d.name()), outcome(|| crate::with_backend!(d, b => Table::alter().table(al("t")).add_foreign_key(s).to_string(b)))));
        }
        v
    }
}

fn f_call() -> BoxedStrategy<FCall> {
    prop_oneof![
        1 => small_string().prop_map(FCall::Name),
        1 => (tref(), proptest::collection::vec(0u8..6, 1..4)).prop_map(|(t, c)| FCall::From(t, c)),
        1 => (tref(), proptest::collection::vec(0u8..6, 1..4)).prop_map(|(t, c)| FCall::To(t, c)),
        1 => tref().prop_map(FCall::FromTbl),
        1 => tref().prop_map(FCall::ToTbl),
        2 => (0u8..6).prop_map(FCall::FromCol),
        2 => (0u8..6).prop_map(FCall::ToCol),
        2 => (0u8..5).prop_map(FCall::OnDelete),
        2 => (0u8..5).prop_map(FCall::OnUpdate),
    ]
    .boxed()
}

fn f_family() -> Family<FCall> {
    Family::new(
        vec![
            vec![FCall::Name("fk".into()), FCall::FromTbl(T::Tbl(0)), FCall::ToTbl(T::Tbl(1)), FCall::FromCol(1), FCall::ToCol(2), FCall::OnDelete(1), FCall::OnUpdate(2)],
            vec![FCall::OnUpdate(0), FCall::OnDelete(4), FCall::To(T::Sch(0, 2), vec![1, 2]), FCall::From(T::Tbl(3), vec![3, 4]), FCall::ToCol(5), FCall::FromCol(5), FCall::Name("fk2".into())],
        ],
        vec![FCall::FromCol(0), FCall::ToCol(0), FCall::OnDelete(3)],
        0,
    )
}

// ====================================================================================== Table::create

#[derive(Serialize, Deserialize, Clone, Debug, PartialEq, Eq, Hash)]
pub enum TCCall {
    IfNotExists,
    Table(T),
    Comment(String),
    /// col(def): by `&mut ColumnDef` (which takes it) or by value
    Col(Vec<CCall>, bool),
    Check(X),
    Index(Vec<ICall>),
    PrimaryKey(Vec<ICall>),
    ForeignKey(Vec<FCall>),
    Engine(String),
    Collate(String),
    CharacterSet(String),
    Extra(String),
    Temporary,
}

pub struct TableCreateM {
    s: TableCreateStatement,
}

impl Machine for TableCreateM {
    type S = TableCreateStatement;
    type Call = TCCall;
    const NAME: &'static str = "tablecreate";
    const CLEARS: &'static [(&'static str, &'static str)] = &[];
    const LEFTOVER_NEW: bool = false;
    const UNREACHABLE: &'static [&'static str] = &["partitions"];
    fn new() -> Self {
        TableCreateM { s: TableCreateStatement::new() }
    }
    fn stmt(&self) -> &TableCreateStatement {
        &self.s
    }
    fn stmt_mut(&mut self) -> &mut TableCreateStatement {
        &mut self.s
    }
    fn apply(&mut self, c: &TCCall) {
        let s = &mut self.s;
        match c {
            TCCall::IfNotExists => {
                s.if_not_exists();
            }
            TCCall::Table(t) => {
                s.table(t.build());
            }
            TCCall::Comment(c) => {
                s.comment(c.as_str());
            }
            TCCall::Col(spec, by_ref) => {
                let mut cd = build_column(spec);
                if *by_ref {
                    s.col(&mut cd);
                } else {
                    s.col(cd);
                }
            }
            TCCall::Check(x) => {
                s.check(x.build());
            }
            TCCall::Index(spec) => {
                s.index(&mut build_index(spec));
            }
            TCCall::PrimaryKey(spec) => {
                s.primary_key(&mut build_index(spec));
            }
            TCCall::ForeignKey(spec) => {
                s.foreign_key(&mut build_fk(spec));
            }
            TCCall::Engine(e) => {
                s.engine(e.as_str());
            }
            TCCall::Collate(e) => {
                s.collate(e.as_str());
            }
            TCCall::CharacterSet(e) => {
                s.character_set(e.as_str());
            }
            TCCall::Extra(e) => {
                s.extra(e.as_str());
            }
            TCCall::Temporary => {
                s.temporary();
            }
        }
    }
    fn take(&mut self) -> TableCreateStatement {
        self.s.take()
    }
    fn to_owned_via_ref(s: &mut TableCreateStatement) -> TableCreateStatement {
        let r: &mut TableCreateStatement = s;
        r.to_owned()
    }
    fn clear(&mut self, _op: usize) {}
    fn field_of(c: &TCCall) -> &'static str {
        match c {
            TCCall::IfNotExists => "if_not_exists",
            TCCall::Table(_) => "table",
            TCCall::Comment(_) => "comment",
            TCCall::Col(..) => "columns",
            TCCall::Check(_) => "check",
            TCCall::Index(_) | TCCall::PrimaryKey(_) => "indexes",
            TCCall::ForeignKey(_) => "foreign_keys",
            TCCall::Engine(_) | TCCall::Collate(_) | TCCall::CharacterSet(_) => "options",
            TCCall::Extra(_) => "extra",
            TCCall::Temporary => "temporary",
        }
    }
    fn eq(_: &TableCreateStatement, _: &TableCreateStatement) -> Option<bool> {
        None
    }
    fn renders(s: &TableCreateStatement) -> Vec<(String, String)> {
        let mut v = schema_render_fn!(s);
        v.push((
            "getters".into(),
            outcome(|| format!("{:?} {:?} {:?} {:?} {:?} {:?}", s.get_table_name(), s.get_columns(), s.get_comment(), s.get_foreign_key_create_stmts(), s.get_indexes(), s.get_extra())),
        ));
        v
    }
}

fn i_spec() -> BoxedStrategy<Vec<ICall>> {
    proptest::collection::vec(i_call(), 0..4).boxed()
}
fn f_spec() -> BoxedStrategy<Vec<FCall>> {
    proptest::collection::vec(f_call(), 0..5).boxed()
}

fn tc_call() -> BoxedStrategy<TCCall> {
    prop_oneof![
        1 => Just(TCCall::IfNotExists),
        1 => tref().prop_map(TCCall::Table),
        1 => small_string().prop_map(TCCall::Comment),
        1 => (cd_spec(), any::<bool>()).prop_map(|(c, r)| TCCall::Col(c, r)),
        1 => x(2).prop_map(TCCall::Check),
        1 => prop_oneof![i_spec().prop_map(TCCall::Index), i_spec().prop_map(TCCall::PrimaryKey)],
        1 => f_spec().prop_map(TCCall::ForeignKey),
        1 => prop_oneof![small_string().prop_map(TCCall::Engine), small_string().prop_map(TCCall::Collate), small_string().prop_map(TCCall::CharacterSet)],
        1 => small_string().prop_map(TCCall::Extra),
        1 => Just(TCCall::Temporary),
    ]
    .boxed()
}

fn col_spec1(n: u8) -> Vec<CCall> {
    vec![CCall::New(n), CCall::Type(Ty::Integer), CCall::NotNull]
}
fn idx_spec1() -> Vec<ICall> {
    vec![ICall::Name("ix".into()), ICall::Col(IdxCol::Plain(1)), ICall::Unique]
}
fn fk_spec1() -> Vec<FCall> {
    vec![FCall::Name("fk".into()), FCall::From(T::Tbl(0), vec![1]), FCall::To(T::Tbl(1), vec![0]), FCall::OnDelete(1)]
}

fn tc_family() -> Family<TCCall> {
    Family::new(
        vec![
            vec![
                TCCall::Table(T::Tbl(0)),
                TCCall::IfNotExists,
                TCCall::Col(col_spec1(0), true),
                TCCall::Engine("InnoDB".into()),
                TCCall::Index(idx_spec1()),
                TCCall::ForeignKey(fk_spec1()),
                TCCall::Check(xeq(1, 0)),
                TCCall::Comment("it's".into()),
                TCCall::Extra("WITHOUT ROWID".into()),
                TCCall::Temporary,
            ],
            vec![
                TCCall::Temporary,
                TCCall::Extra("x".into()),
                TCCall::Comment("c".into()),
                TCCall::Check(xeq(2, 2)),
                TCCall::ForeignKey(fk_spec1()),
                TCCall::PrimaryKey(vec![ICall::Col(IdxCol::Plain(0))]),
                TCCall::CharacterSet("utf8mb4".into()),
                TCCall::Col(col_spec1(1), false),
                TCCall::IfNotExists,
                TCCall::Table(T::Sch(0, 1)),
            ],
        ],
        vec![TCCall::Col(col_spec1(5), true), TCCall::Check(xeq(5, 5)), TCCall::Comment("later".into())],
        0,
    )
}

// ======================================================================================= Table::alter

#[derive(Serialize, Deserialize, Clone, Debug, PartialEq, Eq, Hash)]
pub enum TACall {
    Table(T),
    AddColumn(Vec<CCall>, bool),
    AddColumnIfNotExists(Vec<CCall>, bool),
    ModifyColumn(Vec<CCall>, bool),
    RenameColumn(u8, u8),
    DropColumn(u8),
    AddForeignKey(Vec<FCall>),
    DropForeignKey(u8),
}

pub struct TableAlterM {
    s: TableAlterStatement,
}

impl Machine for TableAlterM {
    type S = TableAlterStatement;
    type Call = TACall;
    const NAME: &'static str = "tablealter";
    const CLEARS: &'static [(&'static str, &'static str)] = &[];
    const LEFTOVER_NEW: bool = false;
    fn new() -> Self {
        TableAlterM { s: TableAlterStatement::new() }
    }
    fn stmt(&self) -> &TableAlterStatement {
        &self.s
    }
    fn stmt_mut(&mut self) -> &mut TableAlterStatement {
        &mut self.s
    }
    fn apply(&mut self, c: &TACall) {
        let s = &mut self.s;
        match c {
            TACall::Table(t) => {
                s.table(t.build());
            }
            TACall::AddColumn(spec, by_ref) => {
                let mut cd = build_column(spec);
                if *by_ref {
                    s.add_column(&mut cd);
                } else {
                    s.add_column(cd);
                }
            }
            TACall::AddColumnIfNotExists(spec, by_ref) => {
                let mut cd = build_column(spec);
                if *by_ref {
                    s.add_column_if_not_exists(&mut cd);
                } else {
                    s.add_column_if_not_exists(cd);
                }
            }
            TACall::ModifyColumn(spec, by_ref) => {
                let mut cd = build_column(spec);
                if *by_ref {
                    s.modify_column(&mut cd);
                } else {
                    s.modify_column(cd);
                }
            }
            TACall::RenameColumn(a, b) => {
                s.rename_column(colname(*a), colname(*b));
            }
            TACall::DropColumn(a) => {
                s.drop_column(colname(*a));
            }
            TACall::AddForeignKey(spec) => {
                s.add_foreign_key(&build_tfk(spec));
            }
            TACall::DropForeignKey(n) => {
                s.drop_foreign_key(name(*n));
            }
        }
    }
    fn take(&mut self) -> TableAlterStatement {
        self.s.take()
    }
    fn to_owned_via_ref(s: &mut TableAlterStatement) -> TableAlterStatement {
        let r: &mut TableAlterStatement = s;
        r.to_owned()
    }
    fn clear(&mut self, _op: usize) {}
    fn field_of(c: &TACall) -> &'static str {
        match c {
            TACall::Table(_) => "table",
            _ => "options",
        }
    }
    fn eq(_: &TableAlterStatement, _: &TableAlterStatement) -> Option<bool> {
        None
    }
    fn renders(s: &TableAlterStatement) -> Vec<(String, String)> {
        schema_render_fn!(s)
    }
}

fn ta_call() -> BoxedStrategy<TACall> {
    prop_oneof![
        3 => tref().prop_map(TACall::Table),
        1 => (cd_spec(), any::<bool>()).prop_map(|(c, r)| TACall::AddColumn(c, r)),
        1 => (cd_spec(), any::<bool>()).prop_map(|(c, r)| TACall::AddColumnIfNotExists(c, r)),
        1 => (cd_spec(), any::<bool>()).prop_map(|(c, r)| TACall::ModifyColumn(c, r)),
        1 => (0u8..6, 0u8..6).prop_map(|(a, b)| TACall::RenameColumn(a, b)),
        1 => (0u8..6).prop_map(TACall::DropColumn),
        1 => f_spec().prop_map(TACall::AddForeignKey),
        1 => (0u8..5).prop_map(TACall::DropForeignKey),
    ]
    .boxed()
}

fn ta_family() -> Family<TACall> {
    Family::new(
        vec![
            vec![TACall::Table(T::Tbl(0)), TACall::AddColumn(col_spec1(1), true)],
            vec![TACall::RenameColumn(1, 2), TACall::Table(T::Sch(1, 1))],
            vec![TACall::AddForeignKey(fk_spec1()), TACall::DropColumn(3), TACall::Table(T::Tbl(2)), TACall::ModifyColumn(col_spec1(2), false), TACall::DropForeignKey(0)],
        ],
        vec![TACall::AddColumnIfNotExists(col_spec1(5), false)],
        0,
    )
}

// ============================================================================ drop / rename / truncate

#[derive(Serialize, Deserialize, Clone, Debug, PartialEq, Eq, Hash)]
pub enum TDCall {
    Table(T),
    IfExists,
    Restrict,
    Cascade,
}

pub struct TableDropM {
    s: TableDropStatement,
}

impl Machine for TableDropM {
    type S = TableDropStatement;
    type Call = TDCall;
    const NAME: &'static str = "tabledrop";
    const CLEARS: &'static [(&'static str, &'static str)] = &[];
    const LEFTOVER_NEW: bool = false;
    fn new() -> Self {
        TableDropM { s: TableDropStatement::new() }
    }
    fn stmt(&self) -> &TableDropStatement {
        &self.s
    }
    fn stmt_mut(&mut self) -> &mut TableDropStatement {
        &mut self.s
    }
    fn apply(&mut self, c: &TDCall) {
        match c {
            TDCall::Table(t) => self.s.table(t.build()),
            TDCall::IfExists => self.s.if_exists(),
            TDCall::Restrict => self.s.restrict(),
            TDCall::Cascade => self.s.cascade(),
        };
    }
    fn take(&mut self) -> TableDropStatement {
        self.s.take()
    }
    fn to_owned_via_ref(s: &mut TableDropStatement) -> TableDropStatement {
        let r: &mut TableDropStatement = s;
        r.to_owned()
    }
    fn clear(&mut self, _op: usize) {}
    fn field_of(c: &TDCall) -> &'static str {
        match c {
            TDCall::Table(_) => "tables",
            TDCall::IfExists => "if_exists",
            _ => "options",
        }
    }
    fn eq(_: &TableDropStatement, _: &TableDropStatement) -> Option<bool> {
        None
    }
    fn renders(s: &TableDropStatement) -> Vec<(String, String)> {
        schema_render_fn!(s)
    }
}

fn td_call() -> BoxedStrategy<TDCall> {
    prop_oneof![3 => tref().prop_map(TDCall::Table), 1 => Just(TDCall::IfExists), 1 => Just(TDCall::Restrict), 1 => Just(TDCall::Cascade)].boxed()
}

fn td_family() -> Family<TDCall> {
    Family::new(
        vec![vec![TDCall::Table(T::Tbl(0)), TDCall::IfExists, TDCall::Cascade], vec![TDCall::Restrict, TDCall::Table(T::Sch(0, 1)), TDCall::Table(T::Tbl(2)), TDCall::IfExists]],
        vec![TDCall::Table(T::Tbl(5)), TDCall::Restrict],
        0,
    )
}

#[derive(Serialize, Deserialize, Clone, Debug, PartialEq, Eq, Hash)]
pub enum TRCall {
    Table(T, T),
}

pub struct TableRenameM {
    s: TableRenameStatement,
}

impl Machine for TableRenameM {
    type S = TableRenameStatement;
    type Call = TRCall;
    const NAME: &'static str = "tablerename";
    const CLEARS: &'static [(&'static str, &'static str)] = &[];
    const LEFTOVER_NEW: bool = false;
    fn new() -> Self {
        TableRenameM { s: TableRenameStatement::new() }
    }
    fn stmt(&self) -> &TableRenameStatement {
        &self.s
    }
    fn stmt_mut(&mut self) -> &mut TableRenameStatement {
        &mut self.s
    }
    fn apply(&mut self, c: &TRCall) {
        let TRCall::Table(a, b) = c;
        self.s.table(a.build(), b.build());
    }
    fn take(&mut self) -> TableRenameStatement {
        self.s.take()
    }
    fn to_owned_via_ref(s: &mut TableRenameStatement) -> TableRenameStatement {
        let r: &mut TableRenameStatement = s;
        r.to_owned()
    }
    fn clear(&mut self, _op: usize) {}
    fn field_of(_: &TRCall) -> &'static str {
        "from_name"
    }
    fn eq(_: &TableRenameStatement, _: &TableRenameStatement) -> Option<bool> {
        None
    }
    fn renders(s: &TableRenameStatement) -> Vec<(String, String)> {
        schema_render_fn!(s)
    }
}

fn tr_call() -> BoxedStrategy<TRCall> {
    (tref(), tref()).prop_map(|(a, b)| TRCall::Table(a, b)).boxed()
}

fn tr_family() -> Family<TRCall> {
    Family::new(vec![vec![TRCall::Table(T::Tbl(0), T::Tbl(1))], vec![TRCall::Table(T::Sch(0, 1), T::Sch(1, 2)), TRCall::Table(T::Tbl(2), T::Tbl(3))]], vec![TRCall::Table(T::Tbl(4), T::Tbl(5))], 0)
}

#[derive(Serialize, Deserialize, Clone, Debug, PartialEq, Eq, Hash)]
pub enum TTCall {
    Table(T),
}

pub struct TableTruncateM {
    s: TableTruncateStatement,
}

impl Machine for TableTruncateM {
    type S = TableTruncateStatement;
    type Call = TTCall;
    const NAME: &'static str = "tabletruncate";
    const CLEARS: &'static [(&'static str, &'static str)] = &[];
    const LEFTOVER_NEW: bool = false;
    fn new() -> Self {
        TableTruncateM { s: TableTruncateStatement::new() }
    }
    fn stmt(&self) -> &TableTruncateStatement {
        &self.s
    }
    fn stmt_mut(&mut self) -> &mut TableTruncateStatement {
        &mut self.s
    }
    fn apply(&mut self, c: &TTCall) {
        let TTCall::Table(t) = c;
        self.s.table(t.build());
    }
    fn take(&mut self) -> TableTruncateStatement {
        self.s.take()
    }
    fn to_owned_via_ref(s: &mut TableTruncateStatement) -> TableTruncateStatement {
        let r: &mut TableTruncateStatement = s;
        r.to_owned()
    }
    fn clear(&mut self, _op: usize) {}
    fn field_of(_: &TTCall) -> &'static str {
        "table"
    }
    fn eq(_: &TableTruncateStatement, _: &TableTruncateStatement) -> Option<bool> {
        None
    }
    fn renders(s: &TableTruncateStatement) -> Vec<(String, String)> {
        schema_render_fn!(s)
    }
}

fn tt_call() -> BoxedStrategy<TTCall> {
    tref().prop_map(TTCall::Table).boxed()
}

fn tt_family() -> Family<TTCall> {
    Family::new(vec![vec![TTCall::Table(T::Tbl(0))], vec![TTCall::Table(T::Db(0, 1, 2)), TTCall::Table(T::Tbl(1))]], vec![TTCall::Table(T::Tbl(5))], 0)
}

// ============================================================================================ driver

pub fn run(ctx: &mut Ctx) {
    run_machine::<WindowM>(ctx, &w_call, w_family(), 24, 6, Plan { quick: 8_000, thorough: 80_000 });
    run_machine::<ColumnM>(ctx, &c_call, c_family(), 24, 6, Plan { quick: 8_000, thorough: 80_000 });
    run_machine::<TableCreateM>(ctx, &tc_call, tc_family(), 32, 5, Plan { quick: 8_000, thorough: 80_000 });
    run_machine::<TableAlterM>(ctx, &ta_call, ta_family(), 16, 6, Plan { quick: 4_000, thorough: 40_000 });
    run_machine::<TableDropM>(ctx, &td_call, td_family(), 16, 6, Plan { quick: 3_000, thorough: 30_000 });
    run_machine::<TableRenameM>(ctx, &tr_call, tr_family(), 8, 8, Plan { quick: 2_000, thorough: 20_000 });
    run_machine::<TableTruncateM>(ctx, &tt_call, tt_family(), 8, 8, Plan { quick: 2_000, thorough: 20_000 });
    run_machine::<IndexM>(ctx, &i_call, i_family(), 32, 5, Plan { quick: 8_000, thorough: 80_000 });
    run_machine::<FkM>(ctx, &f_call, f_family(), 24, 6, Plan { quick: 6_000, thorough: 60_000 });
    run_machine::<TfkM>(ctx, &f_call, f_family(), 24, 6, Plan { quick: 6_000, thorough: 60_000 });
    run_machine::<TableIndexM>(ctx, &ti_call, ti_family(), 12, 8, Plan { quick: 2_000, thorough: 20_000 });
}

pub fn coverage(labels: &BTreeMap<String, u64>, out: &mut BTreeMap<String, J>, missing: &mut Vec<String>) {
    coverage_of::<WindowM>(labels, out, missing);
    coverage_of::<ColumnM>(labels, out, missing);
    coverage_of::<TableCreateM>(labels, out, missing);
    coverage_of::<TableAlterM>(labels, out, missing);
    coverage_of::<TableDropM>(labels, out, missing);
    coverage_of::<TableRenameM>(labels, out, missing);
    coverage_of::<TableTruncateM>(labels, out, missing);
    coverage_of::<IndexM>(labels, out, missing);
    coverage_of::<FkM>(labels, out, missing);
    coverage_of::<TfkM>(labels, out, missing);
    coverage_of::<TableIndexM>(labels, out, missing);
}

pub fn replay(ty: &str, case: &J, obs: &mut Obs) -> R {
    macro_rules! go {
        ($m:ty) => {
            if ty == <$m>::NAME {
                return check_history::<$m>(&from_case(case)?, obs);
            }
        };
    }
    go!(WindowM);
    go!(ColumnM);
    go!(TableCreateM);
    go!(TableAlterM);
    go!(TableDropM);
    go!(TableRenameM);
    go!(TableTruncateM);
    go!(IndexM);
    go!(FkM);
    go!(TfkM);
    go!(TableIndexM);
    discard(format!("unknown part {ty}"))
}
