//! C05 — rendered expressions re-parse to the expression tree that was built.
//!
//! Oracle: `SELECT <expr>` is rendered through the public API, lexed with the dialect lexer and
//! parsed with the grammar-faithful expression parser of that engine (`parse.rs`); the resulting
//! neutral tree must equal the tree the spec describes (every operator keeps exactly its operands).
//! On SQLite the rendering is additionally evaluated by the real engine over a table of all
//! assignments of three columns from {NULL,-1,0,1,2} and compared row by row with an independent,
//! fully parenthesised rendering of the same spec.

use crate::expr_spec::*;
use crate::lex;
use crate::parse::{parse_full_expr, PErr, PT};
use crate::runner::*;
use crate::sqlite::{Db, Row};
use crate::util::*;
use crate::with_backend;
use proptest::prelude::*;
use sea_query::*;
use serde::{Deserialize, Serialize};
use serde_json::Value as J;

#[derive(Serialize, Deserialize, Clone, Debug, PartialEq, Eq, Hash)]
pub struct Case {
    pub dialect: Dialect,
    pub e: E,
}

thread_local! {
    static DB: Db = {
        let db = Db::memory();
        db.exec("CREATE TABLE \"tt\" (\"id\" INTEGER PRIMARY KEY, \"p\" INT, \"q\" INT, \"r\" INT, \"s\" INT)").unwrap();
        let vals = ["NULL", "-1", "0", "1", "2"];
        let mut id = 0;
        for p in vals {
            for q in vals {
                for r in vals {
                    id += 1;
                    // s is a function of the row so that it varies too
                    db.exec(&format!("INSERT INTO \"tt\" VALUES ({id}, {p}, {q}, {r}, {})", if id % 3 == 0 { "NULL".to_string() } else { (id % 4).to_string() })).unwrap();
                }
            }
        }
        db
    };
}

#[derive(Debug)]
enum Verdict {
    Same,
    Differs(String),
    Unparsable(String),
    LexError(String),
    Undecided(String),
    Panic(String),
}

fn render(d: Dialect, e: &E, params: bool) -> Result<String, String> {
    let r = std::panic::catch_unwind(std::panic::AssertUnwindSafe(|| {
        let se = e.build(d);
        let q = Query::select().expr(se).to_owned();
        if params {
            with_backend!(d, b => q.build(b).0)
        } else {
            with_backend!(d, b => q.to_string(b))
        }
    }));
    r.map_err(panic_message)
}

fn normalise_params(pt: &mut PT) {
    match pt {
        PT::Param(p) => *p = None,
        PT::Un(_, e) | PT::Cast(e, _) => normalise_params(e),
        PT::Bin(_, l, r) => {
            normalise_params(l);
            normalise_params(r);
        }
        PT::Between(_, x, lo, hi) => {
            normalise_params(x);
            normalise_params(lo);
            normalise_params(hi);
        }
        PT::Like(_, x, p, e) => {
            normalise_params(x);
            normalise_params(p);
            if let Some(e) = e {
                normalise_params(e);
            }
        }
        PT::In(_, x, l) => {
            normalise_params(x);
            l.iter_mut().for_each(normalise_params);
        }
        PT::InSub(_, x, _) => normalise_params(x),
        PT::Func(_, a, _) | PT::Tuple(a) | PT::Array(a) => a.iter_mut().for_each(normalise_params),
        PT::Case(w, e) => {
            for (c, r) in w.iter_mut() {
                normalise_params(c);
                normalise_params(r);
            }
            if let Some(e) = e {
                normalise_params(e);
            }
        }
        _ => {}
    }
}

fn judge(d: Dialect, e: &E, params: bool) -> (Verdict, String) {
    let sql = match render(d, e, params) {
        Ok(s) => s,
        Err(p) => return (Verdict::Panic(p), String::new()),
    };
    let toks = match lex::lex(d, &sql) {
        Ok(t) => t,
        Err(er) => return (Verdict::LexError(format!("{er:?}")), sql),
    };
    if toks.first().map(|t| t.tok.is_word("SELECT")) != Some(true) {
        return (Verdict::Unparsable("statement does not start with SELECT".into()), sql);
    }
    match parse_full_expr(d, &toks[1..]) {
        Ok(mut got) => {
            let want = e.expect(d, params);
            if params {
                normalise_params(&mut got);
            }
            if got == want {
                (Verdict::Same, sql)
            } else {
                (Verdict::Differs(format!("re-parses to {} but the tree built is {}", got.show(), want.show())), sql)
            }
        }
        Err(PErr::Syntax { at, msg }) => (Verdict::Unparsable(format!("{msg} (token {at})")), sql),
        Err(PErr::Undecided(w)) => (Verdict::Undecided(w), sql),
    }
}

fn bad(v: &Verdict) -> bool {
    matches!(v, Verdict::Differs(_) | Verdict::Unparsable(_) | Verdict::LexError(_) | Verdict::Panic(_))
}

/// Find the smallest sub-structure responsible: a signature `<outer>/<inner>/<operand index>`.
fn localise(d: Dialect, e: &E, params: bool) -> String {
    for c in e.children() {
        if bad(&judge(d, c, params).0) {
            return localise(d, c, params);
        }
    }
    let kids = e.children();
    for (i, c) in kids.iter().enumerate() {
        if !c.is_operator() {
            continue;
        }
        // keep only child i (with its own children reduced to atoms), reduce the other operator children to atoms
        let reduced = e.map_children(&mut |j, ch| {
            if j == i {
                ch.map_children(&mut |_, g| if g.is_operator() { E::Col(3) } else { g.clone() })
            } else if ch.is_operator() {
                E::Col(2)
            } else {
                ch.clone()
            }
        });
        if bad(&judge(d, &reduced, params).0) {
            return format!("{}/{}/{}", e.kind(), c.kind(), i);
        }
    }
    if kids.iter().all(|c| !c.is_operator()) {
        return format!("{}/atoms", e.kind());
    }
    format!("{}/complex", e.kind())
}

pub fn check(c: &Case, obs: &mut Obs) -> R {
    let d = c.dialect;
    let e = &c.e;
    for params in [false, true] {
        let (v, sql) = judge(d, e, params);
        if !params {
            obs.note(sql.clone());
        }
        let mode = if params { "build" } else { "inline" };
        match v {
            Verdict::Same => {}
            Verdict::Undecided(w) => {
                obs.undecided(w);
                return Ok(());
            }
            Verdict::Panic(p) => return fail(format!("panic/{}/{}", d.name(), sig_clean(&p.chars().take(40).collect::<String>())), format!("[{mode}] {e:?}: panic {p}")),
            Verdict::LexError(m) => return fail(format!("lex-error/{}/{}", d.name(), localise(d, e, params)), format!("[{mode}] {sql:?}: {m}; spec {e:?}")),
            Verdict::Unparsable(m) => {
                return fail(format!("unparsable/{}/{}", d.name(), localise(d, e, params)), format!("[{mode}] {sql:?} is not derivable from the {} grammar: {m}; spec {e:?}", d.name()))
            }
            Verdict::Differs(m) => return fail(format!("regrouped/{}/{}", d.name(), localise(d, e, params)), format!("[{mode}] {sql:?} {m}; spec {e:?}")),
        }
    }
    // SQLite: differential evaluation against the fully parenthesised reference on the real engine
    if d == Dialect::Sqlite {
        if let Some(reference) = e.ref_sqlite() {
            let sql = render(d, e, false).unwrap_or_default();
            let rendered = sql.strip_prefix("SELECT ").unwrap_or(&sql).to_string();
            let q1 = format!("SELECT {rendered} FROM \"tt\" ORDER BY \"id\"");
            let q2 = format!("SELECT {reference} FROM \"tt\" ORDER BY \"id\"");
            let (r1, r2): (Result<Vec<Row>, _>, Result<Vec<Row>, _>) = DB.with(|db| (db.rows(&q1), db.rows(&q2)));
            match (r1, r2) {
                (Ok(a), Ok(b)) => {
                    if a != b {
                        let i = a.iter().zip(b.iter()).position(|(x, y)| x != y).unwrap_or(0);
                        return fail(
                            format!("engine-diff/sqlite/{}", localise_engine(e)),
                            format!("{q1:?} and the reference {q2:?} differ at row {i}: {:?} vs {:?}; spec {e:?}", a.get(i), b.get(i)),
                        );
                    }
                    obs.label("engine-evaluated");
                }
                (Err(x), Err(_)) => {
                    obs.label(format!("engine-both-error: {}", x.msg.chars().take(40).collect::<String>()));
                }
                (Ok(_), Err(y)) => {
                    // the reference is my own text: a failure here is a generator problem, not sea-query's
                    return discard(format!("reference rendering rejected: {}", y.msg.chars().take(60).collect::<String>()));
                }
                (Err(x), Ok(_)) => {
                    return fail(format!("engine-reject/sqlite/{}", localise_engine(e)), format!("{q1:?} is rejected by SQLite ({}) but the reference {q2:?} runs; spec {e:?}", x.msg));
                }
            }
        }
    }
    let mut edges = vec![];
    e.nesting_edges(&mut edges);
    if !edges.is_empty() {
        for (o, i, p) in &edges {
            obs.nontrivial(&(d, o.as_str(), i.as_str(), *p));
        }
        obs.label(format!("depth{}", e.depth().min(6)));
    }
    Ok(())
}

fn localise_engine(e: &E) -> String {
    let mut edges = vec![];
    e.nesting_edges(&mut edges);
    match edges.first() {
        Some((o, i, p)) if edges.len() == 1 => format!("{o}/{i}/{p}"),
        Some(_) => "multi".into(),
        None => "flat".into(),
    }
}

// ------------------------------------------------------------------------- depth-2 matrix

#[derive(Clone, Debug)]
enum Kind {
    Bin(Op),
    Not,
    Between(bool),
    LikePat(bool),
    In(bool),
    InSub,
    Cast,
    Func,
    Case,
    AsEnum,
}

fn kinds(d: Dialect) -> Vec<Kind> {
    let mut v: Vec<Kind> = ops_for(d).into_iter().map(Kind::Bin).collect();
    v.extend([Kind::Not, Kind::Between(false), Kind::Between(true), Kind::LikePat(false), Kind::LikePat(true), Kind::In(false), Kind::In(true), Kind::InSub, Kind::Cast, Kind::Func, Kind::Case, Kind::AsEnum]);
    v
}

fn arity(k: &Kind) -> usize {
    match k {
        Kind::Bin(_) => 2,
        Kind::Between(_) => 3,
        Kind::In(_) => 2,
        Kind::Case => 2,
        Kind::Func => 2,
        _ => 1,
    }
}

/// build a node of kind `k` whose operand `pos` is `inner` and whose other operands are atoms
fn make(d: Dialect, k: &Kind, pos: usize, inner: E) -> Option<E> {
    let at = |i: usize| -> E { [E::Col(0), E::Col(1), E::Int(1)][i % 3].clone() };
    let operand = |i: usize| if i == pos { inner.clone() } else { at(i) };
    Some(match k {
        Kind::Bin(op) => {
            let rhs_restricted = matches!(op, Op::Is | Op::IsNot) && d != Dialect::Sqlite;
            if rhs_restricted && pos == 1 {
                return None;
            }
            let r = if rhs_restricted { E::Null } else { operand(1) };
            E::Bin(Box::new(operand(0)), *op, Box::new(r))
        }
        Kind::Not => E::Not(Box::new(operand(0))),
        Kind::Between(n) => E::Between { not: *n, x: Box::new(operand(0)), lo: Box::new(operand(1)), hi: Box::new(operand(2)) },
        Kind::LikePat(n) => E::LikePat { not: *n, x: Box::new(operand(0)), pat: "a%".into(), esc: if *n { Some('|') } else { None } },
        Kind::In(n) => E::In { not: *n, x: Box::new(operand(0)), list: vec![operand(1), E::Int(2)] },
        Kind::InSub => E::InSub { not: false, x: Box::new(operand(0)) },
        Kind::Cast => E::Cast(Box::new(operand(0)), "integer".into()),
        Kind::Func => E::Func(F::Coalesce, vec![operand(0), operand(1)]),
        Kind::Case => E::Case(vec![(operand(0), operand(1))], Some(Box::new(E::Int(0)))),
        Kind::AsEnum => E::AsEnum(Box::new(operand(0))),
    })
}

fn matrix(d: Dialect) -> Vec<Case> {
    let ks = kinds(d);
    let mut out = vec![];
    for outer in &ks {
        for pos in 0..arity(outer) {
            for inner in &ks {
                let Some(inner_e) = make(d, inner, usize::MAX, E::Null) else { continue };
                if let Some(e) = make(d, outer, pos, inner_e) {
                    out.push(Case { dialect: d, e });
                }
            }
        }
    }
    out
}

pub fn case_strategy(depth: u32) -> impl Strategy<Value = Case> {
    prop_oneof![
        expr(Dialect::Mysql, depth, false).prop_map(|e| Case { dialect: Dialect::Mysql, e }),
        expr(Dialect::Postgres, depth, false).prop_map(|e| Case { dialect: Dialect::Postgres, e }),
        expr(Dialect::Sqlite, depth, false).prop_map(|e| Case { dialect: Dialect::Sqlite, e }),
        expr(Dialect::Sqlite, depth, true).prop_map(|e| Case { dialect: Dialect::Sqlite, e }),
    ]
}

pub fn run(ctx: &mut Ctx) {
    ctx.rule = "cases = (backend, expression tree): (a) the complete depth-2 matrix (every outer operator kind x operand position x inner \
operator kind per backend, atoms elsewhere) and (b) random trees up to depth D over columns, values, NULL/TRUE/FALSE, NOT, every BinOper incl. the \
Postgres / SQLite extension operators and custom operators with a known precedence, BETWEEN, LIKE(+ESCAPE), IN list / subquery, functions, CAST, CASE, \
tuples, EXISTS / ANY / SOME / ALL subqueries, custom templates. Both rendering modes. Non-trivial = an operator node directly under an operator node; \
distinct_nontrivial counts distinct (backend, outer, inner, operand position) combinations covered."
        .into();
    ctx.assumptions.push("MySQL grammar layering (expr/bool_pri/predicate/bit_expr/simple_expr) from sql_yacc.yy; Postgres %left/%nonassoc table and a_expr/b_expr from gram.y; SQLite table from parse.y — transcribed by hand".into());
    ctx.assumptions.push("SQLite verdicts are cross-checked against the real engine by differential evaluation over 125 rows".into());
    ctx.domain_restrictions.push("IS / IS NOT take only NULL / TRUE / FALSE on the right on MySQL and Postgres (engine grammar)".into());
    ctx.domain_restrictions.push("custom operators only with a precedence known from the engine grammar; arguments of custom templates are atoms (the template text is the user's)".into());
    ctx.domain_restrictions.push("MySQL: `x LIKE <pattern> <operator> ..` and chained predicate operators are undecided (counted, not reported)".into());
    ctx.extra.insert("build_config_more_parentheses".into(), serde_json::json!(cfg!(feature = "paren")));
    for d in DIALECTS {
        let m = matrix(d);
        ctx.run_list(&format!("matrix-{}", d.name()), &m, &check);
        if let Some(p) = ctx.parts.last_mut() {
            p.exhaustive = true;
            p.kind = "exhaustive";
        }
    }
    let depth = ctx.tier.pick(4, 6);
    let n = ctx.tier.pick(120_000, 2_500_000);
    ctx.run_proptest("random-trees", n, &|| case_strategy(depth), &check);
    // long chains of one operator (left-deep, as repeated builder calls produce them) with one right operand that is itself a group of
    // the same operator: every length up to the bound, every associative / left-associative arithmetic and logical operator
    let max_chain: u64 = ctx.tier.pick(80, 300);
    const CHAIN_OPS: [Op; 6] = [Op::And, Op::Or, Op::Add, Op::Sub, Op::Mul, Op::Mod];
    ctx.run_indexed(
        "long-chains",
        (max_chain - 1) * CHAIN_OPS.len() as u64 * 3,
        &|i| {
            let d = DIALECTS[(i % 3) as usize];
            let op = CHAIN_OPS[((i / 3) % CHAIN_OPS.len() as u64) as usize];
            let len = 2 + (i / (3 * CHAIN_OPS.len() as u64)) as usize;
            // the fully parenthesised reference text of a longer chain overflows the SQLite parser's stack (engine limit)
            let len = if d == Dialect::Sqlite { 2 + (len - 2) % 79 } else { len };
            let nested_at = 1 + (len * 7 + 3) % (len - 1);
            let mut e = E::Col(0);
            for k in 1..len {
                let rhs = if k == nested_at { E::Bin(Box::new(E::Col(1)), op, Box::new(E::Col(2))) } else { E::Col((k % 4) as u8) };
                e = E::Bin(Box::new(e), op, Box::new(rhs));
            }
            Case { dialect: d, e }
        },
        &check,
    );
}

pub fn replay(_part: &str, case: &J, obs: &mut Obs) -> R {
    let c: Case = from_case(case)?;
    check(&c, obs)
}
